// Package checks links every property check into the binary.
package checks
