package checks

import (
	"encoding/binary"
	"encoding/json"
	"fmt"
	iofs "io/fs"
	"os"
	"os/exec"
	"path/filepath"
	"runtime"
	"runtime/debug"
	"runtime/metrics"
	"strings"
	"sync"
	"sync/atomic"
	"time"

	"github.com/diskfs/go-diskfs/filesystem"
	"github.com/diskfs/go-diskfs/filesystem/ext4"
	"github.com/diskfs/go-diskfs/filesystem/fat12"
	"github.com/diskfs/go-diskfs/filesystem/fat16"
	"github.com/diskfs/go-diskfs/filesystem/fat32"
	"github.com/diskfs/go-diskfs/filesystem/iso9660"
	"github.com/diskfs/go-diskfs/filesystem/squashfs"

	"verif/internal/core"
	"verif/internal/fatck"
	"verif/internal/gen"
	"verif/internal/monstore"
)

type c18Region struct {
	Name string
	Off  int64
	Len  int64
}

type c18Base struct {
	name    string
	fsType  string
	size    int64
	bytes   []byte
	regions []c18Region
	open    func(st *monstore.Store) (filesystem.FileSystem, error)
	graph   []c18Mut // targeted graph faults
}

type c18Mut struct {
	Base   string   `json:"base"`
	Region string   `json:"region"`
	Off    int64    `json:"off"`
	Width  int      `json:"width"`
	Value  uint64   `json:"value"`
	Note   string   `json:"note,omitempty"`
	Extra  []c18Mut `json:"extra,omitempty"` // further edits applied together (graph faults)
}

func c18Tree() Tree {
	return Tree{
		{Path: "DIR", Dir: true}, {Path: "DIR/SUB", Dir: true},
		{Path: "A.TXT", Size: 3000, Seed: 1}, {Path: "DIR/B.DAT", Size: 20000, Seed: 2}, {Path: "DIR/SUB/a long name for a file.text", Size: 700, Seed: 3},
		{Path: "EMPTY", Size: 0}, {Path: "DIR/C.BIN", Size: 70000, Seed: 4, Kind: "text"},
	}
}

var (
	c18Once  sync.Once
	c18Bases map[string]*c18Base
	c18Err   error
)

func le32at(b []byte, off int64) uint32 { return binary.LittleEndian.Uint32(b[off:]) }
func le16at(b []byte, off int64) uint16 { return binary.LittleEndian.Uint16(b[off:]) }

// ext4Regions locates the structures of an ext4 image with a minimal independent parser.
func ext4Regions(b []byte) []c18Region {
	sb := int64(1024)
	regs := []c18Region{{"superblock", sb, 264}}
	bs := int64(1024) << le32at(b, sb+24)
	firstData := int64(le32at(b, sb+20))
	ipg := int64(le32at(b, sb+40))
	isz := int64(le16at(b, sb+88))
	dsz := int64(le16at(b, sb+254))
	if dsz < 32 {
		dsz = 32
	}
	gdt := (firstData + 1) * bs
	regs = append(regs, c18Region{"group-descriptors", gdt, 2 * dsz})
	itab := int64(le32at(b, gdt+8)) * bs
	inode := func(n int64) int64 { return itab + ((n-1)%ipg)*isz }
	regs = append(regs, c18Region{"inode-root", inode(2), 160})
	// bitmaps: first bytes
	regs = append(regs, c18Region{"block-bitmap", int64(le32at(b, gdt)) * bs, 16}, c18Region{"inode-bitmap", int64(le32at(b, gdt+4)) * bs, 8})
	// root directory block from the root inode's first extent
	ri := inode(2)
	if le16at(b, ri+40) == 0xF30A && le16at(b, ri+40+6) == 0 {
		blk := int64(le32at(b, ri+40+12+8)) | int64(le16at(b, ri+40+12+6))<<32
		regs = append(regs, c18Region{"root-directory-block", blk * bs, 160})
		// the inodes the root directory names: walk its entries
		off := blk * bs
		for p := off; p < off+bs-8; {
			ino := int64(le32at(b, p))
			rl := int64(le16at(b, p+4))
			if rl < 8 {
				break
			}
			nl := int64(b[p+6])
			name := string(b[p+8 : p+8+nl])
			if ino > 2 && name != "lost+found" && len(regs) < 16 {
				regs = append(regs, c18Region{"inode-of-" + name, inode(ino), 160})
				ii := inode(ino)
				if le16at(b, ii+40) == 0xF30A {
					if le16at(b, ii+40+6) > 0 { // depth > 0: index node -> leaf block
						lb := int64(le32at(b, ii+40+12+4)) | int64(le16at(b, ii+40+12+8))<<32
						regs = append(regs, c18Region{"extent-leaf-block-of-" + name, lb * bs, 60})
					} else if b[ii+2]&0x40 != 0 || le16at(b, ii)&0xF000 == 0x4000 { // a directory: its first block
						db := int64(le32at(b, ii+40+12+8)) | int64(le16at(b, ii+40+12+6))<<32
						regs = append(regs, c18Region{"directory-block-of-" + name, db * bs, 96})
					}
				}
			}
			p += rl
		}
	}
	return regs
}

func c18GetBases(scratch string) (map[string]*c18Base, error) {
	c18Once.Do(func() {
		c18Bases = map[string]*c18Base{}
		t := c18Tree()
		add := func(b *c18Base) { c18Bases[b.name] = b }
		// ---- FAT ----
		for _, typ := range []string{"fat12", "fat16", "fat32"} {
			v := FatVol{Type: typ, Size: map[string]int64{"fat12": 1474560, "fat16": 8 << 20, "fat32": 4 << 20}[typ], Sector: 512, Label: "DAMAGE"}
			st := monstore.NewMem(v.Size)
			fs, err := fatCreate(st, v)
			if err == nil {
				err = populate(fs, t)
			}
			if err != nil {
				c18Err = fmt.Errorf("%s base: %w", typ, err)
				return
			}
			img := st.Bytes()
			rep := fatck.Check(func(off int64, n int) []byte {
				if off >= int64(len(img)) {
					return nil
				}
				if off+int64(n) > int64(len(img)) {
					n = int(int64(len(img)) - off)
				}
				return img[off : off+int64(n)]
			}, v.Size)
			regs := []c18Region{{"boot-sector-bpb", 0, 96}, {"boot-signature", 510, 2}, {"fat-in-use-entries", rep.FATOffset, 96}, {"root-directory", rep.RootDirOffset, 224}}
			if typ == "fat32" {
				regs = append(regs, c18Region{"fsinfo", 512, 16}, c18Region{"fsinfo-tail", 512 + 484, 28}, c18Region{"root-directory", rep.DataOffset, 224})
			}
			for _, e := range rep.Entries {
				if e.IsDir && len(e.Chain) > 0 {
					regs = append(regs, c18Region{"directory-cluster-of-" + e.Path, rep.DataOffset + int64(e.Chain[0]-2)*int64(rep.ClusterSize), 128})
				}
			}
			vv := v
			b := &c18Base{name: typ, fsType: typ, size: v.Size, bytes: img, regions: regs, open: func(s *monstore.Store) (filesystem.FileSystem, error) {
				switch vv.Type {
				case "fat12":
					return fat12.Read(fileNewRO(s), vv.Size, 0, 512)
				case "fat16":
					return fat16.Read(fileNewRO(s), vv.Size, 0, 512)
				}
				return fat32.Read(fileNewRO(s), vv.Size, 0, 512)
			}}
			// graph faults on the FAT: self-loop, 2-cycle, cross-link, out-of-range link, free link
			var file *fatck.Entry
			for i := range rep.Entries {
				if len(rep.Entries[i].Chain) >= 3 {
					file = &rep.Entries[i]
				}
			}
			if file != nil {
				w := map[string]int{"fat12": 12, "fat16": 16, "fat32": 32}[typ]
				entryMut := func(cl uint32, val uint64, note string) c18Mut {
					if w == 12 {
						// 12-bit entries: rewrite the containing 3 bytes through two byte edits is fiddly; use 16-bit write on even clusters only
						off := rep.FATOffset + int64(cl)*3/2
						old := uint64(le16at(img, off))
						nv := (old & 0xF000) | (val & 0x0FFF)
						if cl%2 == 1 {
							nv = (old & 0x000F) | ((val & 0x0FFF) << 4)
						}
						return c18Mut{Base: typ, Region: "fat-graph", Off: off, Width: 2, Value: nv, Note: note}
					}
					return c18Mut{Base: typ, Region: "fat-graph", Off: rep.FATOffset + int64(cl)*int64(w/8), Width: w / 8, Value: val, Note: note}
				}
				c0, c1 := file.Chain[0], file.Chain[1]
				b.graph = append(b.graph,
					entryMut(c0, uint64(c0), "chain self-loop"),
					entryMut(c1, uint64(c0), "chain 2-cycle"),
					entryMut(c0, 0, "chain runs into a free entry"),
					entryMut(c0, uint64(rep.ClusterCount)+50, "link out of range"),
					entryMut(c0, 1, "link to reserved cluster 1"),
					entryMut(c0, 0xFFFFFF7, "link to the bad-cluster mark"),
				)
				for _, d := range rep.Entries {
					if d.IsDir && len(d.Chain) > 0 {
						b.graph = append(b.graph, entryMut(d.Chain[0], uint64(d.Chain[0]), "directory chain self-loop"), entryMut(d.Chain[0], uint64(c0), "directory cross-linked into a file"))
						break
					}
				}
			}
			add(b)
		}
		// ---- ext4 (library-made, two configurations) ----
		for i, cfg := range []Ext4Cfg{{Size: 16 << 20}, {Size: 16 << 20, SPB: 8, Off: []string{"resize_inode", "journal"}}} {
			st := monstore.NewMem(cfg.Size)
			big := append(Tree{}, t...)
			_, err := buildExt4(st, cfg.Size, 0, cfg.params(), big)
			if err != nil {
				c18Err = fmt.Errorf("ext4 base %d: %w", i, err)
				return
			}
			img := st.Bytes()
			sz := cfg.Size
			add(&c18Base{name: fmt.Sprintf("ext4-lib%d", i), fsType: "ext4", size: sz, bytes: img, regions: ext4Regions(img), open: func(s *monstore.Store) (filesystem.FileSystem, error) {
				return ext4.Read(fileNewRO(s), sz, 0, 512)
			}})
		}
		// ---- ext4 made by mke2fs (with a sparse multi-extent file so that an extent tree has depth) ----
		if scratch != "" {
			work := filepath.Join(scratch, "c18-mke2fs")
			os.RemoveAll(work)
			root := filepath.Join(work, "tree")
			os.MkdirAll(filepath.Join(root, "DIR"), 0o755)
			os.WriteFile(filepath.Join(root, "A.TXT"), gen.PRFBytes(1, 3000), 0o644)
			os.WriteFile(filepath.Join(root, "DIR", "B.DAT"), gen.PRFBytes(2, 20000), 0o644)
			var runs [][2]int64
			for k := 0; k < 12; k++ {
				runs = append(runs, [2]int64{int64(k) * 3 * 1024, 1024})
			}
			writeSparse(filepath.Join(root, "SPARSE.BIN"), 12*3*1024+100, runs, 9)
			os.Symlink(strings.Repeat("t", 100), filepath.Join(root, "LINK"))
			img := filepath.Join(work, "fs.img")
			if out, err := exec.Command("mke2fs", "-q", "-F", "-t", "ext4", "-b", "1024", "-d", root, img, "8M").CombinedOutput(); err == nil {
				if data, err := os.ReadFile(img); err == nil {
					sz := int64(len(data))
					add(&c18Base{name: "ext4-mke2fs", fsType: "ext4", size: sz, bytes: data, regions: ext4Regions(data), open: func(s *monstore.Store) (filesystem.FileSystem, error) {
						return ext4.Read(fileNewRO(s), sz, 0, 512)
					}})
				}
			} else {
				c18Err = fmt.Errorf("mke2fs: %v %s", err, out)
			}
			os.RemoveAll(work)
		}
		// ---- ISO9660 ----
		for _, o := range []struct {
			name string
			opt  ISOOpts
		}{{"iso-plain", ISOOpts{}}, {"iso-rr", ISOOpts{RockRidge: true}}, {"iso-joliet", ISOOpts{Joliet: true}}} {
			st := monstore.NewMem(4 << 20)
			tt := append(Tree{}, t...)
			if o.opt.RockRidge {
				tt = append(tt, TNode{Path: "LNK", Link: "A.TXT"})
			}
			if err := buildISO(st, 4<<20, 0, o.opt, tt); err != nil {
				c18Err = fmt.Errorf("%s base: %w", o.name, err)
				return
			}
			img := st.Bytes()
			regs := []c18Region{{"primary-volume-descriptor", 32768, 200}, {"pvd-root-record", 32768 + 156, 34}, {"second-descriptor", 32768 + 2048, 96}, {"third-descriptor", 32768 + 4096, 16}}
			rootExt := int64(le32at(img, 32768+156+2)) * 2048
			regs = append(regs, c18Region{"root-directory-records", rootExt, 420})
			lpt := int64(le32at(img, 32768+140)) * 2048
			regs = append(regs, c18Region{"path-table", lpt, 64})
			// first subdirectory: follow the third record of the root (after . and ..)
			p := rootExt
			for k := 0; k < 2 && img[p] != 0; k++ {
				p += int64(img[p])
			}
			for img[p] != 0 && p < rootExt+2048 {
				if img[p+25]&2 != 0 {
					regs = append(regs, c18Region{"subdirectory-records", int64(le32at(img, p+2)) * 2048, 200})
					break
				}
				p += int64(img[p])
			}
			if o.opt.Joliet {
				jroot := int64(le32at(img, 32768+2048+156+2)) * 2048
				regs = append(regs, c18Region{"joliet-root-records", jroot, 300})
			}
			add(&c18Base{name: o.name, fsType: "iso9660", size: 4 << 20, bytes: img, regions: regs, open: func(s *monstore.Store) (filesystem.FileSystem, error) {
				return iso9660.Read(fileNewRO(s), 4<<20, 0, 2048)
			}})
		}
		// ---- squashfs ----
		for _, o := range []struct {
			name string
			opt  SqOpts
		}{{"squashfs-none", SqOpts{Comp: "none"}}, {"squashfs-gzip", SqOpts{Comp: "gzip"}}} {
			st := monstore.NewMem(4 << 20)
			tt := append(append(Tree{}, t...), TNode{Path: "LNK", Link: "A.TXT"})
			if err := buildSquash(st, 4<<20, 0, o.opt, tt); err != nil {
				c18Err = fmt.Errorf("%s base: %w", o.name, err)
				return
			}
			img := st.Bytes()
			regs := []c18Region{{"superblock", 0, 96}}
			for _, tp := range []struct {
				n   string
				off int64
			}{{"id-table", 48}, {"inode-table", 64}, {"directory-table", 72}, {"fragment-table", 80}, {"export-table", 88}} {
				v := int64(binary.LittleEndian.Uint64(img[tp.off:]))
				if v > 0 && v < int64(len(img))-64 {
					ln := int64(96)
					if o.opt.Comp == "none" && (tp.n == "inode-table" || tp.n == "directory-table") {
						ln = 400
					}
					regs = append(regs, c18Region{tp.n + "-start", v, ln})
				}
			}
			add(&c18Base{name: o.name, fsType: "squashfs", size: 4 << 20, bytes: img, regions: regs, open: func(s *monstore.Store) (filesystem.FileSystem, error) {
				return squashfs.Read(fileNewRO(s), 4<<20, 0, 4096)
			}})
		}
	})
	return c18Bases, c18Err
}

// c18Enumerate lists every (offset, width, value) mutation of the base's regions plus the graph faults.
// c18Magic: the image's own structural magnitudes (counts, sizes, table capacities), read raw from its
// header. A link or count set to exactly such a number, or one next to it, is where a range check written
// against the wrong quantity (off by one, capacity instead of count) gives way.
func c18Magic(b *c18Base) []uint64 {
	le := func(off int64, n int) uint64 {
		if off < 0 || off+int64(n) > int64(len(b.bytes)) {
			return 0
		}
		return readLE(b.bytes[off:], n)
	}
	var m []uint64
	switch b.fsType {
	case "fat12", "fat16", "fat32":
		bps, spc, reserved, nfats, rootEnts := le(11, 2), le(13, 1), le(14, 2), le(16, 1), le(17, 2)
		total, fatsz := le(19, 2), le(22, 2)
		if total == 0 {
			total = le(32, 4)
		}
		if fatsz == 0 {
			fatsz = le(36, 4)
		}
		if bps == 0 || spc == 0 {
			return nil
		}
		clusters := (total - reserved - nfats*fatsz - (rootEnts*32+bps-1)/bps) / spc
		capacity := map[string]uint64{"fat12": fatsz * bps * 2 / 3, "fat16": fatsz * bps / 2, "fat32": fatsz * bps / 4}[b.fsType]
		m = []uint64{clusters + 1, clusters + 2, capacity, total}
	case "ext4":
		sb := int64(1024)
		inodes, blocks, first, bpg, ipg := le(sb, 4), le(sb+4, 4), le(sb+20, 4), le(sb+32, 4), le(sb+40, 4)
		m = []uint64{inodes, blocks, first, bpg, ipg}
		if bpg > 0 {
			m = append(m, (blocks+bpg-1)/bpg)
		}
	case "iso9660":
		pvd := int64(32768)
		m = []uint64{le(pvd+80, 4), le(pvd+128, 2), le(pvd+132, 4), le(pvd+156+2, 4), le(pvd+156+10, 4)}
	case "squashfs":
		m = []uint64{le(4, 4), le(12, 4), le(16, 4), le(26, 2), le(40, 8), le(48, 8), le(64, 8), le(72, 8), le(80, 8)}
	}
	return m
}

func c18Enumerate(b *c18Base, deep bool) []c18Mut {
	var out []c18Mut
	out = append(out, b.graph...)
	magic := c18Magic(b)
	for _, rg := range b.regions {
		for off := rg.Off; off < rg.Off+rg.Len && off < int64(len(b.bytes)); off++ {
			for _, w := range []int{1, 2, 4, 8} {
				if off+int64(w) > int64(len(b.bytes)) || (w > 1 && (off-rg.Off)%int64(w) != 0 && (off-rg.Off)%2 != 0) {
					continue
				}
				old := readLE(b.bytes[off:], w)
				max := ^uint64(0)
				if w < 8 {
					max = (uint64(1) << (8 * uint(w))) - 1
				}
				seen := map[uint64]bool{old: true}
				vals := []uint64{0, 1, max, max - 1, uint64(1) << (8*uint(w) - 1), (old + 1) & max, (old - 1) & max}
				if deep && w == 1 {
					for k := uint(0); k < 8; k++ {
						vals = append(vals, old^(1<<k)) // every single-bit flip
					}
				}
				for _, v := range vals {
					if seen[v] {
						continue
					}
					seen[v] = true
					out = append(out, c18Mut{Base: b.name, Region: rg.Name, Off: off, Width: w, Value: v})
				}
				if w >= 2 {
					for _, mg := range magic {
						for _, v := range []uint64{mg - 1, mg, mg + 1} {
							if v > max || seen[v] {
								continue
							}
							seen[v] = true
							out = append(out, c18Mut{Base: b.name, Region: rg.Name, Off: off, Width: w, Value: v, Note: "image-derived magnitude"})
						}
					}
				}
			}
		}
	}
	return out
}

type c18Params struct {
	Base string  `json:"base"`
	From int     `json:"from,omitempty"`
	To   int     `json:"to,omitempty"`
	Pick int     `json:"pick,omitempty"` // take every Pick-th mutation (1 = all)
	Deep bool    `json:"deep,omitempty"` // thorough tier: the enumeration also holds every single-bit flip of every byte
	Only *c18Mut `json:"only,omitempty"`
}

// c18Walk opens the image and walks it with bounds on everything.
func c18Walk(b *c18Base, st *monstore.Store) (outcome string, err error) {
	fs, err := b.open(st)
	if err != nil {
		return "refused", nil
	}
	entries := 0
	drainBuf := make([]byte, 32<<10)
	var walk func(dir string, depth int) error
	walk = func(dir string, depth int) error {
		if depth > 12 {
			return nil
		}
		arg := dir
		if arg == "" {
			arg = "."
		}
		ents, e := fs.ReadDir(arg)
		if e != nil {
			return nil
		}
		for _, en := range ents {
			entries++
			if entries > 400 {
				return nil
			}
			name := en.Name()
			if name == "." || name == ".." || name == "" || strings.Contains(name, "/") {
				continue
			}
			p := name
			if dir != "" {
				p = dir + "/" + name
			}
			if en.IsDir() {
				if e := walk(p, depth+1); e != nil {
					return e
				}
				continue
			}
			if en.Type()&iofs.ModeSymlink != 0 {
				continue
			}
			// drained through one shared buffer: what the harness itself allocates must not count as the
			// library's memory use (an image that lists hundreds of garbage entries is walked entry by entry)
			if c18Drain(fs, p, drainBuf, 2*b.size+(1<<20)) == "no progress" {
				return fmt.Errorf("no-progress reading %s", p)
			}
			if entries < 40 {
				_, _ = fs.ReadFile(p)
			}
			_, _ = fs.Stat(p)
		}
		return nil
	}
	if e := walk("", 0); e != nil {
		return "walked", e
	}
	return "walked", nil
}

var c18GCOnce sync.Once

func c18Eval(res *core.Result, b *c18Base, m c18Mut, env *core.Env) {
	c18EvalAttempt(res, b, m, env, 0)
}

func c18EvalAttempt(res *core.Result, b *c18Base, m c18Mut, env *core.Env, attempt int) {
	st := monstore.NewOverlay(b.bytes)
	apply := func(x c18Mut) {
		buf := make([]byte, x.Width)
		putLE(buf, x.Width, x.Value)
		st.Poke(buf, x.Off)
	}
	apply(m)
	for _, x := range m.Extra {
		apply(x)
	}
	st.MaxReadBytes = 64*b.size + 1<<20
	if env != nil {
		js, _ := json.Marshal(m)
		env.Note(string(js))
		env.StepCPU() // the CPU budget is per mutation
	}
	replay := core.MkCase("mut-"+core.Hash(m), "damage-"+b.name, 0, c18Params{Base: b.name, Only: &m})
	fail := func(rule, cause, f string, a ...any) {
		res.FailReplay(fmt.Sprintf("C18/%s/%s/%s", b.fsType, rule, cause), fmt.Sprintf(f, a...), m, replay)
	}
	// memory: the live heap is sampled while the image is walked. What counts is an allocation whose size
	// comes from the image (it stays live at least until the next collection), not the sum of the many small
	// short-lived allocations a walk makes.
	heapNow := func() uint64 {
		s := []metrics.Sample{{Name: "/memory/classes/heap/objects:bytes"}}
		metrics.Read(s)
		return s[0].Value.Uint64()
	}
	// (a low GC percentage keeps the garbage of many small allocations from looking like growth)
	c18GCOnce.Do(func() { debug.SetGCPercent(15) })
	heap0 := heapNow()
	var peak atomic.Uint64
	stopSampler := make(chan struct{})
	samplerDone := make(chan struct{})
	go func() {
		defer close(samplerDone)
		tk := time.NewTicker(500 * time.Microsecond)
		defer tk.Stop()
		for {
			select {
			case <-stopSampler:
				return
			case <-tk.C:
				if h := heapNow(); h > peak.Load() {
					peak.Store(h)
				}
			}
		}
	}()
	var outcome string
	var werr error
	pi := core.Guard(func() { outcome, werr = c18Walk(b, st) })
	if h := heapNow(); h > peak.Load() {
		peak.Store(h)
	}
	close(stopSampler)
	<-samplerDone
	res.Count("walks", 1)
	if pi != nil {
		fail("panic", pi.Top+":"+pi.Class, "panic while opening/walking a %s image with %s corrupted (offset %d, width %d, value %#x%s): %s; stack: %s", b.name, m.Region, m.Off, m.Width, m.Value, noteOf(m), pi.Msg, repoFrames(pi.Stack, 6))
		return
	}
	if werr != nil {
		fail("resources-out-of-proportion", c18ResReg(m), "%v (image %s, %s corrupted at %d)", werr, b.name, m.Region, m.Off)
		return
	}
	if st.Exceeded.Load() {
		fail("resources-out-of-proportion", c18ResReg(m), "more than 64x the image size was read while walking (image %s, %s corrupted at %d%s)", b.name, m.Region, m.Off, noteOf(m))
		return
	}
	if pk := peak.Load(); pk > heap0 && pk-heap0 > uint64(8*b.size+(32<<20)) {
		if attempt == 0 {
			// garbage of earlier mutations that happened not to be collected yet must not be blamed on this one:
			// collect, and measure the same mutation a second time
			runtime.GC()
			res.Count("heap_rule.remeasured", 1)
			c18EvalAttempt(res, b, m, env, 1)
			return
		}
		fail("resources-out-of-proportion", c18ResReg(m), "the live heap grew by %d bytes while walking a %d-byte image (%s corrupted at %d, width %d, value %#x)", pk-heap0, b.size, m.Region, m.Off, m.Width, m.Value)
		return
	}
	res.Count("outcome."+outcome, 1)
	if outcome == "walked" {
		res.Sig(m)
	}
}

func noteOf(m c18Mut) string {
	if m.Note != "" {
		return "; " + m.Note
	}
	return ""
}

var c18BaseNames = []string{"fat12", "fat16", "fat32", "ext4-lib0", "ext4-lib1", "ext4-mke2fs", "iso-plain", "iso-rr", "iso-joliet", "squashfs-none", "squashfs-gzip"}

func init() {
	core.Register(&core.Check{
		ID:          "C18",
		Level:       "fault_enumeration",
		Rule:        "valid base images (FAT12/16/32, ext4 in two library configurations and one made by mke2fs with a multi-extent sparse file, ISO9660 plain/Rock Ridge/Joliet, squashfs uncompressed and gzip) are built once; their structural regions are located by independent parsers (boot sector/BPB, FSInfo, in-use FAT entries, root and sub directory entries; superblock, group descriptors, bitmaps, in-use inodes with their extent headers, extent leaf blocks, directory blocks; volume descriptors, directory records, path table; squashfs superblock and the heads of every table); within each region every byte offset x width {1,2,4,8} x values {0,1,max,max-1,sign bit,old+1,old-1} and, for widths >= 2, the image's own structural magnitudes read raw from its header (cluster count and FAT capacity; block, inode and per-group counts; volume and table sizes; squashfs counts and table offsets), each -1/+0/+1, is applied on a copy-on-write overlay, plus targeted graph faults (FAT self-loop, 2-cycle, cross-link, out-of-range/free/bad links); each corrupted image is opened and walked (ReadDir on every directory, bounded read loop + ReadFile + Stat on every file) in a worker child with a read budget of 64x the image and a per-case CPU budget; monitors: panics, fatal deaths (journal attribution), CPU budget, non-progressing reads, growth of the live heap (sampled every 0.5 ms) beyond 8x image + 32 MiB, confirmed by a second measurement of the same mutation after a collection, read volume. The enumeration is deterministic and complete in both tiers (thorough adds all single-bit flips); non-trivial = the image was still opened and walked; distinct = distinct mutation",
		Assumptions: []string{"both tiers run the full enumeration; the thorough tier adds every single-bit flip of every byte of the regions", "panics are keyed by filesystem type + innermost library function + normalised message, so each distinct crash site is one finding"},
		MinSigs:     map[string]int{"quick": 2000, "thorough": 50000},
		CPUSec:      30,
		DeathKey: func(c core.Case, class, stderr, note string) string {
			var m c18Mut
			reg := "unknown"
			if json.Unmarshal([]byte(note), &m) == nil && m.Region != "" {
				reg = m.Region
			}
			typ := strings.TrimPrefix(c.Kind, "damage-")
			switch {
			case strings.HasPrefix(typ, "ext4"):
				typ = "ext4"
			case strings.HasPrefix(typ, "iso"):
				typ = "iso9660"
			case strings.HasPrefix(typ, "squashfs"):
				typ = "squashfs"
			}
			if class == "cpu-limit" || class == "fatal-oom" {
				// time, memory and read volume out of proportion are one family: which of them trips
				// first depends on the machine, so they share one key per damaged region
				class = "resources-out-of-proportion"
			}
			if class == "resources-out-of-proportion" && os.Getenv("C18_DIAG") == "" {
				reg = "time-memory-or-reads"
			}
			return fmt.Sprintf("C18/%s/%s/%s", typ, class, reg)
		},
		Cases: func(seed int64, tier string) []core.Case {
			bases, err := c18GetBases(os.TempDir())
			if err != nil {
				return []core.Case{core.MkCase("setup", "setup", 0, c18Params{})}
			}
			var cs []core.Case
			for _, bn := range c18BaseNames {
				b := bases[bn]
				if b == nil {
					continue
				}
				deep := tier == "thorough"
				n := len(c18Enumerate(b, deep))
				pick := 1
				step := 200 * pick
				for from := 0; from < n; from += step {
					to := from + step
					if to >= n {
						to = 1 << 30 // the worker's own enumeration decides where the list ends
					}
					cs = append(cs, core.MkCase(fmt.Sprintf("%s-%d", bn, from), "damage-"+bn, 0, c18Params{Base: bn, From: from, To: to, Pick: pick, Deep: deep}))
				}
			}
			return cs
		},
		Run: func(c core.Case, env *core.Env) core.Result {
			var p c18Params
			c.Decode(&p)
			var res core.Result
			bases, err := c18GetBases(env.Scratch)
			if err != nil {
				res.Inconclusive = "base images: " + err.Error()
				return res
			}
			b := bases[p.Base]
			if b == nil {
				res.Inconclusive = "unknown base " + p.Base
				return res
			}
			if p.Only != nil {
				c18Eval(&res, b, *p.Only, env)
				return res
			}
			ms := c18Enumerate(b, p.Deep)
			if p.To > len(ms) {
				p.To = len(ms)
			}
			n := 0
			seenKeys := map[string]bool{}
			for i := p.From; i < p.To; i++ {
				if p.Pick > 1 && i%p.Pick != 0 && ms[i].Region != "fat-graph" {
					continue
				}
				before := len(res.Findings)
				c18Eval(&res, b, ms[i], env)
				n++
				// one finding per key and case is enough; keep enumerating
				if len(res.Findings) > before {
					k := res.Findings[len(res.Findings)-1].Key
					if seenKeys[k] {
						res.Findings = res.Findings[:before]
						res.Count("findings.repeated_in_case", 1)
					}
					seenKeys[k] = true
				}
			}
			res.Evals = int64(n)
			res.Mark("base " + p.Base)
			if p.To > p.From {
				res.Sample = ms[p.From]
			}
			return res
		},
		NeedMarks: []string{"base fat12", "base fat32", "base ext4-lib0", "base ext4-mke2fs", "base iso-rr", "base squashfs-none"},
	})
}

// repoFrames returns the first n go-diskfs frames ("func (file:line)") of a panic stack.
func repoFrames(stack string, n int) string {
	var out []string
	lines := strings.Split(stack, "\n")
	for i := 0; i+1 < len(lines) && len(out) < n; i++ {
		l := lines[i]
		if !strings.HasPrefix(l, "github.com/diskfs/go-diskfs/") {
			continue
		}
		fn := strings.TrimPrefix(l, "github.com/diskfs/go-diskfs/")
		if j := strings.LastIndex(fn, "("); j > 0 {
			fn = fn[:j]
		}
		loc := strings.TrimSpace(lines[i+1])
		if j := strings.Index(loc, " +0x"); j > 0 {
			loc = loc[:j]
		}
		if j := strings.LastIndex(loc, "/"); j >= 0 {
			loc = loc[j+1:]
		}
		out = append(out, fn+" ("+loc+")")
	}
	return strings.Join(out, " <- ")
}

// c18ResReg: the cause part of a resource finding's key (diagnostic runs with C18_DIAG=1 split it by region).
func c18ResReg(m c18Mut) string {
	if os.Getenv("C18_DIAG") != "" {
		return m.Region
	}
	return "time-memory-or-reads"
}

// c18Drain reads a file to its end (or limit bytes) through buf and reports how it ended.
func c18Drain(fs filesystem.FileSystem, p string, buf []byte, limit int64) string {
	f, err := fs.OpenFile(p, os.O_RDONLY)
	if err != nil {
		return "open-error"
	}
	defer f.Close()
	var total int64
	zero := 0
	for steps := 0; steps < 1<<20; steps++ {
		n, e := f.Read(buf)
		total += int64(n)
		if e != nil {
			return "ended"
		}
		if n == 0 {
			zero++
			if zero > 8 {
				return "no progress"
			}
		}
		if total > limit {
			return "limit"
		}
	}
	return "too many steps"
}
