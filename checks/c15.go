package checks

import (
	iofs "io/fs"
	"encoding/binary"
	"encoding/json"
	"fmt"
	"hash/crc32"
	"runtime"
	"strings"
	"sync"

	"github.com/diskfs/go-diskfs/backend/file"
	"github.com/diskfs/go-diskfs/partition"
	"github.com/diskfs/go-diskfs/partition/gpt"
	"github.com/diskfs/go-diskfs/partition/mbr"

	"verif/internal/core"
	"verif/internal/gen"
	"verif/internal/monstore"
	"verif/internal/ptck"
)

type c15Edit struct {
	Where string `json:"where"` // primary | backup | entry | mbr | raw
	Field string `json:"field"`
	Off   int64  `json:"off"` // relative to the structure (raw: absolute)
	Width int    `json:"width"`
	Value uint64 `json:"value"`
	Entry int    `json:"entry,omitempty"`
}

type c15Mut struct {
	Base        string    `json:"base"`
	Edits       []c15Edit `json:"edits,omitempty"`
	FixCRC      int       `json:"fix_crc"` // 0 none, 1 header CRC, 2 array CRC (as the edited header describes it) + header CRC
	KillPrimary bool      `json:"kill_primary,omitempty"`
	Truncate    int64     `json:"truncate,omitempty"` // device length +1 (0 = full)
	Random      int64     `json:"random,omitempty"`
	RandomKind  int       `json:"random_kind,omitempty"`
}

type c15Base struct {
	name  string
	lss   int
	bytes []byte
	kind  string
}

var (
	c15BasesOnce sync.Once
	c15Bases     map[string]*c15Base
)

func c15GetBases() map[string]*c15Base {
	c15BasesOnce.Do(func() {
		c15Bases = map[string]*c15Base{}
		mk := func(name string, t *TableSpec) {
			st := monstore.NewMem(t.DevSize)
			if err, pi := writeTable(st, t); err != nil || pi != nil {
				panic(fmt.Sprintf("c15 base %s: %v %v", name, err, pi))
			}
			c15Bases[name] = &c15Base{name: name, lss: t.LSS, bytes: st.Bytes(), kind: t.Kind}
		}
		lt := string(gpt.LinuxFilesystem)
		mk("gpt512", &TableSpec{Kind: "gpt", LSS: 512, PSS: 512, DevSize: 1 << 20, PMBR: true, DiskGUID: "11111111-2222-3333-4444-555555555555", GPT: []GPTPartSpec{
			{Index: 1, Start: 40, End: 99, Type: lt, Name: "one", GUID: "AAAAAAAA-0000-0000-0000-000000000001"},
			{Index: 2, Start: 100, End: 1000, Type: string(gpt.EFISystemPartition), Name: "two-\U0001F600", GUID: "AAAAAAAA-0000-0000-0000-000000000002", Attrs: 1 << 63},
			{Index: 5, Start: 1100, End: 1900, Type: lt, Name: "abcdefghijklmnopqrstuvwxyz0123456789", GUID: "AAAAAAAA-0000-0000-0000-000000000005"}}})
		mk("gpt4096", &TableSpec{Kind: "gpt", LSS: 4096, PSS: 4096, DevSize: 2 << 20, PMBR: true, DiskGUID: "11111111-2222-3333-4444-555555555556", GPT: []GPTPartSpec{
			{Index: 1, Start: 8, End: 99, Type: lt, Name: "p1", GUID: "AAAAAAAA-0000-0000-0000-000000000011"},
			{Index: 128, Start: 100, End: 200, Type: lt, Name: "last", GUID: "AAAAAAAA-0000-0000-0000-000000000012"}}})
		full := &TableSpec{Kind: "gpt", LSS: 512, PSS: 512, DevSize: 1 << 20, PMBR: true, DiskGUID: "11111111-2222-3333-4444-555555555557"}
		for i := 0; i < 128; i++ {
			full.GPT = append(full.GPT, GPTPartSpec{Index: i + 1, Start: uint64(40 + i*8), End: uint64(40 + i*8 + 7), Type: lt, Name: fmt.Sprintf("p%d", i), GUID: fmt.Sprintf("AAAAAAAA-0000-0000-0001-%012d", i)})
		}
		mk("gpt128", full)
		mk("mbr", &TableSpec{Kind: "mbr", LSS: 512, PSS: 512, DevSize: 1 << 20, MBR: []MBRPartSpec{{Boot: true, Type: 0x83, Start: 8, Size: 100}, {Type: 0x0c, Start: 200, Size: 300}, {Type: 0x82, Start: 600, Size: 100}, {Type: 0xef, Start: 800, Size: 1000}}})
	})
	return c15Bases
}

type hdrField struct {
	name  string
	off   int64
	width int
}

var c15HdrFields = []hdrField{
	{"signature", 0, 8}, {"revision", 8, 4}, {"header_size", 12, 4}, {"header_crc", 16, 4}, {"reserved", 20, 4},
	{"my_lba", 24, 8}, {"alternate_lba", 32, 8}, {"first_usable", 40, 8}, {"last_usable", 48, 8},
	{"disk_guid_lo", 56, 8}, {"disk_guid_hi", 64, 8}, {"array_lba", 72, 8}, {"entry_count", 80, 4}, {"entry_size", 84, 4}, {"array_crc", 88, 4},
}
var c15EntryFields = []hdrField{
	{"type_lo", 0, 8}, {"type_hi", 8, 8}, {"guid_lo", 16, 8}, {"first_lba", 32, 8}, {"last_lba", 40, 8}, {"attrs", 48, 8},
	{"name0", 56, 2}, {"name17", 90, 2}, {"name34", 124, 2}, {"name35", 126, 2}, {"name_all", 56, 8},
}

func c15Values(f hdrField, old uint64, lss int, devSectors uint64) []uint64 {
	max := ^uint64(0)
	if f.width < 8 {
		max = (uint64(1) << (8 * uint(f.width))) - 1
	}
	vs := []uint64{0, 1, 2, max, max - 1, (old + 1) & max, (old - 1) & max, uint64(1) << (8*uint(f.width) - 1)}
	switch f.name {
	case "entry_count":
		// products with the entry size 128 around 2^31, 2^32, 2^63, and allocation sizes out of proportion to the device
		vs = append(vs, 127, 129, 256, 1<<14, 1<<20, 1<<24, 1<<24+1, 1<<25-1, 1<<25, 1<<25+1, 0x7FFFFFFF)
	case "entry_size":
		vs = append(vs, 64, 127, 129, 256, 512, 1<<20, 1<<24, 1<<25, 1<<31-1, 1<<31+128)
	case "array_lba", "my_lba", "alternate_lba", "first_usable", "last_usable", "first_lba", "last_lba":
		vs = append(vs, devSectors-1, devSectors, devSectors+1, devSectors-33, 1<<32, 1<<32-1, (1<<63)/uint64(lss), (1<<63)/uint64(lss)+1, max/uint64(lss), max/uint64(lss)+1, 1<<63-1)
	case "header_size":
		vs = append(vs, 91, 93, 512, 4096, 1<<20)
	case "name0", "name17", "name34", "name35":
		// UTF-16 code units that are only half of a character, and non-characters
		vs = append(vs, 0xD800, 0xDBFF, 0xDC00, 0xDFFF, 0xFFFE, 0xFEFF)
	}
	seen := map[uint64]bool{}
	var out []uint64
	for _, v := range vs {
		v &= max
		if v == old || seen[v] {
			continue
		}
		seen[v] = true
		out = append(out, v)
	}
	return out
}

func readLE(b []byte, w int) uint64 {
	var v uint64
	for i := 0; i < w; i++ {
		v |= uint64(b[i]) << (8 * uint(i))
	}
	return v
}
func putLE(b []byte, w int, v uint64) {
	for i := 0; i < w; i++ {
		b[i] = byte(v >> (8 * uint(i)))
	}
}

// c15Enumerate lists the mutations of a family; pure function of (family, tier, seed).
func c15Enumerate(family string, tier string, seed int64) []c15Mut {
	bases := c15GetBases()
	var out []c15Mut
	gptBases := []string{"gpt512", "gpt4096", "gpt128"}
	switch family {
	case "hdr1":
		for _, bn := range gptBases {
			b := bases[bn]
			sectors := uint64(len(b.bytes) / b.lss)
			for _, where := range []string{"primary", "backup"} {
				hoff := int64(b.lss)
				if where == "backup" {
					hoff = int64(len(b.bytes) - b.lss)
				}
				for _, f := range c15HdrFields {
					old := readLE(b.bytes[hoff+f.off:], f.width)
					for _, v := range c15Values(f, old, b.lss, sectors) {
						for crc := 0; crc <= 2; crc++ {
							m := c15Mut{Base: bn, FixCRC: crc, KillPrimary: where == "backup", Edits: []c15Edit{{Where: where, Field: f.name, Off: f.off, Width: f.width, Value: v}}}
							out = append(out, m)
						}
					}
				}
			}
		}
	case "entry1":
		for _, bn := range gptBases {
			b := bases[bn]
			sectors := uint64(len(b.bytes) / b.lss)
			idxs := []int{0, 1, 4, 127}
			for _, idx := range idxs {
				eoff := int64(2*b.lss) + int64(idx)*128
				for _, f := range c15EntryFields {
					old := readLE(b.bytes[eoff+f.off:], f.width)
					for _, v := range c15Values(f, old, b.lss, sectors) {
						for _, crc := range []int{0, 2} {
							for _, kill := range []bool{false, true} {
								out = append(out, c15Mut{Base: bn, FixCRC: crc, KillPrimary: kill, Edits: []c15Edit{{Where: "entry", Field: f.name, Off: f.off, Width: f.width, Value: v, Entry: idx}}})
							}
						}
					}
				}
			}
		}
	case "pairs":
		fs := []hdrField{c15HdrFields[11], c15HdrFields[12], c15HdrFields[13]}
		for _, bn := range []string{"gpt512", "gpt4096"} {
			b := bases[bn]
			sectors := uint64(len(b.bytes) / b.lss)
			for _, where := range []string{"primary", "backup"} {
				hoff := int64(b.lss)
				if where == "backup" {
					hoff = int64(len(b.bytes) - b.lss)
				}
				for i := 0; i < len(fs); i++ {
					for j := i + 1; j < len(fs); j++ {
						vi := c15Values(fs[i], readLE(b.bytes[hoff+fs[i].off:], fs[i].width), b.lss, sectors)
						vj := c15Values(fs[j], readLE(b.bytes[hoff+fs[j].off:], fs[j].width), b.lss, sectors)
						for _, a := range vi {
							for _, c := range vj {
								for _, crc := range []int{1, 2} {
									out = append(out, c15Mut{Base: bn, FixCRC: crc, KillPrimary: where == "backup", Edits: []c15Edit{
										{Where: where, Field: fs[i].name, Off: fs[i].off, Width: fs[i].width, Value: a},
										{Where: where, Field: fs[j].name, Off: fs[j].off, Width: fs[j].width, Value: c}}})
								}
							}
						}
					}
				}
			}
		}
		if tier != "thorough" {
			// quick: a seed-determined tenth of the pairs
			r := gen.New(seed)
			var sub []c15Mut
			for _, m := range out {
				if r.Intn(10) == 0 {
					sub = append(sub, m)
				}
			}
			out = sub
		}
	case "wrap":
		// cooperating values: the array's start, end or byte count wraps around 2^64 / 2^63 and
		// lands back inside the device, so that a check written with plain additions is fooled
		for _, bn := range []string{"gpt512", "gpt4096"} {
			b := bases[bn]
			l := uint64(b.lss)
			dev := uint64(len(b.bytes))
			for _, where := range []string{"primary", "backup"} {
				for _, cnt := range []uint64{128, 1 << 14, 1 << 20, 1 << 21, 1 << 24, 1<<31 - 1, 1<<32 - 1} {
					for _, esz := range []uint64{128} {
						total := cnt * esz
						var lbas []uint64
						for _, r := range []uint64{0, l, 2 * l, dev / 2, dev - l} {
							// LBA*l + total == r (mod 2^64)
							lbas = append(lbas, (r-total)/l, (r-total)/l+1)
							// LBA*l + total == r (mod 2^63): sign-bit wrap of an int64 sum
							lbas = append(lbas, ((uint64(1)<<63)+r-total)/l)
						}
						// the product LBA*l itself wraps to a small offset
						lbas = append(lbas, (^uint64(0))/l+1, (^uint64(0))/l+3, (uint64(1)<<63)/l, (uint64(1)<<63)/l+2)
						seen := map[uint64]bool{}
						for _, lba := range lbas {
							if seen[lba] {
								continue
							}
							seen[lba] = true
							for _, crc := range []int{1, 2} {
								out = append(out, c15Mut{Base: bn, FixCRC: crc, KillPrimary: where == "backup", Edits: []c15Edit{
									{Where: where, Field: "array_lba", Off: 72, Width: 8, Value: lba},
									{Where: where, Field: "entry_count", Off: 80, Width: 4, Value: cnt},
									{Where: where, Field: "entry_size", Off: 84, Width: 4, Value: esz}}})
							}
						}
					}
				}
			}
		}
	case "trunc":
		for _, bn := range []string{"gpt512", "gpt4096", "mbr"} {
			b := bases[bn]
			l := int64(b.lss)
			full := int64(len(b.bytes))
			arr := int64(128*128) / l
			lens := []int64{0, 1, 445, 446, 510, 511, 512, 513, 1023, 1024, 1025, l - 1, l, l + 1, 2*l - 1, 2 * l, 2*l + 1, 2*l + 128, (2+arr)*l - 1, (2 + arr) * l, (2+arr)*l + 1,
				full - (arr+1)*l - 1, full - (arr+1)*l, full - (arr+1)*l + 1, full - l - 1, full - l, full - l + 1, full - 1}
			for _, n := range lens {
				if n < 0 || n >= full {
					continue
				}
				out = append(out, c15Mut{Base: bn, Truncate: n + 1})
				out = append(out, c15Mut{Base: bn, Truncate: n + 1, KillPrimary: true})
			}
		}
	case "mbr1":
		b := bases["mbr"]
		for off := int64(440); off < 512; off++ {
			old := uint64(b.bytes[off])
			for _, v := range []uint64{0, 1, 0x7f, 0x80, 0x81, 0xfe, 0xff, 0x55, 0xaa, 0xee} {
				if v == old {
					continue
				}
				out = append(out, c15Mut{Base: "mbr", Edits: []c15Edit{{Where: "raw", Field: fmt.Sprintf("mbr_byte_%d", off), Off: off, Width: 1, Value: v}}})
			}
		}
		// protective-MBR bytes of a GPT disk too
		for off := int64(446); off < 512; off++ {
			for _, v := range []uint64{0, 0xff, 0x80, 0xee} {
				if uint64(bases["gpt512"].bytes[off]) == v {
					continue
				}
				out = append(out, c15Mut{Base: "gpt512", Edits: []c15Edit{{Where: "raw", Field: fmt.Sprintf("pmbr_byte_%d", off), Off: off, Width: 1, Value: v}}})
			}
		}
	case "random":
		n := 3000
		if tier == "thorough" {
			n = 50000
		}
		r := gen.New(seed ^ 0x5eed)
		for i := 0; i < n; i++ {
			out = append(out, c15Mut{Base: gen.Pick(r, []string{"gpt512", "gpt4096", "mbr"}), Random: r.Int63() | 1, RandomKind: i % 4})
		}
	}
	return out
}

func c15Apply(m c15Mut) (*monstore.Store, *c15Base) {
	b := c15GetBases()[m.Base]
	if m.Truncate > 0 {
		img := append([]byte(nil), b.bytes[:m.Truncate-1]...)
		if m.KillPrimary && len(img) >= b.lss+8 {
			copy(img[b.lss:], "XXXXXXXX")
		}
		return monstore.FromBytes(img), b
	}
	st := monstore.NewOverlay(b.bytes)
	full := int64(len(b.bytes))
	l := int64(b.lss)
	if m.Random != 0 {
		r := gen.New(m.Random)
		switch m.RandomKind {
		case 0: // random bytes over the whole table area
			buf := make([]byte, 34*l)
			r.Read(buf)
			st.Poke(buf, 0)
		case 1: // random header body with a correct signature + header CRC
			h := make([]byte, 92)
			r.Read(h)
			copy(h, "EFI PART")
			binary.LittleEndian.PutUint32(h[8:], 0x00010000)
			binary.LittleEndian.PutUint32(h[12:], 92)
			binary.LittleEndian.PutUint32(h[20:], 0)
			if r.Chance(0.5) {
				binary.LittleEndian.PutUint32(h[84:], 128)
			}
			if r.Chance(0.5) {
				binary.LittleEndian.PutUint64(h[72:], uint64(r.Intn(int(full/l)+4)))
			}
			if r.Chance(0.5) {
				binary.LittleEndian.PutUint32(h[80:], uint32(r.Intn(300)))
			}
			binary.LittleEndian.PutUint32(h[16:], 0)
			binary.LittleEndian.PutUint32(h[16:], crc32.ChecksumIEEE(h))
			st.Poke(h, l)
			if r.Chance(0.3) {
				st.Poke(h, full-l)
			}
		case 2: // random flips in the valid header/array
			for k := 0; k < 1+r.Intn(6); k++ {
				off := int64(r.Intn(int(34 * l)))
				if r.Chance(0.3) {
					off = full - 1 - int64(r.Intn(int(33*l)))
				}
				st.Poke([]byte{byte(r.Intn(256))}, off)
			}
		case 3: // random bytes everywhere in both table areas
			buf := make([]byte, 34*l)
			r.Read(buf)
			st.Poke(buf, 0)
			r.Read(buf[:33*l])
			st.Poke(buf[:33*l], full-33*l)
			if r.Chance(0.5) {
				st.Poke([]byte{0x55, 0xaa}, 510)
			}
		}
		return st, b
	}
	if m.KillPrimary && b.kind == "gpt" {
		st.Poke([]byte("XXXXXXXX"), l)
	}
	hdrOff := map[string]int64{"primary": l, "backup": full - l}
	touched := map[string]bool{}
	entryEdited := false
	for _, e := range m.Edits {
		buf := make([]byte, e.Width)
		putLE(buf, e.Width, e.Value)
		switch e.Where {
		case "primary", "backup":
			st.Poke(buf, hdrOff[e.Where]+e.Off)
			touched[e.Where] = true
		case "entry":
			// both arrays
			st.Poke(buf, 2*l+int64(e.Entry)*128+e.Off)
			barr := full - l - int64(128*128)
			st.Poke(buf, barr+int64(e.Entry)*128+e.Off)
			entryEdited = true
		case "raw", "mbr":
			st.Poke(buf, e.Off)
		}
	}
	if entryEdited {
		touched["primary"], touched["backup"] = true, true
	}
	if m.FixCRC > 0 {
		for w := range touched {
			ho := hdrOff[w]
			h := st.Peek(ho, 92)
			if m.FixCRC == 2 {
				alba := binary.LittleEndian.Uint64(h[72:])
				cnt := uint64(binary.LittleEndian.Uint32(h[80:]))
				esz := uint64(binary.LittleEndian.Uint32(h[84:]))
				tot := cnt * esz
				if alba < uint64(full/l) && tot <= 16<<20 && int64(alba)*l+int64(tot) <= full {
					arr := st.Peek(int64(alba)*l, int(tot))
					binary.LittleEndian.PutUint32(h[88:], crc32.ChecksumIEEE(arr))
				}
			}
			binary.LittleEndian.PutUint32(h[16:], 0)
			binary.LittleEndian.PutUint32(h[16:], crc32.ChecksumIEEE(h))
			if m.KillPrimary && w == "primary" {
				continue
			}
			st.Poke(h, ho)
		}
	}
	return st, b
}

func (m c15Mut) fields() string {
	if m.Truncate > 0 {
		return "truncated-device"
	}
	if m.Random != 0 {
		return fmt.Sprintf("random-image-kind%d", m.RandomKind)
	}
	var fs []string
	for _, e := range m.Edits {
		f := e.Field
		if strings.HasPrefix(f, "mbr_byte_") || strings.HasPrefix(f, "pmbr_byte_") {
			f = f[:strings.LastIndex(f, "_")]
		}
		fs = append(fs, f)
	}
	return strings.Join(fs, "+")
}

// noSeekFile is a device that can be read at any offset but cannot report its size.
type noSeekFile struct{ st *monstore.Store }

func (n noSeekFile) Stat() (iofs.FileInfo, error)            { return nil, fmt.Errorf("no stat") }
func (n noSeekFile) Read(p []byte) (int, error)              { return 0, fmt.Errorf("sequential read not supported") }
func (n noSeekFile) Close() error                            { return nil }
func (n noSeekFile) ReadAt(p []byte, off int64) (int, error) { return n.st.ReadAt(p, off) }

// c15Eval runs the three readers on one mutated device and applies the oracle.
func c15Eval(res *core.Result, m c15Mut, env *core.Env) {
	st, b := c15Apply(m)
	dev := st.Size()
	allocBound := uint64(4*dev + 1<<20)
	readBound := 8*dev + 64<<10
	if env != nil {
		js, _ := json.Marshal(m)
		env.Note(string(js))
	}
	replay := core.MkCase("mut-"+core.Hash(m), "mutation", 0, c15Params{Only: &m})
	fail := func(rule, f string, a ...any) {
		res.FailReplay(fmt.Sprintf("C15/%s/%s/%s", b.kind, rule, m.fields()), fmt.Sprintf(f, a...), m, replay)
	}
	outcome := ""
	type call struct {
		name string
		f    func() (partition.Table, error)
	}
	calls := []call{
		{"gpt.Read", func() (partition.Table, error) {
			t, err := gpt.Read(file.New(st, true), b.lss, b.lss)
			if err != nil {
				return nil, err
			}
			return t, nil
		}},
		{"mbr.Read", func() (partition.Table, error) {
			t, err := mbr.Read(file.New(st, true), b.lss, b.lss)
			if err != nil {
				return nil, err
			}
			return t, nil
		}},
		{"partition.Read", func() (partition.Table, error) { return partition.Read(file.New(st, true), b.lss, b.lss) }},
		// the same device behind a backend that cannot tell its size (an fs.File with ReadAt but without Seek,
		// as file.New accepts it): the reader has no device size to hold the header's numbers against
		{"gpt.Read (device of unknown size)", func() (partition.Table, error) {
			t, err := gpt.Read(file.New(noSeekFile{st}, true), b.lss, b.lss)
			if err != nil {
				return nil, err
			}
			return t, nil
		}},
		{"partition.Read (device of unknown size)", func() (partition.Table, error) {
			return partition.Read(file.New(noSeekFile{st}, true), b.lss, b.lss)
		}},
	}
	var ms0, ms1 runtime.MemStats
	for _, c := range calls {
		st.ResetCounters()
		runtime.ReadMemStats(&ms0)
		var tb partition.Table
		var err error
		pi := core.Guard(func() { tb, err = c.f() })
		runtime.ReadMemStats(&ms1)
		res.Count("calls."+c.name, 1)
		if pi != nil {
			fail("panic:"+pi.Top+":"+pi.Class, "%s panicked: %s", c.name, pi.Msg)
			continue
		}
		bound := allocBound
		if strings.Contains(c.name, "unknown size") {
			bound += 16 << 20 // the ceiling the library documents for the entry array when it cannot learn the device size
		}
		if d := ms1.TotalAlloc - ms0.TotalAlloc; d > bound {
			fail("allocation-out-of-proportion", "%s allocated %d bytes reading a %d-byte device (bound %d)", c.name, d, dev, allocBound)
		}
		if rb := st.ReadBytes.Load(); rb > readBound {
			fail("reads-out-of-proportion", "%s read %d bytes from a %d-byte device", c.name, rb, dev)
		}
		if err != nil {
			res.Count("outcome.error."+c.name, 1)
			if c.name == "gpt.Read" {
				outcome = "error"
				if !strings.Contains(err.Error(), "Signature") {
					outcome = "error-after-signature"
				}
			}
			continue
		}
		res.Count("outcome.table."+c.name, 1)
		// a table came back: it must be backed by CRC-valid data
		switch t := tb.(type) {
		case *gpt.Table:
			if c.name == "gpt.Read" {
				outcome = "table"
				if t.RecoveredFromBackup {
					outcome = "table-from-backup"
				}
			}
			g := ptck.ReadGPT(func(off int64, n int) []byte { return st.Peek(off, n) }, dev, b.lss)
			cp := g.Primary
			which := "primary"
			if t.RecoveredFromBackup {
				cp, which = g.Backup, "backup"
			}
			if cp == nil || !cp.Valid() {
				why := "missing"
				if cp != nil {
					why = fmt.Sprintf("headerErr=%q sig=%q headerCRCok=%v arrayCRCok=%v", cp.HeaderErr, cp.Header.Signature, cp.Header.CRCOK(), cp.ArrayCRCOK)
				}
				fail("table-from-invalid-copy", "%s returned a table (from the %s copy) although the independent parser finds that copy invalid: %s", c.name, which, why)
				continue
			}
			if len(t.Partitions) != len(cp.Entries) {
				fail("table-differs-from-valid-data", "%s lists %d partitions, the CRC-valid %s copy holds %d", c.name, len(t.Partitions), which, len(cp.Entries))
				continue
			}
			for i, e := range cp.Entries {
				p := t.Partitions[i]
				if p.Index != e.Index || p.Start != e.First || p.End != e.Last || p.Attributes != e.Attrs || !strings.EqualFold(string(p.Type), e.TypeGUID) || !strings.EqualFold(p.GUID, e.GUID) || p.Name != e.Name {
					fail("table-differs-from-valid-data", "%s partition %d = %+v, CRC-valid data decodes to %+v", c.name, i, *p, e)
					break
				}
			}
		case *mbr.Table:
			mb, _ := ptck.ParseMBR(st.Peek(0, 512))
			if !mb.SigOK {
				fail("mbr-without-signature", "%s returned an MBR table although the 0x55AA signature is absent", c.name)
			}
			if c.name == "mbr.Read" && b.kind == "mbr" {
				outcome = "table"
			}
			for i, p := range t.Partitions {
				if i < 4 && (p.Start != mb.Slots[i].Start || p.Size != mb.Slots[i].Sectors || byte(p.Type) != mb.Slots[i].Type) {
					fail("table-differs-from-disk", "%s slot %d = %+v, on disk %+v", c.name, i+1, *p, mb.Slots[i])
				}
			}
		}
	}
	if outcome != "" && outcome != "error" {
		res.Sig(m)
	}
	res.Count("outcome.gpt."+outcome, 1)
}

type c15Params struct {
	Family string  `json:"family,omitempty"`
	From   int     `json:"from,omitempty"`
	To     int     `json:"to,omitempty"`
	Only   *c15Mut `json:"only,omitempty"`
}

func init() {
	families := []string{"hdr1", "entry1", "pairs", "wrap", "trunc", "mbr1", "random"}
	core.Register(&core.Check{
		ID:    "C15",
		Level: "fault_enumeration",
		Rule: "valid GPT (512/4096-byte sectors, 3/2/128 entries) and MBR base devices written by the library, then: every header field x boundary values {0,1,2,max,max-1,sign bit,old+-1, size*count overflow products, LBAs around the device end and around 2^63/sector} x {primary, backup with primary destroyed} x {CRC left stale, header CRC recomputed, array+header CRC recomputed}; entry fields likewise; all pairs of the size-determining fields (entry count, entry size, array LBA); cooperating triples whose start, end or byte count wraps around 2^64/2^63 back into the device; truncated devices at every structure boundary +-1; every MBR entry/signature byte x 10 values; seeded random images. Each mutated device is read by gpt.Read, mbr.Read and partition.Read, and by gpt.Read and partition.Read once more through a backend that cannot report its size (no Seek), in a worker child. Non-trivial = gpt.Read got past the signature check (returned a table, used the backup, or failed later); distinct = distinct mutation",
		Assumptions: []string{"allocation is measured as the runtime.MemStats.TotalAlloc delta around each call; bound 4*deviceSize+1MiB", "read volume bound 8*deviceSize+64KiB", "fatal runtime errors (out of memory) are observed as the death of the worker child, attributed through the case journal", "worker address space capped at 24 GiB (RLIMIT_AS)"},
		MinSigs:   map[string]int{"quick": 1500, "thorough": 5000},
		CPUSec:    120,
		DeathKey: func(c core.Case, class, stderr, note string) string {
			var m c15Mut
			kind := "gpt"
			f := "unknown"
			if json.Unmarshal([]byte(note), &m) == nil && m.Base != "" {
				f = m.fields()
				if m.Base == "mbr" {
					kind = "mbr"
				}
			}
			return fmt.Sprintf("C15/%s/%s/%s", kind, class, f)
		},
		Cases: func(seed int64, tier string) []core.Case {
			var cs []core.Case
			for _, fam := range families {
				n := len(c15Enumerate(fam, tier, seed))
				step := 250
				for from := 0; from < n; from += step {
					to := from + step
					if to > n {
						to = n
					}
					cs = append(cs, core.MkCase(fmt.Sprintf("%s-%d", fam, from), "enumerate-"+fam, seed, c15Params{Family: fam, From: from, To: to}))
				}
			}
			return cs
		},
		Run: func(c core.Case, env *core.Env) core.Result {
			var p c15Params
			c.Decode(&p)
			var res core.Result
			if p.Only != nil {
				c15Eval(&res, *p.Only, env)
				res.Evals = 1
				return res
			}
			ms := c15Enumerate(p.Family, env.Tier, c.Seed)
			if p.To > len(ms) {
				p.To = len(ms)
			}
			for _, m := range ms[p.From:p.To] {
				c15Eval(&res, m, env)
			}
			res.Evals = int64(p.To - p.From)
			res.Mark("family " + p.Family)
			if p.To > p.From {
				res.Sample = ms[p.From]
			}
			return res
		},
		NeedMarks: []string{"family hdr1", "family entry1", "family pairs", "family wrap", "family trunc", "family mbr1", "family random"},
	})
}
