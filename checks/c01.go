package checks

import (
	"fmt"

	"verif/internal/core"
	"verif/internal/fsdrive"
	"verif/internal/gen"
)

var fatVolMatrix = map[string][]int64{
	"fat12": {1474560, 4 << 20, 7<<20 + 512*3},
	"fat16": {16 << 20, 33 << 20, 129 << 20},
	"fat32": {33 << 20, 64<<20 + 512, 261 << 20},
}
var fatStarts = []int64{0, 512, 1 << 20, 4<<30 + 512}

// avoidance switches tied to open findings (DESIGN §3.7); each is listed in the evidence
var c01Avoid = []string{}

func fatRandomCases(prop string, seed int64, n, steps int, handles bool, avoid []string) []core.Case {
	r := gen.New(seed)
	var cs []core.Case
	types := []string{"fat12", "fat16", "fat32"}
	for i := 0; i < n; i++ {
		t := types[i%3]
		sizes := fatVolMatrix[t]
		v := FatVol{Type: t, Size: sizes[(i/3)%len(sizes)], Start: fatStarts[(i/9+i)%len(fatStarts)], Sector: 512, Label: "VERIF"}
		fc := fatCase{Vol: v, Steps: steps/2 + r.Intn(steps), Mode: "random", Handles: handles && i%2 == 0, Reopen: 7, Avoid: avoid, Used: i%4 == 1}
		if i%3 == 2 {
			fc.Resess = 13 // the history goes on in a new session on the re-opened image every 13 calls
		}
		cs = append(cs, core.MkCase(fmt.Sprintf("random-%s-%d", t, i), "history-"+t, r.Int63(), fc))
	}
	return cs
}

func c01ExhaustiveAlphabet(cs int) []fsdrive.Op {
	return []fsdrive.Op{
		{Kind: "mkdir", Path: "d1"},
		{Kind: "create", Path: "d1/ab.txt"},
		{Kind: "write", Path: "longfilename1.txt", Len: cs + 1, DSeed: 11},
		{Kind: "write", Path: "ab.txt", Len: 10, DSeed: 12},
		{Kind: "append", Path: "ab.txt", Len: 600, DSeed: 13},
		{Kind: "trunc", Path: "ab.txt", Len: 3, DSeed: 14},
		{Kind: "rename", Path: "ab.txt", Path2: "longfilename2.txt"},
		{Kind: "remove", Path: "ab.txt"},
		{Kind: "write", Path: "d1/ab.txt", Off: int64(2 * cs), Len: 5, DSeed: 15},
		{Kind: "remove", Path: "d1"},
		{Kind: "write", Path: "AB.TXT", Off: 1, Len: 2, DSeed: 16},
		{Kind: "rename", Path: "longfilename1.txt", Path2: "ab.txt"},
	}
}

func c01Run(c core.Case, env *core.Env) core.Result {
	var fc fatCase
	c.Decode(&fc)
	if fc.Mode != "exhaustive" {
		return runFatCase("C01", c, env)
	}
	// bounded-exhaustive: every history of length <= Depth over the alphabet, histories From..To
	var agg core.Result
	alpha := c01ExhaustiveAlphabet(512)
	if fc.Vol.Type == "fat16" {
		alpha = c01ExhaustiveAlphabet(2048)
	}
	total := 0
	pow := 1
	for l := 1; l <= fc.Depth; l++ {
		pow *= len(alpha)
		total += pow
	}
	idx := 0
	for l := 1; l <= fc.Depth; l++ {
		n := 1
		for i := 0; i < l; i++ {
			n *= len(alpha)
		}
		for h := 0; h < n; h++ {
			if idx >= fc.From && idx < fc.To {
				ops := make([]fsdrive.Op, l)
				x := h
				for i := 0; i < l; i++ {
					ops[i] = alpha[x%len(alpha)]
					x /= len(alpha)
				}
				sub := fc
				sub.Mode = "replay"
				sub.Ops = ops
				r := runFatCase("C01", core.MkCase(c.ID, c.Kind, c.Seed, sub), env)
				agg.Evals++
				for k, v := range r.Counters {
					agg.Count(k, v)
				}
				agg.Sigs = append(agg.Sigs, r.Sigs...)
				for _, m := range r.Marks {
					agg.Mark(m)
				}
				for _, f := range r.Findings {
					if len(agg.Findings) < 20 {
						agg.Findings = append(agg.Findings, f)
					}
				}
				if agg.Sample == nil {
					agg.Sample = r.Sample
				}
			}
			idx++
		}
	}
	agg.Mark("bounded-exhaustive histories")
	return agg
}

func c01Cases(seed int64, tier string) []core.Case {
	var cs []core.Case
	n, steps, depth := 60, 80, 3
	if tier == "thorough" {
		n, steps, depth = 1500, 250, 4
	}
	cs = append(cs, fatRandomCases("C01", seed, n, steps, true, c01Avoid)...)
	// fill / release / refill cycles and root-directory exhaustion
	refills := []FatVol{{Type: "fat12", Size: 1474560}, {Type: "fat16", Size: 16 << 20, Start: 1 << 20}, {Type: "fat32", Size: 4 << 20, Start: 512}}
	cyc := 3
	if tier == "thorough" {
		cyc = 6
		refills = append(refills, FatVol{Type: "fat12", Size: 4 << 20, Start: 4<<30 + 512}, FatVol{Type: "fat32", Size: 33 << 20})
	}
	for i, v := range refills {
		v.Sector = 512
		for k := 0; k < 2; k++ {
			cs = append(cs, core.MkCase(fmt.Sprintf("refill-%s-%d-%d", v.Type, i, k), "refill-"+v.Type, seed*31+int64(i*2+k), fatCase{Vol: v, Mode: "refill", Steps: cyc}))
		}
	}
	for i, v := range []FatVol{{Type: "fat12", Size: 1474560, Sector: 512}, {Type: "fat16", Size: 16 << 20, Sector: 512}} {
		cs = append(cs, core.MkCase(fmt.Sprintf("rootfill-%s", v.Type), "rootfill-"+v.Type, seed+int64(i), fatCase{Vol: v, Mode: "rootfill"}))
	}
	for i, v := range refills {
		v.Sector = 512
		cs = append(cs, core.MkCase(fmt.Sprintf("regrow-%s-%d", v.Type, i), "regrow-"+v.Type, seed+int64(i), fatCase{Vol: v, Mode: "regrow"}))
	}
	// clusters on both sides of the 4 GiB offset inside a FAT32 volume (see fatCase.HighClusters)
	cs = append(cs, core.MkCase("high-clusters-fat32", "history-fat32", seed+77, fatCase{Vol: FatVol{Type: "fat32", Size: 6 << 30, Sector: 512}, Steps: 50, Mode: "random", Reopen: 25, HighClusters: 4 << 30}))
	// bounded-exhaustive short histories
	types := []string{"fat12"}
	if tier == "thorough" {
		types = []string{"fat12", "fat16", "fat32"}
	}
	for _, t := range types {
		v := FatVol{Type: t, Size: fatVolMatrix[t][0], Sector: 512}
		total, pow := 0, 1
		for l := 1; l <= depth; l++ {
			pow *= 12
			total += pow
		}
		chunk := 120
		for from := 0; from < total; from += chunk {
			to := from + chunk
			if to > total {
				to = total
			}
			cs = append(cs, core.MkCase(fmt.Sprintf("exhaustive-%s-%d", t, from), "exhaustive-"+t, seed, fatCase{Vol: v, Mode: "exhaustive", Depth: depth, From: from, To: to, Reopen: 1}))
		}
	}
	return cs
}

func init() {
	core.Register(&core.Check{
		ID:    "C01",
		Level: "exploration",
		Rule: "operation histories on FAT12/16/32 volumes (sizes 1.44 MB..261 MiB, start offsets 0/512/1 MiB/4 GiB+512 on a sparse PRF-filled device) executed through the real API and, outcome-driven, on an in-memory reference tree: seeded random histories (mkdir, create, write at offsets inside/at/past EOF, append, truncating open, rename incl. rename-over, remove, up to 3 open handles, case-varied lookups, long/short/non-ASCII names, invalid calls), fill-to-ENOSPC/release/refill cycles (release by remove, truncate), root-directory exhaustion, a history on a 6 GiB FAT32 volume whose clusters below the 4 GiB offset were marked bad beforehand, a regrow workload (a file and a late directory with all clusters behind them in use are grown after a large file in front of them was removed), and all histories of length <= 3 (thorough: 4) over a 12-call alphabet; every refusal for lack of space is checked against the FAT read raw (enough free clusters for what was refused = violation); after every call all listings and contents are compared live, through open handles, and periodically through a fresh fatNN.Read of the image; a history is non-trivial when at least one mutating call was accepted; distinct = distinct (volume, executed history); every third random history and every other refill cycle go on in a new session (all handles closed, the image opened again read-write from its bytes), so that what one session released must be usable by the next",
		Assumptions: []string{"names are drawn from the legal-name domain of the property (no '~', no leading/trailing space or dot, no two names differing only in case)", "paths are passed in io/fs form (no leading slash)", "avoidance switches in force (tied to open findings): see coverage.avoidance"},
		MinSigs:   map[string]int{"quick": 300, "thorough": 5000},
		NeedMarks: []string{"history continued in a new session on the re-opened image", "range formatted a second time over a populated volume", "fat12", "fat16", "fat32", "ENOSPC reached", "file and directory grown into space released in front of them", "volume beyond 4 GiB", "bounded-exhaustive histories"},
		CPUSec:    600,
		Cases:     c01Cases,
		Run:       c01Run,
		Post: func(a *core.Aggregate, cases []core.Case) {
			a.Extra["avoidance"] = c01Avoid
		},
	})
}
