package checks

import (
	"bytes"
	"fmt"
	"io"
	iofs "io/fs"
	"os"

	"github.com/diskfs/go-diskfs/backend/file"
	"github.com/diskfs/go-diskfs/filesystem"
	"github.com/diskfs/go-diskfs/filesystem/ext4"
	"github.com/diskfs/go-diskfs/filesystem/iso9660"
	"github.com/diskfs/go-diskfs/filesystem/squashfs"

	"verif/internal/core"
	"verif/internal/gen"
	"verif/internal/monstore"
)

type c10Case struct {
	FS     string `json:"fs"` // fat12 fat16 fat32 ext4 iso iso-rr iso-joliet squashfs squashfs-nofrag
	Seqs   int    `json:"seqs"`
	Calls  int    `json:"calls"`
	Route  string `json:"route"` // openfile | open | rdwr
	Only   *c10Seq `json:"only,omitempty"`
}

type c10Call struct {
	Op     string `json:"op"` // read seek close
	Len    int    `json:"len,omitempty"`
	Off    int64  `json:"off,omitempty"`
	Whence int    `json:"whence,omitempty"`
}

type c10Seq struct {
	File  string    `json:"file"`
	Size  int       `json:"size"`
	Grow  int       `json:"grow,omitempty"` // rdwr route: bytes appended (in two writes) before the sequence
	Calls []c10Call `json:"calls"`
}

type c10Image struct {
	sparsePatched int
	fs    filesystem.FileSystem
	files map[string][]byte
	unit  int
	names []string
}

func (img *c10Image) poison(name string) {
	var out []string
	for _, n := range img.names {
		if n != name {
			out = append(out, n)
		}
	}
	img.names = out
	delete(img.files, name)
}

// c10Build makes a filesystem of the requested kind holding files whose sizes sit around the unit
// boundaries, and returns a freshly opened (read) filesystem over the image bytes.
func c10Build(kind string, seed int64) (*c10Image, error) {
	r := gen.New(seed)
	img := &c10Image{files: map[string][]byte{}}
	mkTree := func(unit int, names func(i int) string) Tree {
		var t Tree
		sizes := []int{0, 1, unit - 1, unit, unit + 1, 2 * unit, 2*unit + 7, 3*unit - 1, 5*unit + unit/2, 1000, 16*unit + 3}
		for i, sz := range sizes {
			if sz < 0 {
				sz = 0
			}
			t = append(t, TNode{Path: names(i), Size: sz, Seed: r.Uint64(), Kind: []string{"prf", "prf", "sparse"}[i%3]})
		}
		return t
	}
	upper := func(i int) string { return fmt.Sprintf("F%d.DAT", i) }
	reg := func(t Tree) {
		for _, n := range t {
			if !n.Dir && n.Link == "" {
				img.files[n.Path] = n.Content()
				img.names = append(img.names, n.Path)
			}
		}
	}
	switch kind {
	case "fat12", "fat16", "fat32":
		v := FatVol{Type: kind, Size: map[string]int64{"fat12": 1474560, "fat16": 16 << 20, "fat32": 33 << 20}[kind], Start: 1 << 20, Sector: 512}
		st := monstore.NewMem(v.DevSize())
		fs, err := fatCreate(st, v)
		if err != nil {
			return nil, err
		}
		img.unit = fatClusterSize(fs)
		t := mkTree(img.unit, upper)
		if err := populate(fs, t); err != nil {
			return nil, err
		}
		reg(t)
		fs2, err := fatRead(st, v, false)
		if err != nil {
			return nil, err
		}
		img.fs = fs2
	case "ext4":
		st := monstore.NewMem(64 << 20)
		fs, err := ext4.Create(file.New(st, false), 32<<20, 1<<20, 512, &ext4.Params{})
		if err != nil {
			return nil, err
		}
		img.unit = 1024
		t := mkTree(img.unit, upper)
		if err := populate(fs, t); err != nil {
			return nil, err
		}
		reg(t)
		fs2, err := ext4.Read(file.New(st, false), 32<<20, 1<<20, 512)
		if err != nil {
			return nil, err
		}
		img.fs = fs2
	case "ext4-long":
		// one file of 130 MiB written front to back on a 256 MiB volume with 1 KiB blocks: block groups
		// 10..24 hold no backup superblock, so the file's extents there have the greatest length an
		// initialised extent can have (32768 blocks)
		st := monstore.NewMem(256 << 20)
		fs, err := ext4.Create(file.New(st, false), 256<<20, 0, 512, &ext4.Params{})
		if err != nil {
			return nil, err
		}
		img.unit = 1024
		t := Tree{TNode{Path: "LONG.DAT", Size: 130<<20 + 333, Seed: r.Uint64(), Kind: "prf"}}
		// written in 4 MiB pieces (a single call asking for more than 65535 blocks is refused by the library)
		lf, err := fs.OpenFile("LONG.DAT", os.O_CREATE|os.O_RDWR)
		if err != nil {
			return nil, err
		}
		content := t[0].Content()
		for off := 0; off < len(content); off += 4 << 20 {
			if _, err := lf.Write(content[off:min(off+4<<20, len(content))]); err != nil {
				lf.Close()
				return nil, fmt.Errorf("write LONG.DAT at %d: %w", off, err)
			}
		}
		if err := lf.Close(); err != nil {
			return nil, err
		}
		reg(t)
		fs2, err := ext4.Read(file.New(st, true), 256<<20, 0, 512)
		if err != nil {
			return nil, err
		}
		img.fs = fs2
	case "iso", "iso-rr", "iso-joliet":
		st := monstore.NewMem(32 << 20)
		img.unit = 2048
		t := mkTree(img.unit, upper)
		o := ISOOpts{RockRidge: kind == "iso-rr", Joliet: kind == "iso-joliet", VolID: "C10"}
		if err := buildISO(st, 32<<20, 0, o, t); err != nil {
			return nil, err
		}
		reg(t)
		fs2, err := iso9660.Read(file.New(st, true), 32<<20, 0, 2048)
		if err != nil {
			return nil, err
		}
		img.fs = fs2
	case "squashfs", "squashfs-nofrag", "squashfs-gzip", "squashfs-sparse":
		st := monstore.NewMem(32 << 20)
		img.unit = 4096
		t := mkTree(img.unit, upper)
		o := SqOpts{Comp: "none", NoFragments: kind == "squashfs-nofrag" || kind == "squashfs-sparse", Block: 4096}
		if kind == "squashfs-gzip" {
			o.Comp = "gzip"
		}
		if err := buildSquash(st, 32<<20, 0, o, t); err != nil {
			return nil, err
		}
		reg(t)
		if kind == "squashfs-sparse" {
			// the library's writer never produces sparse blocks (block-list entry 0 = a block of zeros that
			// occupies no space), other writers do: turn the second entry of every file with three or more stored
			// full blocks into one. The data of the following entries is then read one block earlier, so the
			// expected content is: block 0, zeros, block 1, block 2, ... (same size).
			raw := st.Bytes()
			le32 := func(o int) uint32 {
				return uint32(raw[o]) | uint32(raw[o+1])<<8 | uint32(raw[o+2])<<16 | uint32(raw[o+3])<<24
			}
			inodeStart, dirStart := int(le32(64)), int(le32(72))
			const stored = uint32(4096 | 1<<24)
			patched := 0
			for o := inodeStart + 2 + 48; o+12 <= dirStart && o+12 <= len(raw); o += 2 {
				if le32(o) != stored || le32(o+4) != stored || le32(o+8) != stored || le32(o-4) == stored {
					continue
				}
				// extended file inode: ... start u64, size u64, sparse u64, links, fragment index, fragment offset, xattr index, block list
				if le32(o-28) != 0 {
					continue
				}
				fsize := int(le32(o - 32))
				full := fsize / 4096
				run := 0
				for run < full && o+4*run+4 <= len(raw) && le32(o+4*run) == stored {
					run++
				}
				if full < 3 || run != full {
					continue
				}
				for name, data := range img.files {
					if len(data) != fsize {
						continue
					}
					st.Poke([]byte{0, 0, 0, 0}, int64(o+4))
					nd := make([]byte, len(data))
					copy(nd, data[:4096])
					copy(nd[2*4096:full*4096], data[4096:(full-1)*4096])
					copy(nd[full*4096:], data[full*4096:]) // the tail lives in a fragment block and is not affected
					img.files[name] = nd
					patched++
				}
			}
			if patched == 0 {
				return nil, fmt.Errorf("squashfs-sparse: no block list of three stored blocks found to patch")
			}
			img.sparsePatched = patched
		}
		fs2, err := squashfs.Read(file.New(st, true), 32<<20, 0, 4096)
		if err != nil {
			return nil, err
		}
		img.fs = fs2
	default:
		return nil, fmt.Errorf("unknown fs kind %s", kind)
	}
	return img, nil
}

func c10GenSeq(r gen.R, name string, size, unit, calls int) c10Seq {
	s := c10Seq{File: name, Size: size}
	lens := []int{0, 1, 7, unit - 1, unit, unit + 1, 3*unit + 5, 1 << 20}
	for i := 0; i < calls; i++ {
		if r.Chance(0.6) {
			s.Calls = append(s.Calls, c10Call{Op: "read", Len: gen.Pick(r, lens)})
			continue
		}
		wh := r.Intn(3)
		var off int64
		switch r.Intn(7) {
		case 0:
			off = 0
		case 1:
			off = int64(r.Intn(size + 1))
		case 2:
			off = -int64(r.Intn(size + 2))
		case 3:
			off = int64(size) + int64(r.Intn(3*unit))
		case 4:
			off = int64((r.Intn(4)) * unit)
		case 5:
			off = -int64(r.Intn(3*unit) + 1)
		case 6:
			off = int64(r.Intn(unit)) + 1
		}
		s.Calls = append(s.Calls, c10Call{Op: "seek", Off: off, Whence: wh})
	}
	s.Calls = append(s.Calls, c10Call{Op: "close"}, c10Call{Op: "read", Len: 10}, c10Call{Op: "seek", Off: 0, Whence: 0}, c10Call{Op: "read", Len: 1})
	return s
}

func whenceName(w int) string { return []string{"SeekStart", "SeekCurrent", "SeekEnd"}[w] }

// c10RunSeq applies one call sequence to a fresh handle and checks it against the shadow cursor.
func c10RunSeq(res *core.Result, kind, route string, img *c10Image, s c10Seq) {
	data := img.files[s.File]
	unit := img.unit
	replay := core.MkCase("seq-"+core.Hash(kind, route, s), "handle-"+kind, 0, c10Case{FS: kind, Route: route, Only: &s})
	prefix := s
	fail := func(rule, cause, f string, a ...any) {
		res.FailReplay(fmt.Sprintf("C10/%s/%s/%s", kind, rule, cause), fmt.Sprintf(f, a...), map[string]any{"route": route, "seq": prefix}, replay)
	}
	var h any
	var err error
	var rd io.Reader
	var sk io.Seeker
	var cl io.Closer
	pi := core.Guard(func() {
		switch route {
		case "open":
			var f iofs.File
			f, err = img.fs.Open(s.File)
			h = f
		case "rdwr":
			var f filesystem.File
			f, err = img.fs.OpenFile(s.File, os.O_RDWR)
			h = f
		default:
			var f filesystem.File
			f, err = img.fs.OpenFile(s.File, os.O_RDONLY)
			h = f
		}
	})
	if pi != nil {
		fail("open-panic", pi.Top+":"+pi.Class, "opening %s (%s) panicked: %s", s.File, route, pi.Msg)
		return
	}
	if err != nil {
		if route == "rdwr" {
			res.Count("open.rdwr_refused", 1)
			return
		}
		fail("open-error", route, "opening %s via %s failed: %v", s.File, route, err)
		return
	}
	rd, _ = h.(io.Reader)
	sk, _ = h.(io.Seeker)
	cl, _ = h.(io.Closer)
	pos := int64(0)
	if route == "rdwr" && s.Grow > 0 {
		// an O_RDWR handle after writes: extend the file in two steps through this handle first
		w, _ := h.(io.Writer)
		add := gen.PRFBytes(uint64(s.Grow)*977+uint64(len(data)), s.Grow)
		var werr error
		if pi := core.Guard(func() {
			if _, werr = sk.Seek(0, io.SeekEnd); werr != nil {
				return
			}
			k := len(add) / 3
			if _, werr = w.Write(add[:k]); werr != nil {
				return
			}
			_, werr = w.Write(add[k:])
			if werr == nil {
				_, werr = sk.Seek(0, io.SeekStart)
			}
		}); pi != nil {
			// writing is C01/C04's business; here the file's content is no longer known
			res.Count("rdwr.extend_panicked_decided_by_C04", 1)
			img.poison(s.File)
			return
		}
		if werr != nil {
			res.Count("rdwr.extend_refused", 1)
			img.poison(s.File)
			return
		}
		data = append(append([]byte(nil), data...), add...)
		img.files[s.File] = data
		res.Mark("O_RDWR handle read after writes")
	}
	size := int64(len(data))
	closed := false
	posClass := func(p int64) string {
		switch {
		case p >= size:
			return "at-or-past-end"
		case unit > 0 && p%int64(unit) != 0:
			c := "mid-unit"
			if size-p <= int64(unit) {
				c += "-in-last-unit"
			}
			return c
		}
		return "unit-aligned"
	}
	for i, c := range s.Calls {
		prefix = c10Seq{File: s.File, Size: s.Size, Calls: s.Calls[:i+1]}
		switch c.Op {
		case "read":
			if rd == nil {
				continue
			}
			buf := make([]byte, c.Len)
			for k := range buf {
				buf[k] = 0xEE
			}
			var n int
			var e error
			if pi := core.Guard(func() { n, e = rd.Read(buf) }); pi != nil {
				rule := "read-panic"
				if closed {
					rule = "read-after-close-panic"
				}
				fail(rule, pi.Top+":"+pi.Class, "Read(%d) at position %d of %s (size %d) panicked: %s", c.Len, pos, s.File, size, pi.Msg)
				return
			}
			res.Count("calls.read", 1)
			if closed {
				if e == nil || n != 0 {
					fail("read-after-close", "returned-data-or-no-error", "Read after Close returned n=%d err=%v", n, e)
					return
				}
				res.Count("calls.read_after_close", 1)
				continue
			}
			remaining := size - pos
			if remaining < 0 {
				remaining = 0
			}
			if n < 0 || n > c.Len {
				fail("read-count", "outside-buffer", "Read(%d) returned n=%d", c.Len, n)
				return
			}
			if int64(n) > remaining {
				fail("returned-more-than-remaining", "read-starts-"+posClass(pos), "Read(%d) at position %d of a %d-byte file returned %d bytes, only %d remain", c.Len, pos, size, n, remaining)
				return
			}
			if n > 0 && !bytes.Equal(buf[:n], data[pos:pos+int64(n)]) {
				fail("read-data-mismatch", "read-starts-"+posClass(pos), "Read(%d) at position %d of %s returned bytes that differ from the file's content at that position (first difference at +%d)", c.Len, pos, s.File, firstDiffBytes(buf[:n], data[pos:pos+int64(n)]))
				return
			}
			if e != nil && e != io.EOF {
				fail("read-error", "read-starts-"+posClass(pos), "Read(%d) at position %d of healthy file %s (size %d) failed: %v", c.Len, pos, s.File, size, e)
				return
			}
			if c.Len > 0 && remaining > 0 && n == 0 {
				fail("read-no-progress", "read-starts-"+posClass(pos), "Read(%d) at position %d with %d bytes remaining returned 0 bytes (err=%v)", c.Len, pos, remaining, e)
				return
			}
			if e == io.EOF && pos+int64(n) < size {
				fail("eof-before-end", "read-starts-"+posClass(pos), "Read(%d) at position %d returned io.EOF after %d bytes although %d bytes remain", c.Len, pos, n, remaining-int64(n))
				return
			}
			if c.Len > 0 && remaining == 0 && e != io.EOF {
				fail("missing-eof-at-end", posClass(pos), "Read(%d) at the end (position %d, size %d) returned n=%d err=%v instead of (0, io.EOF)", c.Len, pos, size, n, e)
				return
			}
			pos += int64(n)
			if n > 0 {
				res.Mark("read " + posClass(pos-int64(n)))
			}
		case "seek":
			if sk == nil {
				res.Count("calls.seek_unsupported", 1)
				continue
			}
			var np int64
			var e error
			if pi := core.Guard(func() { np, e = sk.Seek(c.Off, c.Whence) }); pi != nil {
				rule := "seek-panic"
				if closed {
					rule = "seek-after-close-panic"
				}
				fail(rule, pi.Top+":"+pi.Class, "Seek(%d,%s) panicked: %s", c.Off, whenceName(c.Whence), pi.Msg)
				return
			}
			res.Count("calls.seek", 1)
			if closed {
				if e == nil {
					fail("seek-after-close", "no-error", "Seek after Close returned pos=%d without error", np)
					return
				}
				continue
			}
			base := int64(0)
			switch c.Whence {
			case io.SeekCurrent:
				base = pos
			case io.SeekEnd:
				base = size
			}
			target := base + c.Off
			sign := "positive"
			if c.Off < 0 {
				sign = "negative"
			} else if c.Off == 0 {
				sign = "zero"
			}
			if target < 0 {
				if e == nil {
					fail("seek-negative-accepted", whenceName(c.Whence), "Seek(%d,%s) from position %d of a %d-byte file targets %d but returned pos=%d without error", c.Off, whenceName(c.Whence), pos, size, target, np)
					return
				}
				res.Mark("seek to negative target refused")
				continue // the cursor must be unchanged; the following reads verify it
			}
			if e != nil {
				fail("seek-error", whenceName(c.Whence)+"/"+sign, "Seek(%d,%s) from position %d of a %d-byte file (target %d) failed: %v", c.Off, whenceName(c.Whence), pos, size, target, e)
				return
			}
			if np != target {
				fail("seek-position", whenceName(c.Whence)+"/"+sign+"-offset", "Seek(%d,%s) from position %d of a %d-byte file returned %d, io.Seeker says %d", c.Off, whenceName(c.Whence), pos, size, np, target)
				return
			}
			pos = target
			if target > size {
				res.Mark("seek past EOF accepted")
			}
			res.Mark("seek " + whenceName(c.Whence) + " " + sign)
		case "close":
			if cl == nil {
				continue
			}
			var e error
			if pi := core.Guard(func() { e = cl.Close() }); pi != nil {
				fail("close-panic", pi.Top+":"+pi.Class, "Close panicked: %s", pi.Msg)
				return
			}
			_ = e
			closed = true
		}
	}
	res.Sig(kind, route, s)
}

func firstDiffBytes(a, b []byte) int {
	for i := range a {
		if i >= len(b) || a[i] != b[i] {
			return i
		}
	}
	return len(a)
}

var c10Kinds = []string{"fat12", "fat16", "fat32", "ext4", "iso", "iso-rr", "iso-joliet", "squashfs", "squashfs-nofrag", "squashfs-gzip", "squashfs-sparse"}

func init() {
	core.Register(&core.Check{
		ID:    "C10",
		Level: "exploration",
		Rule: "for each of {fat12, fat16, fat32, ext4, iso9660 plain/RockRidge/Joliet, squashfs with fragments / without fragments / gzip / an uncompressed image whose block lists were given a sparse entry (zero block occupying no space, as other writers produce) in front of stored blocks} an image built by the library holds 11 files of known content with sizes 0, 1, unit-1, unit, unit+1, 2*unit, ... 16*unit+3 (unit = cluster/block/fragment size); seeded call sequences of Read (sizes 0,1,7,unit-1,unit,unit+1,3*unit+5,1 MiB) and Seek (all three whences; positive, zero, negative offsets; also past EOF) followed by Close/Read/Seek/Read are applied to handles from OpenFile(O_RDONLY), Open and (FAT/ext4) OpenFile(O_RDWR); every result is compared with a shadow cursor over the known bytes (bytes.Reader semantics, relaxed where io.Reader allows); image kind ext4-long: one 130 MiB file on a 256 MiB ext4 volume with 1 KiB blocks, whose extents in block groups 10..24 have the greatest length an initialised extent can have (32768 blocks); non-trivial = a sequence that ran to its end; distinct = distinct (fs, route, sequence)",
		Assumptions: []string{"short reads are allowed as long as they make progress; (n>0, io.EOF) and (n, nil) then (0, io.EOF) are both accepted", "zero-length reads must only return no data", "a negative seek target must be refused and leave the cursor unchanged (verified by the following reads)"},
		MinSigs:   map[string]int{"quick": 1000, "thorough": 30000},
		NeedMarks: []string{"ext4-long", "O_RDWR handle read after writes", "seek past EOF accepted", "seek to negative target refused", "seek SeekEnd negative", "seek SeekCurrent negative", "read mid-unit-in-last-unit"},
		CPUSec:    300,
		Cases: func(seed int64, tier string) []core.Case {
			seqs, calls := 30, 30
			reps := 1
			if tier == "thorough" {
				seqs, calls, reps = 120, 40, 10
			}
			var cs []core.Case
			for rep := 0; rep < reps; rep++ {
				for i, k := range c10Kinds {
					for _, route := range []string{"openfile", "open", "rdwr"} {
						if route == "rdwr" && !(k == "ext4" || k[:3] == "fat") {
							continue
						}
						cs = append(cs, core.MkCase(fmt.Sprintf("%s-%s-%d", k, route, rep), "handle-"+k, seed*131+int64(i*7+rep*1000)+int64(len(route)), c10Case{FS: k, Seqs: seqs, Calls: calls, Route: route}))
					}
				}
			}
			cs = append(cs, core.MkCase("ext4-long-open", "handle-ext4-long", seed*131+977, c10Case{FS: "ext4-long", Seqs: seqs, Calls: calls, Route: "open"}))
			return cs
		},
		Run: func(c core.Case, env *core.Env) core.Result {
			var p c10Case
			c.Decode(&p)
			var res core.Result
			var img *c10Image
			var err error
			if pi := core.Guard(func() { img, err = c10Build(p.FS, 4242) }); pi != nil {
				res.Fail(fmt.Sprintf("C10/%s/build-panic/%s:%s", p.FS, pi.Top, pi.Class), "building the image panicked: "+pi.Msg, p)
				return res
			}
			if err != nil {
				res.Fail(fmt.Sprintf("C10/%s/build-error/%s", p.FS, core.Hash(classifyErr(err))), "building the image of known files failed: "+err.Error(), p)
				return res
			}
			if p.Only != nil {
				c10RunSeq(&res, p.FS, p.Route, img, *p.Only)
				return res
			}
			r := gen.New(c.Seed)
			n := 0
			for i := 0; i < p.Seqs; i++ {
				for _, name := range append([]string(nil), img.names...) {
					if _, ok := img.files[name]; !ok {
						continue
					}
					s := c10GenSeq(r, name, len(img.files[name]), img.unit, p.Calls)
					if p.Route == "rdwr" && i%3 == 0 && len(img.files[name]) < 40*img.unit {
						s.Grow = gen.Pick(r, []int{1, 7, img.unit - 1, img.unit, img.unit + 1, 3*img.unit + 5})
					}
					before := len(res.Findings)
					c10RunSeq(&res, p.FS, p.Route, img, s)
					n++
					if len(res.Findings) > before && len(res.Findings) >= 6 {
						res.Evals = int64(n)
						return res
					}
					if res.Sample == nil {
						res.Sample = map[string]any{"fs": p.FS, "route": p.Route, "seq": s}
					}
				}
			}
			res.Evals = int64(n)
			res.Mark(p.FS)
			return res
		},
	})
}
