package checks

import (
	"fmt"
	"sort"
	"strings"

	"github.com/diskfs/go-diskfs/backend/file"
	"github.com/diskfs/go-diskfs/partition"
	"github.com/diskfs/go-diskfs/partition/gpt"
	"github.com/diskfs/go-diskfs/partition/mbr"

	"verif/internal/core"
	"verif/internal/gen"
	"verif/internal/monstore"
)

type c09Pair struct {
	Old   *TableSpec `json:"old,omitempty"` // nil = blank disk
	New   *TableSpec `json:"new"`
	Class string     `json:"class"`
	// Older, when set, gives the old table a past: Older was on the disk, the write of Old over it was cut
	// off after the primary entry array and before the primary header (so that reading falls back to the
	// backup copy), the table read back was written again to repair the primary copy, and only then does
	// the write of New start
	Older *TableSpec `json:"older,omitempty"`
	// Edit: the new table is not a fresh Table value but the one read from the disk, edited and written
	Edit bool `json:"edit,omitempty"`
}

func c09Table(r gen.R, lss int, dev int64, n int) *TableSpec {
	t := &TableSpec{Kind: "gpt", LSS: lss, PSS: lss, DevSize: dev, PMBR: true, DiskGUID: r.GUID(true)}
	arr := uint64(128*128) / uint64(lss)
	first := 2 + arr
	last := uint64(dev)/uint64(lss) - 1 - arr - 1
	span := last - first + 1
	if uint64(n) > span/2 {
		n = int(span / 2)
	}
	idx := r.Perm(128)[:n]
	sort.Ints(idx)
	step := span / uint64(n+1)
	for i := 0; i < n; i++ {
		st := first + uint64(i)*step
		en := st + uint64(r.Int63n(int64(step)))
		t.GPT = append(t.GPT, GPTPartSpec{Index: idx[i] + 1, Start: st, End: en, Type: string(gen.Pick(r, gptKnownTypes)), Name: genName(r), GUID: r.GUID(true), Attrs: r.Uint64() & 0xF000000000000007})
	}
	return t
}

func c09Pairs(seed int64, n int) []c09Pair {
	r := gen.New(seed)
	var out []c09Pair
	for i := 0; i < n; i++ {
		lss := gen.Pick(r, []int{512, 512, 4096})
		dev := int64(gen.Pick(r, []int{1 << 20, 2 << 20, 5<<20 + 512*3}))
		if lss == 4096 {
			dev = int64(gen.Pick(r, []int{2 << 20, 8 << 20}))
		}
		var p c09Pair
		switch i % 8 {
		case 0:
			p = c09Pair{Old: nil, New: c09Table(r, lss, dev, r.Range(1, 6)), Class: "blank->table"}
		case 1:
			p = c09Pair{Old: c09Table(r, lss, dev, r.Range(1, 4)), New: c09Table(r, lss, dev, r.Range(30, 128)), Class: "few->many"}
		case 2:
			p = c09Pair{Old: c09Table(r, lss, dev, 128), New: c09Table(r, lss, dev, r.Range(0, 3)), Class: "full->few"}
		case 3:
			o := c09Table(r, lss, dev, r.Range(2, 9))
			nw := *o
			nw.DiskGUID = r.GUID(true)
			p = c09Pair{Old: o, New: &nw, Class: "same-array-new-disk-guid"}
		case 4:
			o := c09Table(r, lss, dev, r.Range(2, 9))
			nw := *o
			nw.GPT = append([]GPTPartSpec(nil), o.GPT...)
			k := r.Intn(len(nw.GPT))
			nm := []rune(genName(r))
			if len(nm) > 17 {
				nm = nm[:17] // at most 34 UTF-16 units + the suffix
			}
			nw.GPT[k].Name = string(nm) + "x"
			p = c09Pair{Old: o, New: &nw, Class: "one-name-changed"}
		case 5:
			o := c09Table(r, lss, dev, r.Range(2, 9))
			nw := *o
			nw.GPT = append([]GPTPartSpec(nil), o.GPT...)
			k := r.Intn(len(nw.GPT))
			if nw.GPT[k].End > nw.GPT[k].Start {
				nw.GPT[k].End--
			} else {
				nw.GPT[k].Attrs ^= 1
			}
			p = c09Pair{Old: o, New: &nw, Class: "one-geometry-changed"}
		case 6:
			p = c09Pair{Old: c09Table(r, lss, dev, 0), New: c09Table(r, lss, dev, r.Range(1, 128)), Class: "empty->table"}
		default:
			p = c09Pair{Old: c09Table(r, lss, dev, r.Range(1, 128)), New: c09Table(r, lss, dev, r.Range(1, 128)), Class: "random->random"}
		}
		if p.Old != nil && i%3 != 0 {
			p.Older = c09Table(r, lss, dev, r.Range(1, 20))
			p.Class += "/old-table-repaired"
		}
		if p.Old != nil && i%2 == 1 {
			p.Edit = true
		}
		out = append(out, p)
	}
	return out
}

func c09Region(off int64, t *TableSpec) string {
	l := int64(t.LSS)
	arr := int64(128 * 128)
	switch {
	case off < l:
		return "protective-mbr"
	case off < 2*l:
		return "primary-header"
	case off < 2*l+arr:
		return "primary-array"
	case off >= t.DevSize-l:
		return "backup-header"
	case off >= t.DevSize-l-arr:
		return "backup-array"
	}
	return "elsewhere"
}

// matches reports whether the table read equals the spec on the full partition list and disk GUID.
func c09Matches(got *gpt.Table, t *TableSpec) bool {
	if t == nil || got == nil {
		return false
	}
	if !strings.EqualFold(got.GUID, t.DiskGUID) {
		return false
	}
	exp := expectedGPT(t)
	gp := append([]*gpt.Partition(nil), got.Partitions...)
	sort.Slice(gp, func(i, j int) bool { return gp[i].Index < gp[j].Index })
	if len(gp) != len(exp) {
		return false
	}
	for i, e := range exp {
		g := gp[i]
		if g.Index != e.Index || g.Start != e.Start || g.End != e.End || g.Size != e.Size || !strings.EqualFold(string(g.Type), e.Type) || g.Name != e.Name || !strings.EqualFold(g.GUID, e.GUID) || g.Attributes != e.Attrs {
			return false
		}
	}
	return true
}

// subsetFamily returns the sector-subset patterns (bitmask as []bool) for n sectors.
func subsetFamily(n int) (pats [][]bool, exhaustive bool) {
	if n <= 12 {
		for m := 0; m < 1<<uint(n); m++ {
			p := make([]bool, n)
			for i := 0; i < n; i++ {
				p[i] = m&(1<<uint(i)) != 0
			}
			pats = append(pats, p)
		}
		return pats, true
	}
	mk := func(f func(i int) bool) {
		p := make([]bool, n)
		for i := range p {
			p[i] = f(i)
		}
		pats = append(pats, p)
	}
	mk(func(int) bool { return false })
	mk(func(int) bool { return true })
	for k := 0; k < n; k++ {
		k := k
		mk(func(i int) bool { return i == k })   // single sector persisted
		mk(func(i int) bool { return i != k })   // single sector lost
		if k > 0 {
			mk(func(i int) bool { return i < k })  // first k
			mk(func(i int) bool { return i >= k }) // last n-k
		}
	}
	mk(func(i int) bool { return i%2 == 0 })
	mk(func(i int) bool { return i%2 == 1 })
	return pats, false
}

type c09Params struct {
	N    int      `json:"n,omitempty"`
	Pair *c09Pair `json:"pair,omitempty"`
}

func c09RunPair(res *core.Result, p c09Pair) {
	t := p.New
	replay := core.MkCase("pair-"+core.Hash(p), "crash", 0, c09Params{Pair: &p})
	fail := func(rule, cause, f string, a ...any) {
		res.FailReplay(fmt.Sprintf("C09/gpt/%s/%s", rule, cause), fmt.Sprintf(f, a...), p, replay)
	}
	st := monstore.NewMem(t.DevSize)
	if p.Old != nil {
		if err, pi := writeTable(st, p.Old); err != nil || pi != nil {
			res.Inconclusive = fmt.Sprintf("old table refused: %v %v", err, pi)
			return
		}
	}
	if p.Old != nil && p.Older != nil {
		st = monstore.NewMem(t.DevSize)
		if err, pi := writeTable(st, p.Older); err != nil || pi != nil {
			res.Inconclusive = fmt.Sprintf("older table refused: %v %v", err, pi)
			return
		}
		before := st.Bytes()
		st.SetJournal(true)
		if err, pi := writeTable(st, p.Old); err != nil || pi != nil {
			res.Inconclusive = fmt.Sprintf("old table refused: %v %v", err, pi)
			return
		}
		st.SetJournal(false)
		for _, e := range st.Journal {
			if e.Kind != 'S' && c09Region(e.Off, p.Old) != "primary-header" {
				copy(before[e.Off:], e.Data)
			}
		}
		st = monstore.NewMem(t.DevSize)
		st.Poke(before, 0)
		var gt *gpt.Table
		var gerr error
		var pi *core.PanicInfo
		pi = core.Guard(func() { gt, gerr = gpt.Read(file.New(st, true), p.Old.LSS, p.Old.PSS) })
		switch {
		case pi != nil || gerr != nil:
			fail("history", "read-after-cut-write", "the write of the old table over an older one was cut off before the primary header: gpt.Read fails (%v %v)", gerr, pi)
			return
		case !gt.RecoveredFromBackup:
			res.Count("history.cut_write_not_read_from_backup", 1)
		default:
			var werr error
			pi = core.Guard(func() {
				w, e := file.New(st, false).Writable()
				if e != nil {
					werr = e
					return
				}
				werr = gt.Write(w, t.DevSize)
			})
			if pi != nil || werr != nil {
				fail("history", "repair-write-refused", "writing the table that was read from the backup copy again fails: %v %v", werr, pi)
				return
			}
			var g2 *gpt.Table
			pi = core.Guard(func() { g2, gerr = gpt.Read(file.New(st, true), p.Old.LSS, p.Old.PSS) })
			switch {
			case pi != nil || gerr != nil:
				fail("completed", "repair/error", "after writing the table read from the backup copy again gpt.Read fails: %v %v", gerr, pi)
				return
			case !c09Matches(g2, p.Old):
				fail("completed", "repair/not-the-table", "after writing the table read from the backup copy again gpt.Read returns another table")
				return
			case g2.RecoveredFromBackup:
				fail("completed", "repair/read-from-backup", "after writing the table read from the backup copy again the table is still read from the backup copy")
				return
			}
			res.Count("history.old_table_repaired_from_backup", 1)
			res.Mark("old table once cut off, read from the backup copy and written again")
		}
	}
	durable := st.Bytes()
	st.SetJournal(true)
	st.ResetJournal()
	tn := *t
	tn.ViaDisk = false
	if p.Edit && p.Old != nil {
		var gt *gpt.Table
		var err error
		pi := core.Guard(func() {
			gt, err = gpt.Read(file.New(st, true), t.LSS, t.PSS)
			if err != nil {
				return
			}
			nt := buildGPT(&tn)
			gt.Partitions, gt.GUID, gt.ProtectiveMBR = nt.Partitions, nt.GUID, nt.ProtectiveMBR
			w, e := file.New(st, false).Writable()
			if e != nil {
				err = e
				return
			}
			err = gt.Write(w, t.DevSize)
		})
		if err != nil || pi != nil {
			res.Inconclusive = fmt.Sprintf("edited table refused: %v %v", err, pi)
			return
		}
		res.Mark("new table = the table read from the disk, edited")
	} else if err, pi := writeTable(st, &tn); err != nil || pi != nil {
		res.Inconclusive = fmt.Sprintf("new table refused: %v %v", err, pi)
		return
	}
	st.SetJournal(false)
	j := st.Journal
	for _, e := range j {
		if e.Kind == 'S' {
			res.Count("journal.syncs", 1)
		} else {
			res.Count("journal.writes", 1)
		}
	}

	// ---- trace oracle ----
	shape := []string{}
	lastRegion := ""
	syncSince := true
	firstPrimary, lastBackup := -1, -1
	for i, e := range j {
		if e.Kind == 'S' {
			syncSince = true
			shape = append(shape, "S")
			continue
		}
		reg := c09Region(e.Off, t)
		shape = append(shape, reg)
		if lastRegion != "" && reg != lastRegion && !syncSince {
			fail("trace", "missing-sync-between/"+lastRegion+"->"+reg, "no Sync observed between the write to %s and the write to %s", lastRegion, reg)
		}
		if strings.HasPrefix(reg, "primary") && firstPrimary < 0 {
			firstPrimary = i
		}
		if strings.HasPrefix(reg, "backup") {
			lastBackup = i
		}
		lastRegion = reg
		syncSince = false
	}
	if !syncSince {
		fail("trace", "no-final-sync", "the last write (%s) is not followed by a Sync", lastRegion)
	}
	if firstPrimary >= 0 && lastBackup > firstPrimary {
		fail("trace", "primary-before-backup", "a primary-side write (event %d) precedes the completion of the backup side (event %d)", firstPrimary, lastBackup)
	}
	res.Sigs = append(res.Sigs, "shape:"+core.Hash(shape))

	// ---- crash-state oracle ----
	pairHash := core.Hash(p)
	stateNo := 0
	eval := func(dev *monstore.Store, phase string, detail string) {
		var gt *gpt.Table
		var gerr error
		if pi := core.Guard(func() { gt, gerr = gpt.Read(file.New(dev, true), t.LSS, t.PSS) }); pi != nil {
			fail("crash-state", phase+"/panic:"+pi.Top, "gpt.Read panicked on crash state (%s): %s", detail, pi.Msg)
			return
		}
		res.Count("crash_states.evaluated", 1)
		o := "neither"
		switch {
		case gerr != nil:
			o = "error"
		case c09Matches(gt, t):
			o = "new"
		case c09Matches(gt, p.Old):
			o = "old"
		}
		if gerr == nil && gt.RecoveredFromBackup {
			res.Count("crash_states.read_from_backup", 1)
			res.Mark("fallback to backup used")
		}
		res.Count("crash_states.gpt.Read."+o, 1)
		switch {
		case p.Old == nil:
			if o != "error" && o != "new" {
				fail("first-write", phase+"/"+o, "blank disk, crash %s (%s): gpt.Read returned a table that is not the new one", phase, detail)
			}
		case o == "error":
			fail("crash-state", phase+"/error", "crash %s (%s): gpt.Read failed: %v", phase, detail, gerr)
		case o == "neither":
			fail("crash-state", phase+"/neither-old-nor-new", "crash %s (%s): gpt.Read returned a table that is neither the old nor the new one (disk GUID %s, %d partitions, fromBackup=%v)", phase, detail, gt.GUID, len(gt.Partitions), gt.RecoveredFromBackup)
		}
		// partition.Read
		var pt partition.Table
		var perr error
		if pi := core.Guard(func() { pt, perr = partition.Read(file.New(dev, true), t.LSS, t.PSS) }); pi != nil {
			fail("crash-state", phase+"/panic:"+pi.Top, "partition.Read panicked on crash state (%s): %s", detail, pi.Msg)
			return
		}
		po := "neither"
		switch {
		case perr != nil:
			po = "error"
		default:
			switch x := pt.(type) {
			case *gpt.Table:
				if c09Matches(x, t) {
					po = "new"
				} else if c09Matches(x, p.Old) {
					po = "old"
				}
			case *mbr.Table:
				po = "mbr"
				n := 0
				for _, q := range x.Partitions {
					if q.Type != 0 {
						n++
					}
				}
				if n == 1 && x.Partitions[0].Type == 0xEE {
					po = "protective-mbr-only"
				}
			}
		}
		res.Count("crash_states.partition.Read."+po, 1)
		if p.Old == nil {
			if po != "error" && po != "new" && po != "protective-mbr-only" {
				fail("first-write", phase+"/partition.Read-"+po, "blank disk, crash %s (%s): partition.Read reported %s", phase, detail, po)
			}
		} else if po != "old" && po != "new" {
			fail("crash-state", phase+"/partition.Read-"+po, "crash %s (%s): partition.Read reported %s (err=%v)", phase, detail, po, perr)
		}
		if detail != "none" && detail != "all" {
			res.Sigs = append(res.Sigs, core.Hash(pairHash, phase, detail, stateNo))
		}
		stateNo++
		res.Mark("outcome " + phase + " -> gpt.Read " + o)
	}

	cur := append([]byte(nil), durable...)
	type inflight struct {
		off  int64
		data []byte
	}
	var F []inflight
	grans := []int{512}
	if t.LSS != 512 {
		grans = append(grans, t.LSS)
	}
	for _, e := range j {
		if e.Kind == 'S' {
			for _, w := range F {
				copy(cur[w.off:], w.data)
			}
			F = nil
			continue
		}
		F = append(F, inflight{e.Off, e.Data})
		phase := "during-" + c09Region(e.Off, t)
		if len(F) > 1 {
			phase += "+unsynced-predecessors"
		}
		for _, gran := range grans {
			// sector list of the in-flight set
			type sec struct {
				off  int64
				data []byte
			}
			var secs []sec
			for _, w := range F {
				o := w.off
				d := w.data
				for len(d) > 0 {
					n := gran - int(o%int64(gran))
					if n > len(d) {
						n = len(d)
					}
					secs = append(secs, sec{o, d[:n]})
					o += int64(n)
					d = d[n:]
				}
			}
			pats, ex := subsetFamily(len(secs))
			if ex {
				res.Count("inflight_sets.exhaustive", 1)
			} else {
				res.Count("inflight_sets.family", 1)
			}
			for _, pat := range pats {
				img := monstore.NewOverlay(cur)
				k := 0
				for i, on := range pat {
					if on {
						img.Poke(secs[i].data, secs[i].off)
						k++
					}
				}
				detail := fmt.Sprintf("%d of %d %d-byte sectors of the in-flight write persisted", k, len(secs), gran)
				if k == 0 {
					detail = "none"
				} else if k == len(secs) {
					detail = "all"
				} else {
					res.Count("crash_states.torn", 1)
				}
				eval(img, phase, detail)
			}
		}
	}
	// completed write
	for _, w := range F {
		copy(cur[w.off:], w.data)
	}
	dev := monstore.NewOverlay(cur)
	gt, gerr := gpt.Read(file.New(dev, true), t.LSS, t.PSS)
	switch {
	case gerr != nil:
		fail("completed", "error", "after the completed Write gpt.Read fails: %v", gerr)
	case !c09Matches(gt, t):
		fail("completed", "not-new", "after the completed Write gpt.Read does not return the new table")
	case gt.RecoveredFromBackup:
		fail("completed", "read-from-backup", "after the completed Write the table is read from the backup copy")
	}
	res.Mark("pair " + strings.TrimSuffix(p.Class, "/old-table-repaired"))
	res.Mark(fmt.Sprintf("lss %d", t.LSS))
}

func init() {
	core.Register(&core.Check{
		ID:    "C09",
		Level: "fault_enumeration",
		Rule: "pairs (old GPT, new GPT) differing in partition count (0..128), geometry, one name, disk GUID only, plus blank disk -> table; two thirds of the old tables have a past (an older table, a write cut off between the primary entry array and the primary header, the table read back from the backup copy and written again) and half of the new tables are the table read from the disk, edited, instead of a fresh value; on 1-8 MiB devices with 512/4096-byte sectors; the journal of WriteAt/Sync issued by the real Table.Write is recorded by the instrumented store; for every journal prefix and for the in-flight set (all writes since the last Sync) every member of the sector-subset family {none, all, each single sector persisted, each single sector lost, first-k, last-k, alternating; all subsets when <= 12 sectors} at 512-byte and at logical-sector granularity, the device is reconstructed and read by gpt.Read and partition.Read; non-trivial/distinct = a crash state in which the in-flight write is partially persisted (torn); distinct = distinct (pair, journal position, subset pattern); journal shapes are counted as well",
		Assumptions: []string{"sector writes are atomic at 512 bytes; a Sync makes all earlier writes durable; writes not separated by a Sync may persist in any subset", "old and new tables always carry explicit disk and partition GUIDs so that equality is exact"},
		MinSigs:   map[string]int{"quick": 5000, "thorough": 100000},
		NeedMarks: []string{"old table once cut off, read from the backup copy and written again", "new table = the table read from the disk, edited", "fallback to backup used", "pair blank->table", "pair same-array-new-disk-guid", "lss 512", "lss 4096"},
		Cases: func(seed int64, tier string) []core.Case {
			n := 96
			if tier == "thorough" {
				n = 1000
			}
			var cs []core.Case
			for i := 0; i < n; i += 2 {
				cs = append(cs, core.MkCase(fmt.Sprintf("pairs-%d", i), "crash", seed*7919+int64(i), c09Params{N: 2}))
			}
			return cs
		},
		Run: func(c core.Case, env *core.Env) core.Result {
			var p c09Params
			c.Decode(&p)
			var res core.Result
			if p.Pair != nil {
				c09RunPair(&res, *p.Pair)
				return res
			}
			// the pair index decides the class; derive it from the case id so that all classes appear
			var idx int
			fmt.Sscanf(c.ID, "pairs-%d", &idx)
			all := c09Pairs(c.Seed, idx%8+p.N)
			ps := all[idx%8:]
			for _, pr := range ps {
				c09RunPair(&res, pr)
			}
			res.Evals = res.Counters["crash_states.evaluated"]
			res.Sample = map[string]any{"class": ps[0].Class, "new_partitions": len(ps[0].New.GPT), "lss": ps[0].New.LSS}
			return res
		},
	})
}
