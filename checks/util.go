package checks

import (
	"github.com/diskfs/go-diskfs/backend"
	"github.com/diskfs/go-diskfs/backend/file"
	"github.com/diskfs/go-diskfs/partition"

	"verif/internal/monstore"
)

func fileNewRW(st *monstore.Store) backend.Storage { return file.New(st, false) }
func fileNewRO(st *monstore.Store) backend.Storage { return file.New(st, true) }

func partitionRead(b backend.Storage, lss, pss int) (partition.Table, error) {
	return partition.Read(b, lss, pss)
}
