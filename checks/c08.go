package checks

import (
	"fmt"

	"verif/internal/core"
	"verif/internal/gen"
)

func c08Cases(seed int64, tier string) []core.Case {
	r := gen.New(seed ^ 0xC08)
	var cs []core.Case
	n, steps := 48, 60
	if tier == "thorough" {
		n, steps = 900, 120
	}
	types := []string{"fat12", "fat16", "fat32"}
	sizes := map[string][]int64{
		"fat12": {1474560, 2 << 20, 4 << 20, 7<<20 + 1536, 12 << 20},
		"fat16": {16 << 20, 17<<20 + 512, 33 << 20, 129 << 20, 260 << 20},
		"fat32": {33 << 20, 64 << 20, 64<<20 + 1024, 260 << 20, 261 << 20},
	}
	for i := 0; i < n; i++ {
		t := types[i%3]
		sz := sizes[t]
		v := FatVol{Type: t, Size: sz[(i/3)%len(sz)], Start: fatStarts[(i/5)%len(fatStarts)], Sector: 512, Label: "C08"}
		if t == "fat32" && i%12 == 11 {
			v.Sector = 4096
			v.Size = 64 << 20
		}
		fc := fatCase{Vol: v, Steps: steps/2 + r.Intn(steps), Mode: "random", Handles: i%4 == 0, Used: i%4 == 1}
		if i%4 == 2 {
			fc.Resess = 11
		}
		if i%6 == 3 || i%6 == 4 {
			fc.Alias = true
		}
		cs = append(cs, core.MkCase(fmt.Sprintf("random-%s-%d", t, i), "history-"+t, r.Int63(), fc))
	}
	// geometry sweep: Create only (+ a handful of calls) across the cluster-size table boundaries,
	// including multi-GiB sparse volumes
	geo := []FatVol{
		{Type: "fat32", Size: 260 << 20}, {Type: "fat32", Size: 260<<20 + 512}, {Type: "fat32", Size: 1 << 30}, {Type: "fat32", Size: 3 << 30},
		{Type: "fat32", Size: 8 << 30}, {Type: "fat32", Size: 8<<30 + 4096}, {Type: "fat32", Size: 16<<30 + 512, Start: 1 << 20}, {Type: "fat32", Size: 33 << 30},
		{Type: "fat32", Size: 64 << 20, Sector: 4096}, {Type: "fat32", Size: 1 << 30, Sector: 4096, Start: 4096},
		{Type: "fat16", Size: 8 << 20}, {Type: "fat16", Size: 512 << 20}, {Type: "fat16", Size: 1 << 30}, {Type: "fat16", Size: 2 << 30},
		{Type: "fat12", Size: 64 << 10}, {Type: "fat12", Size: 512 << 10}, {Type: "fat12", Size: 8 << 20}, {Type: "fat12", Size: 16 << 20}, {Type: "fat12", Size: 32 << 20}, {Type: "fat12", Size: 100 << 20},
	}
	if tier == "thorough" {
		for i := 0; i < 120; i++ {
			t := types[i%3]
			var sz int64
			switch t {
			case "fat12":
				sz = int64(r.Range(40, 60000)) * 2048
			case "fat16":
				sz = int64(r.Range(4200, 1000000)) * 2048
			case "fat32":
				sz = int64(r.Range(33000, 9000000)) * 4096
			}
			geo = append(geo, FatVol{Type: t, Size: sz + int64(r.Intn(4))*512})
		}
	}
	for i, v := range geo {
		if v.Sector == 0 {
			v.Sector = 512
		}
		fc := fatCase{Vol: v, Steps: 6, Mode: "random"}
		c := core.MkCase(fmt.Sprintf("geometry-%s-%d", v.Type, i), "geometry-"+v.Type, r.Int63(), fc)
		cs = append(cs, c)
	}
	// clusters beyond 4 GiB inside the volume (32-bit byte offsets): everything below is marked bad first
	cs = append(cs, core.MkCase("high-clusters-fat32", "history-fat32", r.Int63(), fatCase{Vol: FatVol{Type: "fat32", Size: 6 << 30, Sector: 512, Label: "HIGH"}, Steps: 40, Mode: "random", HighClusters: 4 << 30}))
	if tier == "thorough" {
		cs = append(cs, core.MkCase("high-clusters-fat32-start", "history-fat32", r.Int63(), fatCase{Vol: FatVol{Type: "fat32", Size: 9 << 30, Start: 1 << 20, Sector: 512}, Steps: 120, Mode: "random", Handles: true, HighClusters: 4 << 30}),
			core.MkCase("high-clusters-fat32-8g", "history-fat32", r.Int63(), fatCase{Vol: FatVol{Type: "fat32", Size: 10 << 30, Sector: 512}, Steps: 80, Mode: "random", HighClusters: 8 << 30}))
	}
	// several handles on one file
	for i, v := range []FatVol{{Type: "fat12", Size: 1474560, Sector: 512}, {Type: "fat16", Size: 16 << 20, Sector: 512}, {Type: "fat32", Size: 34 << 20, Sector: 512, Start: 1 << 20}} {
		cs = append(cs, core.MkCase(fmt.Sprintf("twohandles-%s", v.Type), "twohandles-"+v.Type, seed+int64(i), fatCase{Vol: v, Mode: "twohandles", Steps: 9}))
	}
	// release workloads: fill / release / refill with the structural check at every step
	for i, v := range []FatVol{{Type: "fat12", Size: 1474560, Sector: 512}, {Type: "fat16", Size: 16 << 20, Sector: 512, Start: 512}, {Type: "fat32", Size: 4 << 20, Sector: 512}} {
		cs = append(cs, core.MkCase(fmt.Sprintf("refill-%s", v.Type), "refill-"+v.Type, seed+int64(i), fatCase{Vol: v, Mode: "refill", Steps: 2}))
	}
	return cs
}

func init() {
	core.Register(&core.Check{
		ID:    "C08",
		Level: "exploration",
		Rule: "the C01 history generators (remove, rename-over, truncating open, directory growth/shrink, open handles incl. several handles on one file (each with its own idea of the size), refused calls, fill/release/refill) on FAT12/16/32 volumes across the cluster-size table boundaries (FAT32 <=260 MiB, >260 MiB, up to 33 GiB sparse; 512- and 4096-byte sectors), at start offsets 0/512/1 MiB/4 GiB+512, and on a 6 GiB FAT32 volume whose clusters below the 4 GiB offset were marked bad beforehand, so that the history works in clusters on both sides of that offset; after Create and after EVERY call (accepted or refused) the raw bytes of the volume are parsed by the independent checker fatck: boot sector vs range, FAT32 backup boot sector and FSInfo, FAT copies identical, every chain in range / terminated / acyclic / long enough, no cross-links, no lost clusters; a third of the random histories run on a volume whose device offset equals the offset of its own data area (a position computed without, or twice with, the start then falls into the volume's own boot sector / FSInfo / FAT), and a quarter go on in a new session on the re-opened image every 11 calls; non-trivial = history with >=1 accepted mutating call; distinct = distinct (volume, executed history)",
		Assumptions: []string{"fatck (internal/fatck, written from the Microsoft FAT specification, calibrated on hand-made volumes) is correct", "rules outside the property's statement (chain longer than needed, '..' cluster value, LFN order, reserved FAT entries) are recorded but never reported"},
		MinSigs:   map[string]int{"quick": 50, "thorough": 800},
		NeedMarks: []string{"history continued in a new session on the re-opened image", "volume whose start equals the offset of its data area", "range formatted a second time over a populated volume", "fat12", "fat16", "fat32", "ENOSPC reached", "volume beyond 4 GiB", "clusters in use on both sides of volume offset 4 GiB", "several handles on one file with different remembered sizes"},
		CPUSec:    900,
		Cases:     c08Cases,
		Run:       func(c core.Case, env *core.Env) core.Result { return runFatCase("C08", c, env) },
	})
}
