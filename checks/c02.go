package checks

import (
	"fmt"
	"sort"
	"strings"
	"unicode/utf16"

	diskfs "github.com/diskfs/go-diskfs"
	"github.com/diskfs/go-diskfs/backend/file"
	"github.com/diskfs/go-diskfs/partition"
	"github.com/diskfs/go-diskfs/partition/gpt"
	"github.com/diskfs/go-diskfs/partition/mbr"

	"verif/internal/core"
	"verif/internal/gen"
	"verif/internal/monstore"
	"verif/internal/ptck"
)

// ---- table specifications (the generated input, JSON-able so they can be replayed) ----

type GPTPartSpec struct {
	Index int    `json:"index"`
	Start uint64 `json:"start"`
	End   uint64 `json:"end,omitempty"`  // 0 = not given
	Size  uint64 `json:"size,omitempty"` // bytes, 0 = not given
	Type  string `json:"type"`
	Name  string `json:"name"`
	GUID  string `json:"guid,omitempty"`
	Attrs uint64 `json:"attrs"`
}

type MBRPartSpec struct {
	Boot  bool   `json:"boot"`
	Type  byte   `json:"type"`
	Start uint32 `json:"start"`
	Size  uint32 `json:"size"`
	CHS   [6]byte `json:"chs"`
}

type TableSpec struct {
	Kind     string        `json:"kind"` // gpt | mbr
	LSS      int           `json:"lss"`
	PSS      int           `json:"pss"`
	DevSize  int64         `json:"dev_size"`
	DiskGUID string        `json:"disk_guid,omitempty"`
	PMBR     bool          `json:"pmbr"`
	GPT      []GPTPartSpec `json:"gpt,omitempty"`
	MBR      []MBRPartSpec `json:"mbr,omitempty"`
	ViaDisk  bool          `json:"via_disk"` // write through disk.Partition instead of Table.Write
	Prior    *TableSpec    `json:"prior,omitempty"`
}

var gptKnownTypes = []gpt.Type{gpt.EFISystemPartition, gpt.LinuxFilesystem, gpt.MicrosoftBasicData, gpt.BIOSBoot, gpt.LinuxSwap, gpt.LinuxLVM, gpt.MicrosoftReserved}

func genName(r gen.R) string {
	units := 0
	switch r.Intn(6) {
	case 0:
		units = 0
	case 1:
		units = 36
	case 2:
		units = 35
	default:
		units = r.Range(1, 34)
	}
	var rs []rune
	used := 0
	for used < units {
		left := units - used
		switch {
		case left >= 2 && r.Chance(0.25):
			rs = append(rs, rune(0x1F300+r.Intn(0x2FF))) // non-BMP, 2 units
			used += 2
		case r.Chance(0.2):
			rs = append(rs, rune(0x4E00+r.Intn(0x500)))
			used++
		case r.Chance(0.15):
			rs = append(rs, rune(0xE0+r.Intn(0x1F)))
			used++
		default:
			rs = append(rs, rune("abcdefghijklmnopqrstuvwxyzABCDEFGHIJKLMNOPQRSTUVWXYZ0123456789 _-."[r.Intn(66)]))
			used++
		}
	}
	return string(rs)
}

func devSizes(lss int) []int64 {
	l := int64(lss)
	arr := int64(128*128) / l
	return []int64{
		(2 + 2*arr + 1 + 9) * l, // about the minimum that has any usable sector
		1 << 20, 64 << 20,
		(1 << 41) - l, 1 << 41, (1 << 41) + l, // 2 TiB +- 1 sector
		3 << 40,
		(1<<32)*l - l, (1 << 32) * l, (1<<32)*l + l, // 2^32 sectors +- 1
		// devices that are not a whole number of logical sectors (image files of any length; 512-byte
		// multiples on 4096-byte sectors): the last sector is floor(size/lss)-1
		1<<20 + 300, 64<<20 + l - 512 + 212, 8<<20 + l/2, 1<<41 + l - 1,
	}
}

func genGPT(r gen.R, lss int, dev int64) *TableSpec {
	t := &TableSpec{Kind: "gpt", LSS: lss, PSS: gen.Pick(r, []int{512, 4096}), DevSize: dev, PMBR: !r.Chance(0.08)}
	if t.PSS < lss {
		t.PSS = lss
	}
	if r.Chance(0.7) {
		t.DiskGUID = r.GUID(r.Chance(0.5))
	}
	arr := uint64(128*128) / uint64(lss)
	first := 2 + arr
	sectors := uint64(dev) / uint64(lss)
	last := sectors - 1 - arr - 1
	var n int
	switch r.Intn(10) {
	case 0:
		n = 0
	case 1:
		n = 128
	case 2:
		n = r.Range(30, 127)
	default:
		n = r.Range(1, 8)
	}
	if last < first {
		n = 0
	} else if uint64(n) > last-first+1 {
		n = int(last - first + 1)
	}
	idx := r.Perm(128)[:n]
	// carve n non-overlapping extents out of [first,last]
	span := last - first + 1
	cuts := make([]uint64, 0, 2*n)
	seen := map[uint64]bool{}
	for len(cuts) < 2*n {
		var c uint64
		if span > 1<<20 && r.Chance(0.5) {
			c = uint64(r.Int63n(1 << 20))
			if r.Chance(0.3) {
				c = span - 1 - c
			}
		} else {
			c = uint64(r.Int63n(int64(span)))
		}
		if len(cuts) < 2*n && span <= uint64(2*n) {
			// tiny device: one sector each
			c = uint64(len(cuts))
			if c >= span {
				break
			}
		}
		if !seen[c] {
			seen[c] = true
			cuts = append(cuts, c)
		}
	}
	sort.Slice(cuts, func(i, j int) bool { return cuts[i] < cuts[j] })
	for i := 0; i+1 < len(cuts) && i/2 < n; i += 2 {
		st, en := first+cuts[i], first+cuts[i+1]
		if r.Chance(0.15) {
			en = st // one-sector partition
		}
		p := GPTPartSpec{Index: idx[i/2] + 1, Start: st, Attrs: 0, Name: genName(r)}
		switch r.Intn(3) {
		case 0:
			p.End = en
		case 1:
			p.Size = (en - st + 1) * uint64(lss)
		case 2:
			p.End = en
			p.Size = (en - st + 1) * uint64(lss)
		}
		if r.Chance(0.5) {
			p.Type = string(gen.Pick(r, gptKnownTypes))
			if r.Chance(0.3) {
				p.Type = strings.ToLower(p.Type)
			}
		} else {
			p.Type = r.GUID(r.Chance(0.5))
		}
		if r.Chance(0.7) {
			p.GUID = r.GUID(r.Chance(0.5))
		}
		switch r.Intn(4) {
		case 0:
			p.Attrs = 0
		case 1:
			p.Attrs = 1 << uint(r.Intn(64))
		case 2:
			p.Attrs = r.Uint64()
		case 3:
			p.Attrs = ^uint64(0)
		}
		t.GPT = append(t.GPT, p)
	}
	r.Shuffle(len(t.GPT), func(i, j int) { t.GPT[i], t.GPT[j] = t.GPT[j], t.GPT[i] })
	return t
}

func genMBR(r gen.R, lss int, dev int64) *TableSpec {
	t := &TableSpec{Kind: "mbr", LSS: lss, PSS: lss, DevSize: dev}
	n := r.Range(0, 4)
	for i := 0; i < n; i++ {
		p := MBRPartSpec{Boot: r.Chance(0.3), Type: byte(r.Range(1, 255))}
		switch r.Intn(5) {
		case 0:
			p.Start, p.Size = 0xFFFFFFFF, 0xFFFFFFFF
		case 1:
			p.Start, p.Size = uint32(r.Range(1, 4096)), uint32(r.Range(1, 1<<20))
		case 2:
			p.Start, p.Size = r.Uint32(), r.Uint32()
		case 3:
			p.Start, p.Size = uint32(1<<31)+uint32(r.Intn(3))-1, uint32(1<<31)+uint32(r.Intn(3))-1
		case 4:
			p.Start, p.Size = uint32(r.Range(1, 100)), 1
		}
		if r.Chance(0.5) {
			r.Read(p.CHS[:])
		}
		t.MBR = append(t.MBR, p)
	}
	return t
}

func c02Tables(seed int64, n int) []*TableSpec {
	r := gen.New(seed)
	var out []*TableSpec
	for i := 0; i < n; i++ {
		lss := gen.Pick(r, []int{512, 512, 4096})
		ds := devSizes(lss)
		dev := ds[i%len(ds)]
		var t *TableSpec
		if r.Chance(0.7) {
			t = genGPT(r, lss, dev)
		} else {
			t = genMBR(r, lss, dev)
		}
		t.ViaDisk = r.Chance(0.5)
		if r.Chance(0.35) {
			if r.Chance(0.6) {
				t.Prior = genGPT(r, lss, dev)
			} else {
				t.Prior = genMBR(r, lss, dev)
			}
		}
		out = append(out, t)
	}
	return out
}

func buildGPT(t *TableSpec) *gpt.Table {
	tb := &gpt.Table{LogicalSectorSize: t.LSS, PhysicalSectorSize: t.PSS, GUID: t.DiskGUID, ProtectiveMBR: t.PMBR}
	for _, p := range t.GPT {
		tb.Partitions = append(tb.Partitions, &gpt.Partition{Index: p.Index, Start: p.Start, End: p.End, Size: p.Size, Type: gpt.Type(p.Type), Name: p.Name, GUID: p.GUID, Attributes: p.Attrs})
	}
	return tb
}

func buildMBR(t *TableSpec) *mbr.Table {
	tb := &mbr.Table{LogicalSectorSize: t.LSS, PhysicalSectorSize: t.PSS}
	for i, p := range t.MBR {
		tb.Partitions = append(tb.Partitions, &mbr.Partition{Index: i + 1, Bootable: p.Boot, Type: mbr.Type(p.Type), Start: p.Start, Size: p.Size,
			StartHead: p.CHS[0], StartSector: p.CHS[1], StartCylinder: p.CHS[2], EndHead: p.CHS[3], EndSector: p.CHS[4], EndCylinder: p.CHS[5]})
	}
	return tb
}

func buildTable(t *TableSpec) partition.Table {
	if t.Kind == "gpt" {
		return buildGPT(t)
	}
	return buildMBR(t)
}

func sectorOpt(lss int) diskfs.OpenOpt {
	if lss == 4096 {
		return diskfs.WithSectorSize(diskfs.SectorSize4k)
	}
	return diskfs.WithSectorSize(diskfs.SectorSize512)
}

// writeTable writes the spec'd table onto the store; returns the library's error.
func writeTable(st *monstore.Store, t *TableSpec) (err error, pi *core.PanicInfo) {
	tb := buildTable(t)
	pi = core.Guard(func() {
		if t.ViaDisk {
			d, e := diskfs.OpenBackend(file.New(st, false), sectorOpt(t.LSS))
			if e != nil {
				err = fmt.Errorf("OpenBackend: %w", e)
				return
			}
			err = d.Partition(tb)
			return
		}
		w, e := file.New(st, false).Writable()
		if e != nil {
			err = e
			return
		}
		err = tb.Write(w, t.DevSize)
	})
	return
}

type expPart struct {
	Index      int
	Start, End uint64
	Size       uint64
	Type, Name string
	GUID       string
	Attrs      uint64
}

func expectedGPT(t *TableSpec) []expPart {
	var out []expPart
	for _, p := range t.GPT {
		e := expPart{Index: p.Index, Start: p.Start, Type: strings.ToUpper(p.Type), Name: p.Name, GUID: strings.ToUpper(p.GUID), Attrs: p.Attrs}
		if p.End != 0 {
			e.End = p.End
		} else {
			e.End = p.Start + p.Size/uint64(t.LSS) - 1
		}
		e.Size = (e.End - e.Start + 1) * uint64(t.LSS)
		out = append(out, e)
	}
	sort.Slice(out, func(i, j int) bool { return out[i].Index < out[j].Index })
	return out
}

func utf16Units(s string) int { return len(utf16.Encode([]rune(s))) }

func c02CheckGPT(res *core.Result, st *monstore.Store, t *TableSpec, wit any) {
	exp := expectedGPT(t)
	fail := func(rule, cause, f string, a ...any) {
		res.FailReplay(fmt.Sprintf("C02/gpt/%s/%s", rule, cause), fmt.Sprintf(f, a...), wit, c02Single(t))
	}
	devClass := "le-2TiB"
	if uint64(t.DevSize)/uint64(t.LSS)-1 > 0xFFFFFFFF {
		devClass = "over-2^32-sectors"
	}
	// (a) library round trip through three routes
	var got *gpt.Table
	var rerr error
	if pi := core.Guard(func() { got, rerr = gpt.Read(file.New(st, true), t.LSS, t.PSS) }); pi != nil {
		fail("read-panic", pi.Top+":"+pi.Class, "gpt.Read panicked: %s", pi.Msg)
		return
	}
	if rerr != nil {
		fail("read-back-error", core.Hash(classifyErr(rerr)), "gpt.Read of the table just written failed: %v", rerr)
		return
	}
	if got.RecoveredFromBackup {
		fail("read-back", "recovered-from-backup", "freshly written table was read from the backup copy")
	}
	cmp := func(route string, parts []*gpt.Partition, guid string) {
		if t.DiskGUID != "" && !strings.EqualFold(guid, t.DiskGUID) {
			fail("roundtrip-disk-guid", route, "disk GUID %s read back as %s", t.DiskGUID, guid)
		}
		gp := append([]*gpt.Partition(nil), parts...)
		sort.Slice(gp, func(i, j int) bool { return gp[i].Index < gp[j].Index })
		if len(gp) != len(exp) {
			fail("roundtrip-count", route, "%d partitions written, %d read back", len(exp), len(gp))
			return
		}
		for i, e := range exp {
			g := gp[i]
			switch {
			case g.Index != e.Index:
				fail("roundtrip-index", route, "partition index %d read back as %d", e.Index, g.Index)
			case g.Start != e.Start || g.End != e.End:
				fail("roundtrip-geometry", route, "partition %d: %d-%d read back as %d-%d", e.Index, e.Start, e.End, g.Start, g.End)
			case g.Size != e.Size:
				fail("roundtrip-size", route, "partition %d: size %d read back as %d", e.Index, e.Size, g.Size)
			case !strings.EqualFold(string(g.Type), e.Type):
				fail("roundtrip-type", route, "partition %d: type %s read back as %s", e.Index, e.Type, g.Type)
			case g.Name != e.Name:
				fail("roundtrip-name", fmt.Sprintf("%s-units-%d", route, utf16Units(e.Name)), "partition %d: name %q read back as %q", e.Index, e.Name, g.Name)
			case e.GUID != "" && !strings.EqualFold(g.GUID, e.GUID):
				fail("roundtrip-guid", route, "partition %d: GUID %s read back as %s", e.Index, e.GUID, g.GUID)
			case g.Attributes != e.Attrs:
				fail("roundtrip-attributes", route, "partition %d: attributes %#x read back as %#x", e.Index, e.Attrs, g.Attributes)
			}
		}
	}
	cmp("gpt.Read", got.Partitions, got.GUID)
	res.Count("readback.gpt.Read", 1)

	var pt partition.Table
	if pi := core.Guard(func() { pt, rerr = partition.Read(file.New(st, true), t.LSS, t.PSS) }); pi != nil {
		fail("read-panic", pi.Top+":"+pi.Class, "partition.Read panicked: %s", pi.Msg)
		return
	}
	if rerr != nil {
		fail("read-back-error", "partition.Read", "partition.Read failed: %v", rerr)
	} else if pt.Type() != "gpt" {
		fail("read-back-type", "partition.Read", "GPT disk read back as %s", pt.Type())
	} else {
		g2 := pt.(*gpt.Table)
		cmp("partition.Read", g2.Partitions, g2.GUID)
		res.Count("readback.partition.Read", 1)
	}
	// Disk route + byte ranges
	d, err := diskfs.OpenBackend(file.New(st, true), sectorOpt(t.LSS))
	if err != nil {
		fail("read-back-error", "OpenBackend", "OpenBackend failed: %v", err)
	} else {
		tb, err := d.GetPartitionTable()
		if err != nil {
			fail("read-back-error", "Disk.GetPartitionTable", "GetPartitionTable failed: %v", err)
		} else if g3, ok := tb.(*gpt.Table); !ok {
			fail("read-back-type", "Disk.GetPartitionTable", "GPT disk reported as %s", tb.Type())
		} else {
			cmp("Disk.GetPartitionTable", g3.Partitions, g3.GUID)
			for _, e := range exp {
				p, err := d.GetPartition(e.Index)
				if err != nil {
					fail("byte-range", "GetPartition-error", "GetPartition(%d): %v", e.Index, err)
					continue
				}
				if uint64(p.GetStart()) != e.Start*uint64(t.LSS) || uint64(p.GetSize()) != e.Size {
					fail("byte-range", "mismatch", "partition %d: want bytes [%d,+%d) got [%d,+%d)", e.Index, e.Start*uint64(t.LSS), e.Size, p.GetStart(), p.GetSize())
				}
				res.Count("byte_ranges.checked", 1)
			}
		}
	}

	// (b) independent parser
	g := ptck.ReadGPT(func(off int64, n int) []byte { return st.Peek(off, n) }, t.DevSize, t.LSS)
	if !t.PMBR {
		// caller asked for no protective MBR: only the GPT structures are checked
		g.PMBR = ptck.MBR{SigOK: true}
		g.PMBR.Slots[0] = ptck.MBRSlot{Type: 0xEE, Start: 1, Sectors: uint32(minU64(g.LastLBA, 0xFFFFFFFF))}
	}
	for _, p := range g.Check(t.LSS) {
		cause := classifyProblem(p)
		if strings.HasPrefix(p, "pmbr: slot 0 covers") {
			cause += "/" + devClass
		}
		fail("ondisk", cause, "independent parser: %s", p)
	}
	if g.Primary.Valid() {
		ents := g.Primary.Entries
		if len(ents) != len(exp) {
			fail("ondisk", "entry-count", "independent parser finds %d entries, %d written", len(ents), len(exp))
		} else {
			for i, e := range exp {
				x := ents[i]
				if x.Index != e.Index || x.First != e.Start || x.Last != e.End || x.Attrs != e.Attrs || !strings.EqualFold(x.TypeGUID, e.Type) || x.Name != e.Name || (e.GUID != "" && !strings.EqualFold(x.GUID, e.GUID)) {
					fail("ondisk", "entry-decode", "independent parser decodes slot %d as %+v, written %+v", e.Index, x, e)
				}
			}
		}
		if t.DiskGUID != "" && !strings.EqualFold(g.Primary.Header.DiskGUID, t.DiskGUID) {
			fail("ondisk", "disk-guid", "independent parser reads disk GUID %s, written %s", g.Primary.Header.DiskGUID, t.DiskGUID)
		}
		res.Count("ptck.gpt.validated", 1)
	}
}

func minU64(a, b uint64) uint64 {
	if a < b {
		return a
	}
	return b
}

func classifyErr(err error) string {
	s := err.Error()
	if len(s) > 60 {
		s = s[:60]
	}
	return s
}

func classifyProblem(p string) string {
	out := make([]rune, 0, len(p))
	for _, c := range p {
		switch {
		case c >= '0' && c <= '9':
			if len(out) > 0 && out[len(out)-1] == 'N' {
				continue
			}
			out = append(out, 'N')
		case c == ' ' || c == '/':
			out = append(out, '_')
		default:
			out = append(out, c)
		}
	}
	s := string(out)
	if len(s) > 70 {
		s = s[:70]
	}
	return s
}

func c02CheckMBR(res *core.Result, st *monstore.Store, t *TableSpec, wit any) {
	fail := func(rule, cause, f string, a ...any) {
		res.FailReplay(fmt.Sprintf("C02/mbr/%s/%s", rule, cause), fmt.Sprintf(f, a...), wit, c02Single(t))
	}
	lssClass := fmt.Sprintf("lss-%d", t.LSS)
	cmp := func(route string, parts []*mbr.Partition) {
		for i := 0; i < 4; i++ {
			var g *mbr.Partition
			for _, p := range parts {
				if p.Index == i+1 {
					g = p
				}
			}
			if i >= len(t.MBR) {
				if g != nil && (g.Type != 0 || g.Start != 0 || g.Size != 0) {
					fail("roundtrip-extra", route, "slot %d was not given but reads back as type %#x start %d size %d", i+1, g.Type, g.Start, g.Size)
				}
				continue
			}
			e := t.MBR[i]
			if g == nil {
				fail("roundtrip-missing", route, "slot %d missing on read back", i+1)
				continue
			}
			if g.Bootable != e.Boot || byte(g.Type) != e.Type || g.Start != e.Start || g.Size != e.Size {
				fail("roundtrip-fields", route, "slot %d: wrote boot=%v type=%#x start=%d size=%d, read boot=%v type=%#x start=%d size=%d", i+1, e.Boot, e.Type, e.Start, e.Size, g.Bootable, g.Type, g.Start, g.Size)
			}
		}
	}
	var got *mbr.Table
	var rerr error
	if pi := core.Guard(func() { got, rerr = mbr.Read(file.New(st, true), t.LSS, t.PSS) }); pi != nil {
		fail("read-panic", pi.Top+":"+pi.Class, "mbr.Read panicked: %s", pi.Msg)
		return
	}
	if rerr != nil {
		fail("read-back-error", "mbr.Read", "mbr.Read failed: %v", rerr)
		return
	}
	cmp("mbr.Read", got.Partitions)
	res.Count("readback.mbr.Read", 1)
	d, err := diskfs.OpenBackend(file.New(st, true), sectorOpt(t.LSS))
	if err != nil {
		fail("read-back-error", "OpenBackend", "OpenBackend failed: %v", err)
	} else {
		tb, err := d.GetPartitionTable()
		if err != nil {
			fail("read-back-error", "Disk.GetPartitionTable", "GetPartitionTable failed: %v", err)
		} else if m3, ok := tb.(*mbr.Table); !ok {
			// a protective-looking MBR given by the user may legitimately be... no: no GPT header exists
			fail("read-back-type", "Disk.GetPartitionTable", "MBR disk reported as %s", tb.Type())
		} else {
			cmp("Disk.GetPartitionTable", m3.Partitions)
			for i, e := range t.MBR {
				p, err := d.GetPartition(i + 1)
				if err != nil {
					fail("byte-range", "GetPartition-error", "GetPartition(%d): %v", i+1, err)
					continue
				}
				ws, wz := int64(e.Start)*int64(t.LSS), int64(e.Size)*int64(t.LSS)
				if p.GetStart() != ws || p.GetSize() != wz {
					fail("byte-range", lssClass, "slot %d: want bytes [%d,+%d) got [%d,+%d) (logical sector %d)", i+1, ws, wz, p.GetStart(), p.GetSize(), t.LSS)
				}
				res.Count("byte_ranges.checked", 1)
			}
		}
	}
	// independent parser
	m, err := ptck.ParseMBR(st.Peek(0, 512))
	if err != nil {
		fail("ondisk", "short", "%v", err)
		return
	}
	if !m.SigOK {
		fail("ondisk", "signature", "0x55AA signature missing")
	}
	for i := 0; i < 4; i++ {
		s := m.Slots[i]
		if i >= len(t.MBR) {
			if !s.Empty() {
				fail("ondisk", "slot-not-empty", "slot %d not given but on disk %+v", i+1, s)
			}
			continue
		}
		e := t.MBR[i]
		wb := byte(0)
		if e.Boot {
			wb = 0x80
		}
		if s.Boot != wb || s.Type != e.Type || s.Start != e.Start || s.Sectors != e.Size ||
			s.CHSStart != [3]byte{e.CHS[0], e.CHS[1], e.CHS[2]} || s.CHSEnd != [3]byte{e.CHS[3], e.CHS[4], e.CHS[5]} {
			fail("ondisk", "slot-mismatch", "slot %d on disk %+v, given %+v", i+1, s, e)
		}
	}
	res.Count("ptck.mbr.validated", 1)
}

func c02Single(t *TableSpec) core.Case {
	return core.MkCase("single-"+core.Hash(t), "tables", 0, c02Params{Single: t})
}

type c02Params struct {
	N      int        `json:"n,omitempty"`
	Single *TableSpec `json:"single,omitempty"`
}

func c02RunOne(res *core.Result, t *TableSpec) {
	st := monstore.NewMem(t.DevSize)
	reused := false
	if t.Prior != nil && t.Prior.Kind == "gpt" && t.Kind == "gpt" && !t.ViaDisk && len(t.GPT)%2 == 0 {
		// the same Table value is written, changed into the new table, and written again (a caller that keeps
		// its table around and edits it): the second Write must put the edited table on the disk
		reused = true
	}
	var err error
	var pi *core.PanicInfo
	if reused {
		tb := buildGPT(t.Prior)
		nt := buildGPT(t)
		pi = core.Guard(func() {
			w, e := file.New(st, false).Writable()
			if e != nil {
				err = e
				return
			}
			if e := tb.Write(w, t.DevSize); e != nil {
				res.Count("prior.refused", 1)
			} else {
				res.Count("prior.written.same-table-value-edited", 1)
				res.Mark("same gpt.Table value written, edited and written again")
			}
			tb.Partitions, tb.GUID, tb.ProtectiveMBR = nt.Partitions, nt.GUID, nt.ProtectiveMBR
			tb.LogicalSectorSize, tb.PhysicalSectorSize = nt.LogicalSectorSize, nt.PhysicalSectorSize
			err = tb.Write(w, t.DevSize)
		})
	} else if t.Prior != nil {
		if err, pi := writeTable(st, t.Prior); err != nil || pi != nil {
			res.Count("prior.refused", 1)
		} else {
			res.Count("prior.written."+t.Prior.Kind+"->"+t.Kind, 1)
		}
	}
	if !reused {
		err, pi = writeTable(st, t)
	}
	cls := fmt.Sprintf("%s/lss%d/n%d", t.Kind, t.LSS, len(t.GPT)+len(t.MBR))
	if pi != nil {
		res.Fail(fmt.Sprintf("C02/%s/write-panic/%s:%s", t.Kind, pi.Top, pi.Class), "Table.Write panicked: "+pi.Msg, t)
		return
	}
	if err != nil {
		res.Count("write.refused."+t.Kind, 1)
		return
	}
	res.Count("write.accepted."+t.Kind, 1)
	if t.Kind == "gpt" {
		c02CheckGPT(res, st, t, t)
		if t.Prior != nil && t.Prior.Kind == "mbr" {
			res.Mark("rewrite mbr->gpt")
		}
	} else {
		if t.Prior != nil && t.Prior.Kind == "gpt" {
			// an MBR written over a GPT leaves the GPT headers in place: the library (and any
			// reader) then still sees a GPT. The statement is about the table "Write accepts for a
			// disk"; we record the case and compare only the MBR bytes.
			res.Count("mbr_over_gpt.recorded", 1)
			res.Mark("rewrite gpt->mbr")
			m, _ := ptck.ParseMBR(st.Peek(0, 512))
			if !m.SigOK {
				res.Fail("C02/mbr/ondisk/signature", "0x55AA signature missing after MBR over GPT", t)
			}
			return
		}
		c02CheckMBR(res, st, t, t)
	}
	if len(t.GPT)+len(t.MBR) > 0 {
		res.Sig(t)
	}
	res.Mark(cls[:strings.LastIndex(cls, "/")])
	if t.DevSize > 1<<41 {
		res.Mark("device over 2 TiB")
	}
	if len(t.GPT) == 128 {
		res.Mark("gpt 128 entries")
	}
	for _, p := range t.GPT {
		if utf16Units(p.Name) == 36 {
			res.Mark("gpt name 36 units")
		}
		if utf16Units(p.Name) != len([]rune(p.Name)) {
			res.Mark("gpt name with surrogate pair")
		}
	}
}

func init() {
	core.Register(&core.Check{
		ID:    "C02",
		Level: "exploration",
		Rule: "seeded random GPT/MBR tables (0..128 sparse unordered GPT indices, three start/end/size spellings, names up to 36 UTF-16 units incl. surrogate pairs, random attributes/types/GUIDs, MBR any type byte and start/size up to 2^32-1) x device sizes from ~minimum to 3 TiB on a sparse store x 512/4096 logical sectors x blank/rewrite-over-other-table x Table.Write/Disk.Partition; a case is non-trivial when Write accepted the table and it has >=1 partition; distinct = distinct table specification",
		Assumptions: []string{
			"the instrumented store behaves like a block device of the given size (no growth, sparse)",
			"ptck (independent GPT/MBR parser in /verif/internal/ptck) follows the UEFI field layout",
			"GPT names are drawn from the property's domain (<= 36 UTF-16 units)",
		},
		MinSigs:   map[string]int{"quick": 500, "thorough": 8000},
		NeedMarks: []string{"gpt/lss512", "gpt/lss4096", "mbr/lss512", "device over 2 TiB", "gpt 128 entries", "gpt name 36 units", "gpt name with surrogate pair", "same gpt.Table value written, edited and written again"},
		Cases: func(seed int64, tier string) []core.Case {
			n, per := 48, 25
			if tier == "thorough" {
				n, per = 400, 50
			}
			var cs []core.Case
			for i := 0; i < n; i++ {
				cs = append(cs, core.MkCase(fmt.Sprintf("tables-%d", i), "tables", seed*1000003+int64(i), c02Params{N: per}))
			}
			return cs
		},
		Run: func(c core.Case, env *core.Env) core.Result {
			var p c02Params
			c.Decode(&p)
			var res core.Result
			if p.Single != nil {
				c02RunOne(&res, p.Single)
				res.Evals = 1
				return res
			}
			ts := c02Tables(c.Seed, p.N)
			for _, t := range ts {
				before := len(res.Findings)
				c02RunOne(&res, t)
				_ = before
			}
			res.Evals = int64(len(ts))
			res.Sample = ts[0]
			return res
		},
	})
}
