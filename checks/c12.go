package checks

import (
	"bytes"
	"errors"
	"fmt"
	"os"
	"strings"

	diskfs "github.com/diskfs/go-diskfs"
	"github.com/diskfs/go-diskfs/disk"
	"github.com/diskfs/go-diskfs/filesystem"
	"github.com/diskfs/go-diskfs/filesystem/iso9660"
	"github.com/diskfs/go-diskfs/filesystem/squashfs"
	"github.com/diskfs/go-diskfs/partition"
	"github.com/diskfs/go-diskfs/partition/gpt"
	"github.com/diskfs/go-diskfs/partition/mbr"

	"verif/internal/core"
	"verif/internal/gen"
	"verif/internal/monstore"
)

type c12Case struct {
	Type   string `json:"type"`  // fat12 fat16 fat32 ext4 iso9660 squashfs blank
	Where  string `json:"where"` // whole gpt mbr
	StartAt int64 `json:"start_at,omitempty"` // byte offset of the filesystem's partition when not the usual 1 MiB (e.g. beyond the partition's own size)
	Size   int64  `json:"size"`  // size of the filesystem's range
	Sector int    `json:"sector"`
	Label  string `json:"label"`
	Prior  string `json:"prior,omitempty"` // filesystem type whose bytes are left in the range
	// PriorTable: what the disk carried before it was partitioned: mbr | gpt | fat-wholedisk (a FAT32 over the
	// whole disk, whose boot sector also ends in 55 AA); NoPMBR: the GPT is written without a protective MBR
	PriorTable string `json:"prior_table,omitempty"`
	NoPMBR     bool   `json:"no_pmbr,omitempty"`
	// boundary mode: search [Lo,Hi] (sectors) for the sizes where CreateFilesystem flips between
	// refusing and accepting, then run the recognition case at every sector within +-Win of each flip
	Lo  int64 `json:"lo,omitempty"`
	Hi  int64 `json:"hi,omitempty"`
	Win int64 `json:"win,omitempty"`
}

var fsTypeOf = map[string]filesystem.Type{
	"fat12": filesystem.TypeFat12, "fat16": filesystem.TypeFat16, "fat32": filesystem.TypeFat32,
	"ext4": filesystem.TypeExt4, "iso9660": filesystem.TypeISO9660, "squashfs": filesystem.TypeSquashfs,
}

func fsTypeName(t filesystem.Type) string {
	for k, v := range fsTypeOf {
		if v == t {
			return k
		}
	}
	return fmt.Sprintf("type-%d", int(t))
}

// c12Make creates filesystem typ in partition part of d, with one file, finalizing where needed.
func c12Make(d *disk.Disk, part int, typ, label string, content []byte) error {
	fs, err := d.CreateFilesystem(disk.FilesystemSpec{Partition: part, FSType: fsTypeOf[typ], VolumeLabel: label})
	if err != nil {
		return err
	}
	f, err := fs.OpenFile("HELLO.TXT", os.O_CREATE|os.O_RDWR)
	if err != nil {
		return fmt.Errorf("create file: %w", err)
	}
	if _, err := f.Write(content); err != nil {
		return fmt.Errorf("write file: %w", err)
	}
	if err := f.Close(); err != nil {
		return err
	}
	switch x := fs.(type) {
	case *iso9660.FileSystem:
		defer x.Close()
		return x.Finalize(iso9660.FinalizeOptions{VolumeIdentifier: label})
	case *squashfs.FileSystem:
		defer x.Close()
		return x.Finalize(squashfs.FinalizeOptions{})
	}
	return nil
}

// c12Accepts: does CreateFilesystem accept a whole-disk range of n sectors for this type?
func c12Accepts(typ string, sector int, n int64) bool {
	st := monstore.NewMem(n * int64(sector))
	ok := false
	core.Guard(func() {
		d, err := diskfs.OpenBackend(fileNewRW(st), sectorOpt(sector))
		if err != nil {
			return
		}
		_, err = d.CreateFilesystem(disk.FilesystemSpec{Partition: 0, FSType: fsTypeOf[typ], VolumeLabel: "B"})
		ok = err == nil
	})
	return ok
}

// c12Boundary finds the accept/refuse flips of CreateFilesystem(typ) by a geometric scan plus bisection - the
// thresholds are taken from the running code, so a threshold that moved is followed - and runs the full
// recognition case at every sector size around each flip.
func c12Boundary(c core.Case, env *core.Env, p c12Case) core.Result {
	var res core.Result
	var pts []int64
	for n := p.Lo; n <= p.Hi; n += n/24 + 1 {
		pts = append(pts, n)
	}
	var flips []int64 // first size of the new regime
	prev := c12Accepts(p.Type, p.Sector, pts[0])
	for i := 1; i < len(pts); i++ {
		cur := c12Accepts(p.Type, p.Sector, pts[i])
		res.Evals++
		if cur != prev {
			lo, hi := pts[i-1], pts[i] // accepts(lo)==prev, accepts(hi)==cur
			for hi-lo > 1 {
				mid := (lo + hi) / 2
				res.Evals++
				if c12Accepts(p.Type, p.Sector, mid) == prev {
					lo = mid
				} else {
					hi = mid
				}
			}
			flips = append(flips, hi)
			res.Mark(fmt.Sprintf("%s accept/refuse flip found", p.Type))
		}
		prev = cur
	}
	res.Count("boundary.flips."+p.Type, int64(len(flips)))
	done := map[int64]bool{}
	// the smallest ranges are always driven, whatever the thresholds: 1..64 sectors
	var sizes []int64
	for n := int64(1); n <= 64; n++ {
		sizes = append(sizes, n)
	}
	for _, f := range flips {
		for n := f - p.Win; n <= f+p.Win; n++ {
			sizes = append(sizes, n)
		}
	}
	for _, n := range sizes {
		{
			if n < 1 || done[n] {
				continue
			}
			done[n] = true
			q := c12Case{Type: p.Type, Where: p.Where, Size: n * int64(p.Sector), Sector: p.Sector, Label: "EDGE"}
			r := c12Run(core.MkCase(fmt.Sprintf("%s-%s-%dsect", p.Type, p.Where, n), "recognise-"+p.Type, c.Seed^n, q), env)
			for _, fd := range r.Findings {
				res.FailReplay(fd.Key, fd.Detail, fd.Witness, core.MkCase(fmt.Sprintf("%s-%s-%dsect", p.Type, p.Where, n), "recognise-"+p.Type, c.Seed^n, q))
			}
			for k, v := range r.Counters {
				res.Count(k, v)
			}
			res.Sigs = append(res.Sigs, r.Sigs...)
			for _, m := range r.Marks {
				res.Mark(m)
			}
			res.Evals++
			res.Count("boundary.sizes-checked."+p.Type, 1)
		}
	}
	res.Sample = map[string]any{"type": p.Type, "flips_first_sector_of_new_regime": flips}
	return res
}

func c12Run(c core.Case, env *core.Env) core.Result {
	var p c12Case
	c.Decode(&p)
	if p.Win > 0 {
		return c12Boundary(c, env, p)
	}
	var res core.Result
	fail := func(rule, cause, f string, a ...any) {
		res.Fail(fmt.Sprintf("C12/%s/%s/%s", p.Type, rule, cause), fmt.Sprintf(f, a...), p)
	}
	lss := int64(p.Sector)
	startSectors := int64(2048*512) / lss
	if p.StartAt > 0 && p.Where != "whole" {
		startSectors = p.StartAt / lss
		res.Mark("partition starts further into the disk than it is long")
	}
	devSize := p.Size
	part := 0
	if p.Where != "whole" {
		devSize = p.Size + startSectors*lss + 64*lss*2 + (1 << 20)
		part = 1
	}
	// the filesystem's partition is not the first one: an earlier small partition and, for gpt-gap, unused
	// entry slots in between (GPT entries keep their slot number)
	dummySectors := int64(0)
	switch p.Where {
	case "gpt-gap":
		part, dummySectors = 4, 64
	case "gpt-last-slot":
		part, dummySectors = 128, 64
	case "mbr-2nd":
		part, dummySectors = 2, 64
	}
	startSectors += dummySectors
	devSize += dummySectors * lss
	devSize = devSize / lss * lss
	st := monstore.NewMem(devSize)
	opt := sectorOpt(p.Sector)
	d, err := diskfs.OpenBackend(fileNewRW(st), opt)
	if err != nil {
		res.Inconclusive = "OpenBackend: " + err.Error()
		return res
	}
	sizeSectors := p.Size / lss
	switch p.PriorTable {
	case "mbr":
		d.Partition(&mbr.Table{LogicalSectorSize: p.Sector, PhysicalSectorSize: p.Sector, Partitions: []*mbr.Partition{{Index: 1, Type: mbr.Fat16, Start: 128, Size: 40000}, {Index: 2, Type: mbr.Linux, Start: 50000, Size: 1000}}})
		core.Guard(func() { c12Make(d, 1, "fat16", "OLDMBR", gen.PRFBytes(3, 5000)) })
		res.Mark("disk carried an MBR table before")
	case "gpt":
		d.Partition(&gpt.Table{LogicalSectorSize: p.Sector, PhysicalSectorSize: p.Sector, ProtectiveMBR: true, Partitions: []*gpt.Partition{{Index: 1, Start: 128, End: 40000, Type: gpt.LinuxFilesystem, Name: "old"}}})
		res.Mark("disk carried a GPT before")
	case "fat-wholedisk":
		core.Guard(func() { c12Make(d, 0, "fat32", "OLDWHOLE", gen.PRFBytes(4, 5000)) })
		res.Mark("disk carried a whole-disk FAT32 before")
	}
	switch p.Where {
	case "gpt-gap", "gpt-last-slot":
		t := &gpt.Table{LogicalSectorSize: p.Sector, PhysicalSectorSize: p.Sector, ProtectiveMBR: true,
			Partitions: []*gpt.Partition{
				{Index: 1, Start: uint64(startSectors - dummySectors), End: uint64(startSectors - 1), Type: gpt.LinuxFilesystem, Name: "first"},
				{Index: part, Start: uint64(startSectors), End: uint64(startSectors + sizeSectors - 1), Type: gpt.LinuxFilesystem, Name: "verif"}}}
		if err := d.Partition(t); err != nil {
			res.Inconclusive = "Partition(gpt with unused slots): " + err.Error()
			return res
		}
	case "mbr-2nd":
		t := &mbr.Table{LogicalSectorSize: p.Sector, PhysicalSectorSize: p.Sector,
			Partitions: []*mbr.Partition{{Index: 1, Type: mbr.Linux, Start: uint32(startSectors - dummySectors), Size: uint32(dummySectors)},
				{Index: 2, Type: mbr.Linux, Start: uint32(startSectors), Size: uint32(sizeSectors)}}}
		if err := d.Partition(t); err != nil {
			res.Inconclusive = "Partition(mbr, two partitions): " + err.Error()
			return res
		}
	case "gpt":
		t := &gpt.Table{LogicalSectorSize: p.Sector, PhysicalSectorSize: p.Sector, ProtectiveMBR: !p.NoPMBR,
			Partitions: []*gpt.Partition{{Index: 1, Start: uint64(startSectors), End: uint64(startSectors + sizeSectors - 1), Type: gpt.LinuxFilesystem, Name: "verif"}}}
		if err := d.Partition(t); err != nil {
			res.Inconclusive = "Partition(gpt): " + err.Error()
			return res
		}
	case "mbr":
		t := &mbr.Table{LogicalSectorSize: p.Sector, PhysicalSectorSize: p.Sector,
			Partitions: []*mbr.Partition{{Index: 1, Type: mbr.Linux, Start: uint32(startSectors), Size: uint32(sizeSectors)}}}
		if err := d.Partition(t); err != nil {
			res.Inconclusive = "Partition(mbr): " + err.Error()
			return res
		}
	}
	content := gen.PRFBytes(uint64(c.Seed), 3000)
	if p.Prior != "" {
		var perr error
		if pi := core.Guard(func() { perr = c12Make(d, part, p.Prior, "OLDLABEL", gen.PRFBytes(7, 70000)) }); pi != nil || perr != nil {
			res.Count("prior.refused", 1)
			res.Sample = map[string]any{"case": p, "prior_error": fmt.Sprint(perr)}
			return res
		}
		res.Mark("stale " + p.Prior + " under " + p.Type)
	}
	if p.Type != "blank" {
		var merr error
		if pi := core.Guard(func() { merr = c12Make(d, part, p.Type, p.Label, content) }); pi != nil {
			fail("create-panic", pi.Top+":"+pi.Class, "CreateFilesystem panicked: %s", pi.Msg)
			return res
		}
		if merr != nil {
			res.Count("create.refused."+p.Type, 1)
			res.Mark("create refused " + p.Type)
			res.Sample = map[string]any{"case": p, "create_error": merr.Error()}
			return res
		}
		res.Count("create.accepted."+p.Type, 1)
	}
	// ---- fresh disk on the same bytes ----
	d2, err := diskfs.OpenBackend(fileNewRO(st), opt)
	if err != nil {
		fail("reopen-error", "OpenBackend", "OpenBackend on the written image failed: %v", err)
		return res
	}
	priorCause := "no-stale-bytes"
	if p.Prior != "" {
		priorCause = "stale-" + p.Prior
	}
	if p.Where != "whole" {
		var tb partition.Table
		var terr error
		if pi := core.Guard(func() { tb, terr = d2.GetPartitionTable() }); pi != nil {
			fail("table-panic", pi.Top, "GetPartitionTable panicked: %s", pi.Msg)
			return res
		}
		if terr != nil {
			fail("table-not-recognised", p.Where, "a %s disk is reported as having no table: %v", p.Where, terr)
			return res
		}
		wantTable := strings.SplitN(p.Where, "-", 2)[0]
		if wantTable == "mbr" && p.PriorTable == "gpt" && tb.Type() == "gpt" {
			// an MBR written over a GPT leaves the GPT headers in place (writing a table touches only its own
			// sectors, C03), and the bytes are then the same as those of a GPT written without protective MBR
			// over an old MBR, which must be reported as GPT: no reader can tell the two apart. Recorded, not
			// demanded (as in C02).
			res.Count("recorded_not_demanded.mbr_over_stale_gpt_reported_as_gpt", 1)
			res.Sig(p)
			return res
		}
		if tb.Type() != wantTable {
			fail("table-type", wantTable+"-reported-as-"+tb.Type(), "a %s disk is reported as %s", wantTable, tb.Type())
			return res
		}
		res.Count("table.recognised."+wantTable, 1)
		if p.Where == "gpt-gap" && p.Type != "blank" {
			// an unused entry slot is not a partition
			var e2 error
			var f2 filesystem.FileSystem
			core.Guard(func() { f2, e2 = d2.GetFilesystem(2) })
			if e2 == nil && f2 != nil {
				fail("unused-slot-has-filesystem", "gpt-slot-2-of-1-and-4", "GetFilesystem(2) on an unused GPT entry slot returns a %s filesystem (partitions 1 and 4 exist)", fsTypeName(f2.Type()))
				return res
			}
		}
	}
	var fs filesystem.FileSystem
	var gerr error
	if pi := core.Guard(func() { fs, gerr = d2.GetFilesystem(part) }); pi != nil {
		fail("getfilesystem-panic", pi.Top+":"+pi.Class, "GetFilesystem panicked: %s", pi.Msg)
		return res
	}
	if p.Type == "blank" {
		var ufe *disk.UnknownFilesystemError
		if gerr == nil {
			fail("blank-recognised", "as-"+fsTypeName(fs.Type())+"/"+priorCause, "a blank range is reported as a %s filesystem", fsTypeName(fs.Type()))
		} else if !errors.As(gerr, &ufe) {
			fail("blank-error-kind", "not-unknown-filesystem", "a blank range gives %v instead of the unknown-filesystem error", gerr)
		}
		res.Sig(p)
		res.Mark("blank range")
		return res
	}
	if gerr != nil {
		// ask the type's own reader why it refuses, for the report
		if pt, e := d2.GetPartition(part); e == nil || part == 0 {
			start, size := int64(0), devSize
			if part != 0 {
				start, size = pt.GetStart(), pt.GetSize()
			}
			var derr error
			core.Guard(func() {
				switch p.Type {
				case "iso9660":
					_, derr = iso9660.Read(fileNewRO(st), size, start, 0)
				case "squashfs":
					_, derr = squashfs.Read(fileNewRO(st), size, start, lss)
				}
			})
			if derr != nil {
				gerr = fmt.Errorf("%v (the %s reader says: %v)", gerr, p.Type, derr)
			}
		}
		fail("not-recognised", priorCause, "a %s filesystem (%s, %d bytes, sector %d) is not recognised on a freshly opened disk: %v", p.Type, p.Where, p.Size, p.Sector, gerr)
		return res
	}
	if got := fsTypeName(fs.Type()); got != p.Type {
		fail("wrong-type", "reported-as-"+got+"/"+priorCause, "a filesystem created as %s (%s, %d bytes) is reported as %s", p.Type, p.Where, p.Size, got)
		return res
	}
	res.Count("type.recognised."+p.Type, 1)
	if p.Type != "squashfs" {
		got := strings.TrimRight(fs.Label(), " \x00")
		want := strings.TrimRight(p.Label, " ")
		if len(want) > 11 && strings.HasPrefix(p.Type, "fat") {
			want = want[:11]
		}
		if p.Type == "ext4" && len(want) > 16 {
			want = want[:16]
		}
		if p.Type == "iso9660" && want == "" {
			want = got // the library substitutes a default volume identifier
		}
		if strings.HasPrefix(p.Type, "fat") && want == "" {
			want = "NO NAME"
		}
		if p.Type == "ext4" && want == "" {
			// an empty VolumeLabel is the zero value = "not specified"; the library documents and
			// substitutes ext4.DefaultVolumeName, like mkfs.fat's NO NAME
			want = "diskfs_ext4"
		}
		if got != want {
			fail("label", p.Type, "label %q reads back as %q", p.Label, fs.Label())
		}
	}
	var data []byte
	var rerr error
	if pi := core.Guard(func() { data, rerr, _ = readAllFS(fs, "HELLO.TXT", len(content)) }); pi != nil {
		fail("content-panic", pi.Top+":"+pi.Class, "reading HELLO.TXT panicked: %s", pi.Msg)
		return res
	}
	if rerr != nil {
		fail("content-error", priorCause, "reading HELLO.TXT from the recognised %s filesystem failed: %v", p.Type, rerr)
	} else if !bytes.Equal(data, content) {
		fail("content-differs", priorCause, "HELLO.TXT reads back differently (%d vs %d bytes)", len(data), len(content))
	}
	res.Sig(p)
	res.Mark(p.Type + " on " + p.Where)
	res.Sample = p
	return res
}

func readAllFS(fs filesystem.FileSystem, p string, expect int) ([]byte, error, int) {
	f, err := fs.OpenFile(p, os.O_RDONLY)
	if err != nil {
		return nil, err, 0
	}
	defer f.Close()
	buf := make([]byte, 0, expect)
	tmp := make([]byte, 32<<10)
	zero := 0
	for steps := 0; steps < 100000; steps++ {
		n, e := f.Read(tmp)
		buf = append(buf, tmp[:n]...)
		if e != nil {
			if e.Error() == "EOF" {
				return buf, nil, steps
			}
			return buf, e, steps
		}
		if n == 0 {
			zero++
			if zero > 8 {
				return buf, errors.New("no progress"), steps
			}
		}
		if len(buf) > expect*2+1<<20 {
			return buf, errors.New("unbounded data"), steps
		}
	}
	return buf, errors.New("too many steps"), 0
}

func c12Cases(seed int64, tier string) []core.Case {
	r := gen.New(seed ^ 0xC12)
	var cs []core.Case
	add := func(p c12Case) {
		cs = append(cs, core.MkCase(fmt.Sprintf("%s-%s-%d", p.Type, p.Where, len(cs)), "recognise-"+p.Type, r.Int63(), p))
	}
	sectorFor := func(t string) int {
		if t == "iso9660" || t == "squashfs" {
			return 4096
		}
		return 512
	}
	sizes := map[string][]int64{
		"fat12":    {1474560, 4 << 20, 8<<20 - 512, 16 << 20, 32 << 20},
		"fat16":    {5 << 20, 9 << 20, 16 << 20, 33 << 20, 129 << 20, 512 << 20},
		"fat32":    {2 << 20, 33 << 20, 64 << 20, 261 << 20, 1 << 30},
		"ext4":     {8 << 20, 16 << 20, 64 << 20},
		"iso9660":  {4 << 20, 16 << 20},
		"squashfs": {4 << 20, 16 << 20},
	}
	if tier == "thorough" {
		// sizes across the FAT cluster-count thresholds, found by stepping
		for s := int64(1 << 20); s <= 40<<20; s += 1<<20 + 512*7 {
			sizes["fat12"] = append(sizes["fat12"], s)
			sizes["fat16"] = append(sizes["fat16"], s+3<<20)
			sizes["fat32"] = append(sizes["fat32"], s)
		}
		sizes["fat16"] = append(sizes["fat16"], 1<<30, 2<<30-512)
		sizes["ext4"] = append(sizes["ext4"], 6<<20, 33<<20+1024, 200<<20)
	}
	labels := []string{"", "LABEL", "elevenchars", "lower case", "A B", "MY DISK 01", "SEVEN77 X"}
	types := []string{"fat12", "fat16", "fat32", "ext4", "iso9660", "squashfs"}
	for _, t := range types {
		for i, sz := range sizes[t] {
			for j, w := range []string{"whole", "gpt", "mbr"} {

				add(c12Case{Type: t, Where: w, Size: sz, Sector: sectorFor(t), Label: labels[(i+j)%len(labels)]})
			}
			if i <= 1 || tier == "thorough" {
				for j, w := range []string{"gpt-gap", "gpt-last-slot", "mbr-2nd"} {
					add(c12Case{Type: t, Where: w, Size: sz, Sector: sectorFor(t), Label: labels[(i+j+1)%len(labels)]})
				}
			}
		}
	}
	// stale bytes: every ordered pair (previous type -> new type), same range, no wiping
	for _, prev := range types {
		for _, t := range types {
			if prev == t {
				continue
			}
			sec := sectorFor(t)
			if sectorFor(prev) != sec {
				// both filesystems must be creatable through the same disk: use 4096-byte sectors when either needs them
				sec = 4096
				if strings.HasPrefix(t, "fat1") || strings.HasPrefix(prev, "fat1") || t == "ext4" || prev == "ext4" {
					continue // fat12/fat16/ext4 only accept 512-byte sectors: the pair cannot share a disk
				}
			}
			for _, w := range []string{"whole", "gpt"} {

				add(c12Case{Type: t, Where: w, Size: 16 << 20, Sector: sec, Label: "NEW", Prior: prev})
			}
			// the same in a partition that lies further into the disk than it is long (any second partition of
			// equal size does), as the only partition and as the second one
			add(c12Case{Type: t, Where: "gpt", StartAt: 24 << 20, Size: 16 << 20, Sector: sec, Label: "NEW", Prior: prev})
			if sec == 512 {
				add(c12Case{Type: t, Where: "mbr-2nd", StartAt: 40 << 20, Size: 16 << 20, Sector: sec, Label: "NEW", Prior: prev})
			}
		}
	}
	// re-partitioned disks: the table that is there now decides, whatever the disk carried before
	for i, v := range []c12Case{
		{Type: "ext4", Where: "gpt", NoPMBR: true, PriorTable: "mbr"}, {Type: "fat16", Where: "gpt", NoPMBR: true, PriorTable: "fat-wholedisk"},
		{Type: "fat32", Where: "gpt", PriorTable: "mbr"}, {Type: "fat32", Where: "gpt", NoPMBR: true},
		{Type: "fat16", Where: "mbr", PriorTable: "gpt"}, {Type: "ext4", Where: "mbr", PriorTable: "fat-wholedisk"},
		{Type: "blank", Where: "gpt", NoPMBR: true, PriorTable: "mbr"}, {Type: "blank", Where: "mbr", PriorTable: "gpt"},
	} {
		v.Size, v.Sector, v.Label = 34<<20, 512, "REPART"
		cs = append(cs, core.MkCase(fmt.Sprintf("repartitioned-%d-%s-over-%s", i, v.Where, v.PriorTable), "recognise-"+v.Type, r.Int63(), v))
	}
	// accept/refuse thresholds of the FAT types, located at run time, every sector size around them
	win := int64(48)
	wheres := []string{"whole"}
	if tier == "thorough" {
		win = 160
		wheres = []string{"whole", "gpt", "mbr"}
	}
	for _, w := range wheres {
		for _, b := range []struct {
			t      string
			lo, hi int64
		}{{"fat12", 1, 300000}, {"fat16", 1, 5000000}, {"fat32", 1, 3000000}, {"ext4", 1, 400000}, {"iso9660", 1, 3000}, {"squashfs", 1, 3000}} {
			cs = append(cs, core.MkCase(fmt.Sprintf("boundary-%s-%s", b.t, w), "boundary-"+b.t, r.Int63(), c12Case{Type: b.t, Where: w, Sector: sectorFor(b.t), Lo: b.lo, Hi: b.hi, Win: win}))
		}
	}
	// blank ranges, also with a removed-table device
	for _, w := range []string{"whole", "gpt", "mbr"} {
		for _, sec := range []int{512, 4096} {
			add(c12Case{Type: "blank", Where: w, Size: 8 << 20, Sector: sec})
		}
	}
	return cs
}

func init() {
	core.Register(&core.Check{
		ID:          "C12",
		Level:       "exploration",
		Rule:        "disk.CreateFilesystem(T, label) for T in {fat12, fat16, fat32, ext4, iso9660, squashfs} on the whole disk, in a GPT partition and in an MBR partition of a store-backed disk (also as GPT entry 4 with slots 2-3 unused - slot 2 must then not be a partition -, as GPT entry 128, and as the second MBR partition) (512-byte sectors; 4096 for iso9660/squashfs), sizes bracketing each type's limits and (thorough) stepping across the FAT cluster-count thresholds, labels {empty, upper, 11 chars, lower case, with a space, with a space at the 8th place}; disks that carried another table (MBR under a GPT written with and without protective MBR, GPT under an MBR, a whole-disk FAT32 under either) before being partitioned; for the FAT types the sizes where CreateFilesystem flips between refusing and accepting are located at run time (geometric scan + bisection on a whole-disk range) and every sector size within +-48 (thorough +-160, also in partitions) of each flip is driven; one file is written (and the image finalized where needed); a freshly opened disk on the same bytes must report the table type, GetFilesystem(n).Type()==T, the label and the file's content; every ordered pair (previous type -> new type) is created in the same range without wiping - on the whole disk, in the usual first partition, and in partitions that start further into the disk than they are long (24 MiB and, as second MBR partition, 40 MiB into the disk for 16 MiB); blank ranges must give the unknown-filesystem error. Non-trivial = filesystem accepted by CreateFilesystem and re-opened; distinct = distinct configuration",
		Assumptions: []string{"fat12/fat16/ext4 accept only 512-byte sectors and iso9660/squashfs need 2048+/4096: stale-bytes pairs that cannot share a disk are not driven", "a refusal by CreateFilesystem is an observation", "an MBR written over a GPT is still reported as GPT (the stale GPT headers are outside the MBR's own sectors and the bytes are indistinguishable from a GPT without protective MBR over an old MBR): recorded, not demanded"},
		MinSigs:     map[string]int{"quick": 70, "thorough": 250},
		NeedMarks:   []string{"fat12 on gpt-gap", "fat32 on gpt-last-slot", "ext4 on mbr-2nd", "fat12 accept/refuse flip found", "fat16 accept/refuse flip found", "fat32 accept/refuse flip found", "fat12 on whole", "fat16 on gpt", "fat32 on mbr", "ext4 on gpt", "iso9660 on whole", "squashfs on whole", "blank range", "partition starts further into the disk than it is long"},
		CPUSec:      600,
		Cases:       c12Cases,
		Run:         c12Run,
	})
}

var _ = monstore.NewMem
