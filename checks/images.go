package checks

import (
	"fmt"
	"os"
	"path/filepath"
	"sort"
	"strings"
	"time"

	"github.com/diskfs/go-diskfs/backend/file"
	"github.com/diskfs/go-diskfs/filesystem"
	"github.com/diskfs/go-diskfs/filesystem/ext4"
	"github.com/diskfs/go-diskfs/filesystem/iso9660"
	"github.com/diskfs/go-diskfs/filesystem/squashfs"

	"verif/internal/core"
	"verif/internal/gen"
	"verif/internal/monstore"
)

// TNode is one node of a generated source tree.
type TNode struct {
	Path string `json:"path"`
	Dir  bool   `json:"dir,omitempty"`
	Link string `json:"link,omitempty"`
	Size int    `json:"size,omitempty"`
	Seed uint64 `json:"seed,omitempty"`
	Kind string `json:"kind,omitempty"` // content kind: prf | zeros | text | sparse
	Mode uint32 `json:"mode,omitempty"` // permission bits incl. setuid/setgid/sticky (0 = default)
	UID  int    `json:"uid,omitempty"`
	GID  int    `json:"gid,omitempty"`
	MTime int64 `json:"mtime,omitempty"`
}

// Content returns the bytes of a file node: a path-derived header followed by the body.
func (n TNode) Content() []byte {
	if n.Dir || n.Link != "" {
		return nil
	}
	hdr := []byte("<<" + n.Path + ">>")
	out := make([]byte, n.Size)
	switch n.Kind {
	case "zeros":
	case "text":
		pat := []byte("the quick brown fox jumps over the lazy dog\n")
		for i := range out {
			out[i] = pat[i%len(pat)]
		}
	case "sparse":
		// data at the start and end, zeros in between
		b := gen.PRFBytes(n.Seed, n.Size)
		for i := range out {
			if i < 512 || i >= n.Size-700 {
				out[i] = b[i]
			}
		}
	default:
		copy(out, gen.PRFBytes(n.Seed, n.Size))
	}
	if n.Kind != "zeros" {
		copy(out, hdr)
	}
	return out
}

type Tree []TNode

func (t Tree) Sorted() Tree {
	c := append(Tree(nil), t...)
	sort.Slice(c, func(i, j int) bool { return c[i].Path < c[j].Path })
	return c
}

func (t Tree) Find(p string) *TNode {
	for i := range t {
		if t[i].Path == p {
			return &t[i]
		}
	}
	return nil
}

// populate writes the tree through the filesystem API (parents first).
func populate(fs filesystem.FileSystem, t Tree) error {
	for _, n := range t.Sorted() {
		switch {
		case n.Dir:
			if err := fs.Mkdir(n.Path); err != nil {
				return fmt.Errorf("mkdir %s: %w", n.Path, err)
			}
		case n.Link != "":
			if err := fs.Symlink(n.Link, n.Path); err != nil {
				return fmt.Errorf("symlink %s: %w", n.Path, err)
			}
		default:
			f, err := fs.OpenFile(n.Path, os.O_CREATE|os.O_RDWR)
			if err != nil {
				return fmt.Errorf("create %s: %w", n.Path, err)
			}
			if n.Size > 0 {
				if _, err := f.Write(n.Content()); err != nil {
					f.Close()
					return fmt.Errorf("write %s: %w", n.Path, err)
				}
			}
			if err := f.Close(); err != nil {
				return fmt.Errorf("close %s: %w", n.Path, err)
			}
		}
	}
	return nil
}

// populateWorkspace writes the tree into a host directory (iso9660/squashfs workspaces), including
// symlinks, modes, owners and times.
func populateWorkspace(ws string, t Tree) error {
	st := t.Sorted()
	for _, n := range st {
		p := filepath.Join(ws, filepath.FromSlash(n.Path))
		switch {
		case n.Dir:
			if err := os.MkdirAll(p, 0o755); err != nil {
				return err
			}
		case n.Link != "":
			if err := os.Symlink(n.Link, p); err != nil {
				return err
			}
		default:
			if err := os.MkdirAll(filepath.Dir(p), 0o755); err != nil {
				return err
			}
			if err := os.WriteFile(p, n.Content(), 0o644); err != nil {
				return err
			}
		}
	}
	// attributes, deepest first so that directory times survive
	for i := len(st) - 1; i >= 0; i-- {
		n := st[i]
		p := filepath.Join(ws, filepath.FromSlash(n.Path))
		if n.UID != 0 || n.GID != 0 {
			if err := os.Lchown(p, n.UID, n.GID); err != nil {
				return err
			}
		}
		if n.Mode != 0 && n.Link == "" {
			m := os.FileMode(n.Mode & 0o777)
			if n.Mode&0o4000 != 0 {
				m |= os.ModeSetuid
			}
			if n.Mode&0o2000 != 0 {
				m |= os.ModeSetgid
			}
			if n.Mode&0o1000 != 0 {
				m |= os.ModeSticky
			}
			if err := os.Chmod(p, m); err != nil {
				return err
			}
		}
		if n.MTime != 0 && n.Link == "" {
			tm := time.Unix(n.MTime, 0)
			if err := os.Chtimes(p, tm, tm); err != nil {
				return err
			}
		}
	}
	return nil
}

// ---- builders ----

type ISOOpts struct {
	RockRidge bool   `json:"rr,omitempty"`
	Joliet    bool   `json:"joliet,omitempty"`
	Deep      bool   `json:"deep,omitempty"`
	VolID     string `json:"volid,omitempty"`
	Block     int64  `json:"block,omitempty"`
}

func buildISO(st *monstore.Store, size, start int64, o ISOOpts, t Tree) (err error) {
	if o.Block == 0 {
		o.Block = 2048
	}
	fs, err := iso9660.Create(file.New(st, false), size, start, o.Block, "")
	if err != nil {
		return fmt.Errorf("create: %w", err)
	}
	defer fs.Close()
	if err := populateWorkspace(fs.Workspace(), t); err != nil {
		return fmt.Errorf("populate: %w", err)
	}
	return fs.Finalize(iso9660.FinalizeOptions{RockRidge: o.RockRidge, Joliet: o.Joliet, DeepDirectories: o.Deep, VolumeIdentifier: o.VolID})
}

type SqOpts struct {
	Comp        string `json:"comp,omitempty"` // none gzip xz lz4 zstd lzma
	NoFragments bool   `json:"nofrag,omitempty"`
	NoPad       bool   `json:"nopad,omitempty"`
	NoCompInodes bool  `json:"nci,omitempty"`
	NoCompData  bool   `json:"ncd,omitempty"`
	NoCompFrags bool   `json:"ncf,omitempty"`
	NonSparse   bool   `json:"nonsparse,omitempty"`
	Xattrs      bool   `json:"xattrs,omitempty"`
	Block       int64  `json:"block,omitempty"`
}

func (o SqOpts) finalize() squashfs.FinalizeOptions {
	fo := squashfs.FinalizeOptions{NoFragments: o.NoFragments, NoPad: o.NoPad, NoCompressInodes: o.NoCompInodes, NoCompressData: o.NoCompData, NoCompressFragments: o.NoCompFrags, NonSparse: o.NonSparse, Xattrs: o.Xattrs}
	switch o.Comp {
	case "none":
		fo.NoCompressInodes, fo.NoCompressData, fo.NoCompressFragments, fo.NoCompressXattrs = true, true, true, true
	case "", "gzip":
		fo.Compression = &squashfs.CompressorGzip{CompressionLevel: 9, WindowSize: 15}
	case "xz":
		fo.Compression = &squashfs.CompressorXz{}
	case "lz4":
		fo.Compression = &squashfs.CompressorLz4{}
	case "zstd":
		fo.Compression = &squashfs.CompressorZstd{}
	case "lzma":
		fo.Compression = &squashfs.CompressorLzma{}
	}
	return fo
}

func buildSquash(st *monstore.Store, size, start int64, o SqOpts, t Tree) error {
	if o.Block == 0 {
		o.Block = 4096
	}
	fs, err := squashfs.Create(file.New(st, false), size, start, o.Block)
	if err != nil {
		return fmt.Errorf("create: %w", err)
	}
	defer fs.Close()
	if err := populateWorkspace(fs.Workspace(), t); err != nil {
		return fmt.Errorf("populate: %w", err)
	}
	return fs.Finalize(o.finalize())
}

func buildExt4(st *monstore.Store, size, start int64, p *ext4.Params, t Tree) (*ext4.FileSystem, error) {
	fs, err := ext4.Create(file.New(st, false), size, start, 512, p)
	if err != nil {
		return nil, fmt.Errorf("create: %w", err)
	}
	if err := populate(fs, t); err != nil {
		return fs, err
	}
	return fs, nil
}

// guardErr runs f converting a panic into an error that names the panic site.
func guardErr(f func() error) (err error, pi *core.PanicInfo) {
	pi = core.Guard(func() { err = f() })
	return
}

// genTree makes a seeded tree: nDirs directories up to depth, nFiles files with boundary sizes.
type TreeCfg struct {
	Dirs, Files, Depth int
	Unit           int      // block/cluster/fragment size the sizes cluster around
	Names          []string // optional name pool
	Symlinks       int
	MaxSize        int
	LongNames      bool
	Unicode        bool
}

func genTree(r gen.R, c TreeCfg) Tree {
	var t Tree
	dirs := []string{""}
	word := func() string {
		if len(c.Names) > 0 {
			return gen.Pick(r, c.Names)
		}
		n := r.Range(1, 10)
		if c.LongNames && r.Chance(0.2) {
			n = r.Range(20, 60)
		}
		b := make([]byte, n)
		for i := range b {
			b[i] = "abcdefghijklmnopqrstuvwxyzABCDEFGHIJKLMNOPQRSTUVWXYZ0123456789_-"[r.Intn(64)]
		}
		s := string(b)
		if c.Unicode && r.Chance(0.15) {
			s += gen.Pick(r, []string{"é", "ü", "文", "ж", "ñ"})
		}
		return s
	}
	used := map[string]bool{}
	uniq := func(dir, base string) string {
		p := base
		if dir != "" {
			p = dir + "/" + base
		}
		for i := 0; used[strings.ToLower(p)]; i++ {
			p = fmt.Sprintf("%s%d", p, i)
		}
		used[strings.ToLower(p)] = true
		return p
	}
	for i := 0; i < c.Dirs; i++ {
		parent := gen.Pick(r, dirs)
		if strings.Count(parent, "/")+1 >= c.Depth && parent != "" {
			parent = ""
		}
		p := uniq(parent, "d"+word())
		t = append(t, TNode{Path: p, Dir: true})
		dirs = append(dirs, p)
	}
	u := c.Unit
	if u == 0 {
		u = 4096
	}
	sizes := []int{0, 1, 7, 511, 512, 513, u - 1, u, u + 1, 2 * u, 2*u + 1, 3*u + 5, 5*u - 1, 17 * u}
	for i := 0; i < c.Files; i++ {
		sz := sizes[(i+r.Intn(3))%len(sizes)]
		if c.MaxSize > 0 && sz > c.MaxSize {
			sz = c.MaxSize
		}
		name := "f" + word()
		if r.Chance(0.7) {
			name += "." + gen.Pick(r, []string{"txt", "dat", "bin", "c", "conf"})
		}
		p := uniq(gen.Pick(r, dirs), name)
		kind := gen.Pick(r, []string{"prf", "prf", "text", "zeros", "sparse"})
		t = append(t, TNode{Path: p, Size: sz, Seed: r.Uint64(), Kind: kind})
	}
	for i := 0; i < c.Symlinks; i++ {
		p := uniq(gen.Pick(r, dirs), "l"+word())
		tgt := gen.Pick(r, []string{"target", "../up/one", "/abs/olute/path", "./a/b/../c", "x"})
		t = append(t, TNode{Path: p, Link: tgt})
	}
	return t
}
