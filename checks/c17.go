//go:build verif

package checks

import (
	"bytes"
	"fmt"
	"io"
	"os"
	"runtime"
	"sync"
	"sync/atomic"
	"time"

	"github.com/diskfs/go-diskfs/filesystem/squashfs"

	"verif/internal/core"
	"verif/internal/gen"
	"verif/internal/monstore"
)

type c17Batch struct {
	Readers   int   `json:"readers"`
	Procs     int   `json:"gomaxprocs"`
	Cache     int   `json:"cache_blocks"` // -1 default, 0, 1, 3
	Resizers  int   `json:"resizers"`
	YieldPct  int   `json:"yield_pct"` // probability (%) of a yield/sleep at each hook point and ReadAt
	SlowFetch bool  `json:"slow_fetch"`
	Reads     int   `json:"reads_per_reader"`
	Seed      int64 `json:"seed"`
}

type c17Case struct {
	Comp    string     `json:"comp"`
	Batches []c17Batch `json:"batches"`
}

func c17Tree() Tree {
	var t Tree
	t = append(t, TNode{Path: "small", Dir: true}, TNode{Path: "big", Dir: true})
	for i := 0; i < 60; i++ {
		t = append(t, TNode{Path: fmt.Sprintf("small/f%02d", i), Size: 100 + i*37, Seed: uint64(i + 1), Kind: []string{"prf", "text"}[i%2]})
	}
	for i, sz := range []int{4096, 4097, 3*4096 + 100, 40000, 131072 + 5, 20000} {
		t = append(t, TNode{Path: fmt.Sprintf("big/b%d", i), Size: sz, Seed: uint64(100 + i), Kind: []string{"prf", "sparse", "text"}[i%3]})
	}
	return t
}

func c17Run(c core.Case, env *core.Env) core.Result {
	var p c17Case
	c.Decode(&p)
	var res core.Result
	os.Chdir(env.Scratch)
	tree := c17Tree()
	size := int64(16 << 20)
	st := monstore.NewMem(size)
	if err, pi := guardErr(func() error { return buildSquash(st, size, 0, SqOpts{Comp: p.Comp, Block: 4096}, tree) }); err != nil || pi != nil {
		res.Inconclusive = fmt.Sprintf("could not build the image: %v %v", err, pi)
		return res
	}
	content := map[string][]byte{}
	var names []string
	for _, n := range tree {
		if !n.Dir {
			content[n.Path] = n.Content()
			names = append(names, n.Path)
		}
	}
	for bi, b := range p.Batches {
		c17RunBatch(&res, c, p, bi, b, st, size, names, content)
		if len(res.Findings) > 0 {
			break
		}
	}
	res.Evals = int64(len(p.Batches))
	res.Sample = map[string]any{"comp": p.Comp, "first_batch": p.Batches[0]}
	return res
}

func c17RunBatch(res *core.Result, c core.Case, p c17Case, bi int, b c17Batch, st *monstore.Store, size int64, names []string, content map[string][]byte) {
	replay := core.MkCase(fmt.Sprintf("batch-%s", core.Hash(p.Comp, b)), c.Kind, c.Seed, c17Case{Comp: p.Comp, Batches: []c17Batch{b}})
	fail := func(rule, cause, f string, a ...any) {
		res.FailReplay(fmt.Sprintf("C17/squashfs/%s/%s", rule, cause), fmt.Sprintf(f, a...), b, replay)
	}
	prev := runtime.GOMAXPROCS(b.Procs)
	defer runtime.GOMAXPROCS(prev)
	fs, err := squashfs.Read(fileNewRO(st), size, 0, 4096)
	if err != nil {
		fail("reopen-error", p.Comp, "squashfs.Read failed: %v", err)
		return
	}
	switch {
	case b.Cache >= 0:
		fs.SetCacheSize(b.Cache * 4096)
	}
	// ---- monitors: hook events, in-flight set, counters (all thread-safe) ----
	var (
		mu        sync.Mutex
		inflight  = map[int64]int{}
		fetches   = map[int64]int{}
		events    []string
		enterWait atomic.Int64
		dupFetch  atomic.Int64
		resizeDur atomic.Int64
		hookCalls atomic.Int64
		slowPos   atomic.Int64
	)
	slowPos.Store(-1)
	perturb := func(salt int64) {
		if b.YieldPct <= 0 {
			return
		}
		x := uint64(hookCalls.Add(1))*0x9E3779B97F4A7C15 + uint64(b.Seed) + uint64(salt)
		x ^= x >> 29
		x *= 0xBF58476D1CE4E5B9
		x ^= x >> 32
		if int(x%100) < b.YieldPct {
			if x&0x700 == 0 {
				time.Sleep(time.Duration(50+x%200) * time.Microsecond)
			} else {
				runtime.Gosched()
			}
		}
	}
	squashfs.SetVerifHook(func(name string, pos int64) {
		mu.Lock()
		switch name {
		case "get.enter":
			if inflight[pos] > 0 {
				enterWait.Add(1)
			}
		case "get.beforeFetch":
			inflight[pos]++
			fetches[pos]++
			if fetches[pos] > 1 {
				dupFetch.Add(1)
			}
		case "get.afterFetch":
			inflight[pos]--
		}
		if len(events) < 64 {
			events = append(events, fmt.Sprintf("%s@%d", name[4:], pos))
		}
		mu.Unlock()
		if name == "get.afterHandover" || name == "get.beforeFetch" {
			perturb(pos)
		}
	})
	defer squashfs.SetVerifHook(nil)
	st.ReadHook = func(off int64, n int) {
		perturb(off)
		if b.SlowFetch {
			sp := slowPos.Load()
			if sp < 0 {
				slowPos.CompareAndSwap(-1, off)
			} else if off == sp {
				time.Sleep(2 * time.Millisecond)
			}
		}
	}
	defer func() { st.ReadHook = nil }()

	var completed atomic.Int64
	var stop atomic.Bool
	type problem struct{ rule, cause, detail string }
	probCh := make(chan problem, 64)
	report := func(rule, cause, f string, a ...any) {
		select {
		case probCh <- problem{rule, cause, fmt.Sprintf(f, a...)}:
		default:
		}
		stop.Store(true)
	}
	var wg sync.WaitGroup
	for g := 0; g < b.Readers; g++ {
		wg.Add(1)
		go func(g int) {
			defer wg.Done()
			defer func() {
				if r := recover(); r != nil {
					buf := make([]byte, 4096)
					n := runtime.Stack(buf, false)
					report("reader-panic", core.Hash(fmt.Sprint(r))[:8], "reader %d panicked: %v\n%s", g, r, buf[:n])
				}
			}()
			r := gen.New(b.Seed*1000 + int64(g))
			for i := 0; i < b.Reads && !stop.Load(); i++ {
				name := names[r.Intn(len(names))]
				if g%3 == 0 {
					name = names[(g+i)%len(names)] // some readers go through the files in order
				}
				want := content[name]
				f, err := fs.OpenFile(name, os.O_RDONLY)
				if err != nil {
					report("open-error", "concurrent-open", "reader %d: OpenFile(%s): %v", g, name, err)
					return
				}
				if r.Chance(0.5) {
					// whole file, in odd-sized pieces
					var got []byte
					buf := make([]byte, 1+r.Intn(9000))
					// bounded by the file's size (a one-byte buffer needs one call per byte), not by a fixed count
					for k := 0; k < len(want)+16; k++ {
						n, e := f.Read(buf)
						got = append(got, buf[:n]...)
						if e == io.EOF {
							break
						}
						if e != nil {
							report("read-error", "sequential", "reader %d: Read(%s): %v", g, name, e)
							f.Close()
							return
						}
					}
					if !bytes.Equal(got, want) {
						report("wrong-bytes", "sequential-read", "reader %d: %s: %d bytes read, first difference at %d of %d", g, name, len(got), firstDiffBytes(got, want), len(want))
						f.Close()
						return
					}
				} else if len(want) > 0 {
					off := int64(r.Intn(len(want)))
					ln := 1 + r.Intn(6000)
					if _, e := f.Seek(off, io.SeekStart); e != nil {
						report("seek-error", "random", "reader %d: Seek(%s,%d): %v", g, name, off, e)
						f.Close()
						return
					}
					buf := make([]byte, ln)
					n, e := io.ReadFull(f, buf)
					if e != nil && e != io.EOF && e != io.ErrUnexpectedEOF {
						report("read-error", "random", "reader %d: Read(%s@%d): %v", g, name, off, e)
						f.Close()
						return
					}
					end := off + int64(n)
					if end > int64(len(want)) || !bytes.Equal(buf[:n], want[off:end]) || (n < ln && end != int64(len(want))) {
						report("wrong-bytes", "random-read", "reader %d: %s@%d: got %d bytes that differ from what a sequential reader gets", g, name, off, n)
						f.Close()
						return
					}
				}
				f.Close()
				completed.Add(1)
			}
		}(g)
	}
	// resizers
	var rwg sync.WaitGroup
	for z := 0; z < b.Resizers; z++ {
		rwg.Add(1)
		go func(z int) {
			defer rwg.Done()
			r := gen.New(b.Seed*77 + int64(z))
			for !stop.Load() {
				mu.Lock()
				busy := false
				for _, n := range inflight {
					if n > 0 {
						busy = true
					}
				}
				mu.Unlock()
				if busy {
					resizeDur.Add(1)
				}
				fs.SetCacheSize(gen.Pick(r, []int{0, 4096, 3 * 4096, 64 * 4096, 1 << 20}))
				time.Sleep(time.Duration(100+r.Intn(400)) * time.Microsecond)
			}
		}(z)
	}
	done := make(chan struct{})
	go func() { wg.Wait(); close(done) }()
	// bounded progress: the completed-reads counter must advance
	last := int64(-1)
	stalled := 0
	ticker := time.NewTicker(5 * time.Second)
	defer ticker.Stop()
waiting:
	for {
		select {
		case <-done:
			break waiting
		case <-ticker.C:
			cur := completed.Load()
			if cur == last {
				stalled++
				if stalled >= 3 {
					buf := make([]byte, 1<<16)
					n := runtime.Stack(buf, true)
					report("no-progress", "readers-stalled", "no read completed during 15 s with %d readers alive (completed so far: %d); goroutines:\n%s", b.Readers, cur, buf[:n])
					break waiting
				}
			} else {
				stalled = 0
			}
			last = cur
		}
	}
	stop.Store(true)
	rwg.Wait()
	close(probCh)
	for pr := range probCh {
		fail(pr.rule, pr.cause, "%s", pr.detail)
	}
	// structural invariant at quiescence
	if len(res.Findings) == 0 {
		if b.Cache >= 0 && b.Resizers == 0 {
			fs.SetCacheSize(b.Cache * 4096)
		}
		if err := fs.VerifLRUCheck(); err != nil {
			fail("lru-invariant", "after-batch", "cache structure inconsistent after the batch: %v", err)
		}
		res.Count("lru.invariant_checks", 1)
	}
	res.Count("reads.completed", completed.Load())
	res.Count("hook.calls", hookCalls.Load())
	res.Count("observed.enter_while_block_in_flight", enterWait.Load())
	res.Count("observed.refetch_of_evicted_block", dupFetch.Load())
	res.Count("observed.resize_while_fetch_in_flight", resizeDur.Load())
	res.Count("batches", 1)
	if enterWait.Load() > 0 {
		res.Mark("waiter observed in-flight fetch")
	}
	if dupFetch.Load() > 0 {
		res.Mark("block evicted and fetched again")
	}
	if resizeDur.Load() > 0 {
		res.Mark("resize during fetch")
	}
	res.Mark(fmt.Sprintf("gomaxprocs %d", b.Procs))
	res.Mark(fmt.Sprintf("cache %d blocks", b.Cache))
	mu.Lock()
	res.Sig("interleaving", core.Hash(events))
	mu.Unlock()
	_ = bi
}

func init() {
	core.Register(&core.Check{
		ID:    "C17",
		Level: "exploration",
		Race:  true,
		Rule: "a squashfs image (60 small files sharing fragment blocks, 6 multi-block files, gzip/none/zstd, 4 KiB blocks) is read by 2..32 goroutines, each with its own handles, sequentially in odd-sized pieces and at random offsets, under the Go race detector, for cache sizes {default, 0, 1 block, 3 blocks}, GOMAXPROCS {1,2,4,16}, 0-2 goroutines calling SetCacheSize concurrently, seeded yields/sleeps injected at the store's ReadAt and at the hook points between the cache's critical sections, and a slow-fetch mode delaying one block; monitors: every byte returned is compared with the known content, the completed-reads counter must advance (bounded progress), VerifLRUCheck after every batch, race reports are collected from the race log; non-trivial/distinct = distinct interleaving signatures (hash of the first 64 hook events of a batch)",
		Assumptions: []string{"'always finish for every interleaving' is restated as bounded progress on the schedules produced", "GetCacheSize racing with SetCacheSize is outside the statement and not driven"},
		MinSigs:   map[string]int{"quick": 20, "thorough": 400},
		NeedMarks: []string{"waiter observed in-flight fetch", "block evicted and fetched again", "resize during fetch", "gomaxprocs 1", "gomaxprocs 16", "cache 0 blocks", "cache 1 blocks"},
		Workers:   8,
		CPUSec:    1800,
		WallSec:   600,
		Cases: func(seed int64, tier string) []core.Case {
			r := gen.New(seed ^ 0xC17)
			ncases, per, reads := 12, 4, 100
			if tier == "thorough" {
				ncases, per, reads = 150, 10, 300
			}
			var cs []core.Case
			for i := 0; i < ncases; i++ {
				p := c17Case{Comp: []string{"gzip", "none", "zstd"}[i%3]}
				for j := 0; j < per; j++ {
					k := i*per + j
					p.Batches = append(p.Batches, c17Batch{
						Readers: []int{2, 4, 8, 16, 32, 3}[k%6], Procs: []int{1, 2, 4, 16}[(k/2)%4], Cache: []int{-1, 0, 1, 3}[k%4],
						Resizers: []int{0, 1, 2}[(k/3)%3], YieldPct: []int{0, 10, 40, 80}[(k/5)%4], SlowFetch: k%7 == 3, Reads: reads, Seed: r.Int63(),
					})
				}
				cs = append(cs, core.MkCase(fmt.Sprintf("readers-%d", i), "concurrent", r.Int63(), p))
			}
			return cs
		},
		Run: c17Run,
	})
}
