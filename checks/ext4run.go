package checks

import (
	"encoding/binary"
	"bytes"
	"fmt"
	"os"
	"os/exec"
	"path/filepath"
	"sort"
	"strings"

	"github.com/diskfs/go-diskfs/backend/file"
	"github.com/diskfs/go-diskfs/filesystem"
	"github.com/diskfs/go-diskfs/filesystem/ext4"

	"verif/internal/core"
	"verif/internal/fsdrive"
	"verif/internal/gen"
	"verif/internal/monstore"
	"verif/internal/reftree"
)

// Ext4Cfg is one Create parameter set (JSON-able).
type Ext4Cfg struct {
	Size        int64    `json:"size"`
	Start       int64    `json:"start,omitempty"`
	SPB         uint8    `json:"spb,omitempty"` // sectors per block (0 = library default)
	BPG         uint32   `json:"bpg,omitempty"`
	InodeRatio  int64    `json:"inode_ratio,omitempty"`
	InodeCount  uint32   `json:"inode_count,omitempty"`
	ReservedPct uint8    `json:"reserved_pct,omitempty"`
	LogFlex     int      `json:"log_flex,omitempty"`
	SparseV     uint8    `json:"sparse_super_version,omitempty"`
	Label       string   `json:"label,omitempty"`
	Off         []string `json:"off,omitempty"` // features switched off
	On          []string `json:"on,omitempty"`  // features switched on
}

var ext4FeatureFns = map[string]func(bool) ext4.FeatureOpt{
	"journal":        ext4.WithFeatureHasJournal,
	"64bit":          ext4.WithFeatureFS64Bit,
	"flex_bg":        ext4.WithFeatureFlexBlockGroups,
	"metadata_csum":  ext4.WithFeatureMetadataChecksums,
	"gdt_csum":       ext4.WithFeatureGDTChecksum,
	"sparse_super2":  ext4.WithFeatureSparseSuperBlockV2,
	"resize_inode":   ext4.WithFeatureReservedGDTBlocksForExpansion,
	"dir_index":      ext4.WithFeatureDirectoryIndices,
	"huge_file":      ext4.WithFeatureHugeFile,
	"large_file":     ext4.WithFeatureLargeFile,
	"dir_nlink":      ext4.WithFeatureLargeSubdirectoryCount,
	"extra_isize":    ext4.WithFeatureLargeInodes,
	"sparse_super":   ext4.WithFeatureSparseSuperblock,
	"ext_attr":       ext4.WithFeatureExtendedAttributes,
	"filetype":       ext4.WithFeatureDirectoryEntriesRecordFileType,
}

func (c Ext4Cfg) params() *ext4.Params {
	p := &ext4.Params{SectorsPerBlock: c.SPB, BlocksPerGroup: c.BPG, InodeRatio: c.InodeRatio, InodeCount: c.InodeCount,
		ReservedBlocksPercent: c.ReservedPct, LogFlexBlockGroups: c.LogFlex, VolumeName: c.Label, SparseSuperVersion: c.SparseV}
	for _, f := range c.Off {
		if fn, ok := ext4FeatureFns[f]; ok {
			p.Features = append(p.Features, fn(false))
		}
	}
	for _, f := range c.On {
		if fn, ok := ext4FeatureFns[f]; ok {
			p.Features = append(p.Features, fn(true))
		}
	}
	return p
}

// predicate is the cause predicate of configuration-level findings: the feature toggles and the
// classes of the geometry parameters, not their concrete values.
func (c Ext4Cfg) predicate() string {
	var parts []string
	if len(c.Off) > 0 {
		o := append([]string(nil), c.Off...)
		sort.Strings(o)
		parts = append(parts, "off:"+strings.Join(o, ","))
	}
	if len(c.On) > 0 {
		o := append([]string(nil), c.On...)
		sort.Strings(o)
		parts = append(parts, "on:"+strings.Join(o, ","))
	}
	if c.BPG != 0 {
		parts = append(parts, "custom-blocks-per-group")
	}
	if c.InodeCount > 0 && c.InodeCount < 64 {
		parts = append(parts, "tiny-inode-count")
	} else if c.InodeCount > 0 {
		parts = append(parts, "explicit-inode-count")
	}
	if c.SPB != 0 {
		parts = append(parts, fmt.Sprintf("explicit-block-size-%d", int(c.SPB)*512))
	}
	if c.InodeRatio != 0 {
		parts = append(parts, "explicit-inode-ratio")
	}
	if c.LogFlex != 0 {
		parts = append(parts, "explicit-log-flex")
	}
	if c.ReservedPct != 0 {
		parts = append(parts, "explicit-reserved-pct")
	}
	if c.Start != 0 {
		parts = append(parts, "non-zero-start")
	}
	if len(parts) == 0 {
		return "default-features"
	}
	return strings.Join(parts, "+")
}

func (c Ext4Cfg) class() string {
	s := fmt.Sprintf("spb%d", c.SPB)
	if len(c.Off) > 0 {
		s += " off:" + strings.Join(c.Off, ",")
	}
	if len(c.On) > 0 {
		s += " on:" + strings.Join(c.On, ",")
	}
	if c.BPG > 0 {
		s += fmt.Sprintf(" bpg%d", c.BPG)
	}
	return s
}

type ext4Case struct {
	Cfg     Ext4Cfg      `json:"cfg"`
	Mode    string       `json:"mode"` // random | replay | fill | create-only
	Steps   int          `json:"steps,omitempty"`
	Ops     []fsdrive.Op `json:"ops,omitempty"`
	Reopen  int          `json:"reopen,omitempty"`
	Fsck    int          `json:"fsck,omitempty"` // C05: run e2fsck every k steps (1 = every step)
	Handles bool         `json:"handles,omitempty"`
	Big     bool         `json:"big,omitempty"` // sizes up to several MiB
	Chunk   int          `json:"chunk,omitempty"` // appendspan: blocks per append (default 64)
	Avoid   []string     `json:"avoid,omitempty"`
}

func e2fsck(path string, start int64) (ok bool, out string, err error) {
	target := path
	if start > 0 {
		target = fmt.Sprintf("%s?offset=%d", path, start)
	}
	cmd := exec.Command("e2fsck", "-f", "-n", target)
	var buf bytes.Buffer
	cmd.Stdout = &buf
	cmd.Stderr = &buf
	e := cmd.Run()
	out = buf.String()
	if e == nil {
		return true, out, nil
	}
	if ee, okk := e.(*exec.ExitError); okk {
		_ = ee
		return false, out, nil
	}
	return false, out, e
}

var fsckNoiseRe = strings.NewReplacer("\n", " | ")

// fsckClass reduces e2fsck's output to the first complaint with numbers stripped.
func fsckClass(out string) string {
	for _, l := range strings.Split(out, "\n") {
		l = strings.TrimSpace(l)
		if l == "" || strings.HasPrefix(l, "e2fsck ") || strings.HasPrefix(l, "Pass ") || strings.HasPrefix(l, "Warning: skipping journal") {
			continue
		}
		if strings.HasSuffix(l, "? no") {
			l = strings.TrimSuffix(l, "? no")
		}
		// keep the kind of complaint, drop lists of numbers and ranges
		if i := strings.Index(l, ":  "); i > 0 {
			l = l[:i]
		}
		if i := strings.Index(l, "("); i > 0 {
			l = l[:i]
		}
		var words []string
		for _, w := range strings.Fields(l) {
			if strings.ContainsAny(w, "0123456789") {
				continue
			}
			words = append(words, strings.Trim(w, ".,:"))
			if len(words) == 7 {
				break
			}
		}
		return strings.Join(words, "_")
	}
	return "no-output"
}

// minimizeCfg resets parameters to their defaults one at a time as long as the fresh image is
// still rejected with the same kind of complaint: what remains is the cause predicate.
func minimizeCfg(cfg Ext4Cfg, kind string, scratch string) Ext4Cfg {
	fails := func(c Ext4Cfg) bool {
		img := filepath.Join(scratch, "min-"+core.Hash(c)+".img")
		st, err := monstore.NewFile(img, c.Start+c.Size+1<<20)
		if err != nil {
			return false
		}
		defer func() { st.Destroy(); os.Remove(img) }()
		var cerr error
		if pi := core.Guard(func() { _, cerr = ext4.Create(file.New(st, false), c.Size, c.Start, 512, c.params()) }); pi != nil || cerr != nil {
			return false
		}
		ok, out, e := e2fsck(img, c.Start)
		return e == nil && !ok && fsckClass(out) == kind
	}
	cur := cfg
	for {
		// candidates: the current configuration with one parameter back at its default, in a fixed order
		var cands []Ext4Cfg
		for i := range cur.Off {
			c := cur
			c.Off = append(append([]string(nil), cur.Off[:i]...), cur.Off[i+1:]...)
			cands = append(cands, c)
		}
		for i := range cur.On {
			c := cur
			c.On = append(append([]string(nil), cur.On[:i]...), cur.On[i+1:]...)
			cands = append(cands, c)
		}
		reset := func(f func(c *Ext4Cfg) bool) {
			c := cur
			if f(&c) {
				cands = append(cands, c)
			}
		}
		reset(func(c *Ext4Cfg) bool { ok := c.Label != ""; c.Label = ""; return ok })
		reset(func(c *Ext4Cfg) bool { ok := c.Start != 0; c.Start = 0; return ok })
		reset(func(c *Ext4Cfg) bool { ok := c.ReservedPct != 0; c.ReservedPct = 0; return ok })
		reset(func(c *Ext4Cfg) bool { ok := c.LogFlex != 0; c.LogFlex = 0; return ok })
		reset(func(c *Ext4Cfg) bool { ok := c.InodeRatio != 0; c.InodeRatio = 0; return ok })
		reset(func(c *Ext4Cfg) bool { ok := c.InodeCount != 0; c.InodeCount = 0; return ok })
		reset(func(c *Ext4Cfg) bool { ok := c.BPG != 0; c.BPG = 0; return ok })
		reset(func(c *Ext4Cfg) bool { ok := c.SPB != 0; c.SPB = 0; return ok })
		progressed := false
		for _, c := range cands {
			if fails(c) {
				cur = c
				progressed = true
				break
			}
		}
		if !progressed {
			break
		}
	}
	return cur
}

func runExt4Case(prop string, c core.Case, env *core.Env) core.Result {
	var ec ext4Case
	c.Decode(&ec)
	var res core.Result
	cfg := ec.Cfg
	devSize := cfg.Start + cfg.Size + 1<<20
	var st *monstore.Store
	imgPath := ""
	if prop == "C05" {
		imgPath = filepath.Join(env.Scratch, fmt.Sprintf("ext4-%s.img", core.Hash(c.ID)))
		var err error
		st, err = monstore.NewFile(imgPath, devSize)
		if err != nil {
			res.Inconclusive = "cannot create image file: " + err.Error()
			return res
		}
		defer func() { st.Destroy(); os.Remove(imgPath) }()
	} else {
		st = monstore.NewMemFilled(devSize, uint64(c.Seed)|1, monstore.Range{Off: cfg.Start, End: cfg.Start + cfg.Size})
	}
	if prop == "C03" {
		st.SetAllowed(monstore.Range{Off: cfg.Start, End: cfg.Start + cfg.Size})
	}
	replayCase := func(ops []fsdrive.Op) core.Case {
		rc := ec
		rc.Ops = ops
		rc.Mode = "replay"
		return core.MkCase("replay-"+core.Hash(rc), c.Kind, c.Seed, rc)
	}
	var fs *ext4.FileSystem
	var err error
	if pi := core.Guard(func() { fs, err = ext4.Create(file.New(st, false), cfg.Size, cfg.Start, 512, cfg.params()) }); pi != nil {
		res.FailReplay(fmt.Sprintf("%s/ext4/create-panic/%s:%s", prop, pi.Top, pi.Class), fmt.Sprintf("ext4.Create(%s) panicked: %s", cfg.class(), pi.Msg), cfg, replayCase(nil))
		return res
	}
	if err != nil {
		res.Count("create.refused", 1)
		res.Mark("create refused: " + firstWords(err.Error(), 6))
		res.Sample = map[string]any{"cfg": cfg, "create_error": err.Error()}
		return res
	}
	res.Count("create.accepted", 1)
	res.Mark("config " + cfg.class())
	drv := &fsdrive.Driver{
		Cfg:   fsdrive.Cfg{Prefix: prop + "/ext4", FoldCase: false, Symlinks: true, Attrs: true, NoCompare: prop == "C05" || prop == "C03", RootPath: "."},
		FS:    fs,
		Model: reftree.New(false),
		Res:   &res,
	}
	drv.Witness = func() any { return cfg }
	drv.Replay = replayCase
	if prop == "C03" {
		failKey := func(key, detail string) {
			hist := append([]fsdrive.Op(nil), drv.History...)
			res.FailReplay(key, detail, map[string]any{"cfg": cfg, "history": hist}, replayCase(hist))
		}
		if !c03Report(&res, st, "ext4", cfg.Start, cfg.Size, "Create", failKey) {
			return res
		}
		drv.AfterOp = func(op fsdrive.Op, e error) {
			if !c03Report(&res, st, "ext4", cfg.Start, cfg.Size, op.Kind, failKey) {
				drv.Diverged = true
			}
		}
		defer c03Final(&res, st, "ext4", cfg.Start, cfg.Size, failKey)
		res.Mark("ext4")
	}
	fsckRuns := 0
	uncleanAtCreate := false
	fsck := func(when string, op fsdrive.Op, opErr error) bool {
		if prop != "C05" {
			return true
		}
		ok, out, e := e2fsck(imgPath, cfg.Start)
		fsckRuns++
		res.Count("e2fsck.runs", 1)
		if e != nil {
			res.Inconclusive = "e2fsck could not be run: " + e.Error()
			return false
		}
		if ok {
			// the statement's criterion is the exit status; a complaint e2fsck itself does not count as an
			// error (it still exits 0) is recorded as an observation
			if strings.Contains(out, "? no") {
				res.Count("e2fsck.exit_0_with_complaint/"+fsckClass(out), 1)
			}
			return true
		}
		cause := fsckClass(out)
		rule := "unclean-after-" + op.Kind
		if op.Kind == "" {
			rule = "unclean-after-create"
			min := minimizeCfg(cfg, cause, env.Scratch)
			res.Count("create.minimizations", 1)
			cause = cause + "/" + min.predicate()
			uncleanAtCreate = true
		} else if opErr != nil {
			rule += "-refused"
		}
		hist := append([]fsdrive.Op(nil), drv.History...)
		detail := fmt.Sprintf("e2fsck -f -n rejects the image %s: %s", when, fsckNoiseRe.Replace(trunc600(out)))
		res.FailReplay(fmt.Sprintf("C05/ext4/%s/%s", rule, cause), detail, map[string]any{"cfg": cfg, "history": hist, "e2fsck": trunc600(out)}, replayCase(hist))
		return false
	}
	if !fsck("right after Create", fsdrive.Op{}, nil) {
		return res
	}
	if prop == "C05" {
		k := ec.Fsck
		if k == 0 {
			k = 1
		}
		drv.AfterOp = func(op fsdrive.Op, e error) {
			if len(drv.History)%k != 0 && e == nil {
				return
			}
			if !fsck(fmt.Sprintf("after step %d (%s)", len(drv.History), op.String()), op, e) {
				drv.Diverged = true
			}
		}
	}
	reopenCmp := func() bool {
		if prop != "C04" {
			return true
		}
		var fs2 *ext4.FileSystem
		var e error
		if pi := core.Guard(func() { fs2, e = ext4.Read(file.New(st, true), cfg.Size, cfg.Start, 512) }); pi != nil {
			drv.Fail("reopen-panic", pi.Top+":"+pi.Class, "ext4.Read of the image panicked: %s", pi.Msg)
			return false
		}
		if e != nil {
			drv.Fail("reopen-error", "read-refuses-own-image", "ext4.Read of the image the library wrote failed: %v", e)
			return false
		}
		res.Count("reopen.comparisons", 1)
		return drv.Compare(fs2, "reopened", nil) && ext4AttrCompare(drv, fs2, "reopened")
	}
	step := func(op fsdrive.Op) bool {
		if op.Kind == "xrename" {
			op.Kind = "rename"
		}
		drv.Apply(op)
		if drv.Diverged {
			return false
		}
		if prop == "C04" {
			if len(drv.History) > 0 && drv.History[len(drv.History)-1].Err == "" {
				if drv.Light {
					if !drv.CompareTouched(fs, "live", op.Path) {
						return false
					}
				} else if !drv.Compare(fs, "live", nil) || !ext4AttrCompare(drv, fs, "live") {
					return false
				}
			}
			if ec.Reopen > 0 && len(drv.History)%ec.Reopen == 0 {
				if !reopenCmp() {
					return false
				}
			}
		}
		return true
	}
	bs := 1024
	if cfg.SPB > 0 {
		bs = int(cfg.SPB) * 512
	}
	switch ec.Mode {
	case "create-only":
	case "replay":
		for _, op := range ec.Ops {
			op.Err = ""
			if !step(op) {
				break
			}
		}
		if !drv.Diverged {
			drv.CloseAll()
			reopenCmp()
		}
	case "random":
		g := &FatGen{R: gen.New(c.Seed), Cluster: bs, Ext4: true, Handles: ec.Handles, Invalid: true, NoGap: has(ec.Avoid, "gap-writes"),
			OneHandlePerDir: false, Dirs: []string{"d1", "Dir Two", "SUB", "a_directory_with_a_long_name", "dìr"}}
		g.Sizes = []int{0, 1, 7, 511, 512, 513, bs - 1, bs, bs + 1, 2 * bs, 2*bs + 1, 3*bs + 5, 10 * bs, 37*bs + 11, 4*bs - 1}
		g.MaxFile = 64 * bs
		if ec.Big {
			g.Sizes = append(g.Sizes, 300*bs+17, 1<<20+3, 3<<20)
			g.MaxFile = 8 << 20
		}
		for i := 0; i < ec.Steps; i++ {
			if !step(g.Next(drv)) {
				break
			}
		}
		if !drv.Diverged {
			drv.CloseAll()
			reopenCmp()
		}
	case "bigwrite":
		// single Write calls that need more new blocks than one block group has free, so that one
		// allocation request is served from several groups; sizes in units of a group's data capacity
		drv.Light = true
		grp := 8 * bs * bs // bytes covered by one block bitmap
		if cfg.BPG > 0 {
			grp = int(cfg.BPG) * bs
		}
		for i, n := range []int{grp + grp/3, 2*grp + 4097, grp - 3*bs, 3 * bs} {
			p := fmt.Sprintf("big%d.bin", i)
			if !step(fsdrive.Op{Kind: "write", Path: p, Len: n, DSeed: uint64(7000 + i)}) {
				return res
			}
			if i == 1 && !step(fsdrive.Op{Kind: "remove", Path: "big0.bin"}) {
				return res
			}
		}
		if !step(fsdrive.Op{Kind: "append", Path: "big3.bin", Len: grp + grp/2, DSeed: 7100}) {
			return res
		}
		res.Mark("single writes larger than a block group")
		if !drv.Diverged {
			drv.Light = false
			drv.CloseAll()
			if prop == "C04" {
				drv.Compare(fs, "live", nil)
			}
			reopenCmp()
		}
	case "stalegap":
		// free space that holds old non-zero data (files written and removed), then small files whose
		// next write starts behind their end: inside the block they already own, at its last byte, in
		// the next block and several blocks on - every byte of the gap must read as zero, live, after
		// re-opening and (C05) for debugfs
		drv.Light = true
		for i := 0; i < 6; i++ {
			if !step(fsdrive.Op{Kind: "write", Path: fmt.Sprintf("old%02d.bin", i), Len: 96*bs + i, DSeed: uint64(4000 + i)}) {
				return res
			}
		}
		for i := 0; i < 6; i++ {
			if !step(fsdrive.Op{Kind: "remove", Path: fmt.Sprintf("old%02d.bin", i)}) {
				return res
			}
		}
		k := 0
		for _, sz := range []int{1, 100, bs / 2, bs - 1, bs, bs + 7, 3*bs + bs/3} {
			for _, gap := range []int{1, 57, bs - (sz % bs) - 1, bs, 2*bs + 5} {
				if gap <= 0 {
					continue
				}
				for _, w := range []int{1, 10, bs + 3} {
					k++
					p := fmt.Sprintf("gap%03d.bin", k)
					if !step(fsdrive.Op{Kind: "write", Path: p, Len: sz, DSeed: uint64(5000 + k)}) ||
						!step(fsdrive.Op{Kind: "write", Path: p, Off: int64(sz + gap), Len: w, DSeed: uint64(6000 + k)}) {
						return res
					}
				}
			}
		}
		res.Mark("writes behind the end of a file on free space holding old data")
		if !drv.Diverged {
			drv.Light = false
			drv.CloseAll()
			if prop == "C04" {
				drv.Compare(fs, "live", nil)
			}
			reopenCmp()
		}
	case "dirgrow":
		// two directories grow block by block while file data is allocated right behind their last block, so
		// that the directories end up in many separate extents (more than the four an inode holds); then
		// entries are removed and added again
		drv.Light = true
		nm := func(d string, i int) string {
			return fmt.Sprintf("%s/%03d_%s", d, i, strings.Repeat(string(rune('a'+i%26)), 150+(i*37)%90))
		}
		for _, d := range []string{"grow1", "grow2"} {
			if !step(fsdrive.Op{Kind: "mkdir", Path: d}) {
				return res
			}
		}
		n := ec.Steps
		if n == 0 {
			n = 60
		}
		for i := 0; i < n; i++ {
			if !step(fsdrive.Op{Kind: "write", Path: nm("grow1", i), Len: bs, DSeed: uint64(i + 1)}) {
				return res
			}
			if i%3 == 0 {
				if !step(fsdrive.Op{Kind: "write", Path: nm("grow2", i), Len: 2*bs + 1, DSeed: uint64(5000 + i)}) {
					return res
				}
			}
		}
		for i := 0; i < n; i += 2 {
			if !step(fsdrive.Op{Kind: "remove", Path: nm("grow1", i)}) {
				return res
			}
		}
		for i := n; i < n+n/3; i++ {
			if !step(fsdrive.Op{Kind: "write", Path: nm("grow1", i), Len: bs / 2, DSeed: uint64(i + 1)}) {
				return res
			}
		}
		res.Mark("directories grown block by block between other allocations")
		if !drv.Diverged {
			drv.Light = false
			if prop == "C04" {
				drv.Compare(fs, "live", nil)
			}
			reopenCmp()
		}
	case "inodeedge":
		// the inode table is used up object by object, twice; the objects that receive the last and first inode
		// numbers of every block group (numbers around each multiple of inodes-per-group, as the superblock on the
		// image states it) are directories in the first round and symbolic links and files in the second, and
		// every call around such a number, and the refusal when no inode is left, is followed by e2fsck;
		// then everything is removed again with the same attention to the boundary numbers
		drv.Light = true
		sbRaw := st.Peek(cfg.Start+1024, 0x30)
		inodes := int(binary.LittleEndian.Uint32(sbRaw[0:4]))
		ipg := int(binary.LittleEndian.Uint32(sbRaw[0x28:0x2c]))
		if ipg <= 0 || inodes <= 0 {
			res.Inconclusive = "no inode geometry in the superblock"
			return res
		}
		explicit := func(when string, op fsdrive.Op) bool {
			if prop != "C05" {
				return true
			}
			return fsck(when, op, nil)
		}
		const nd = 8
		for d := 0; d < nd; d++ {
			if !step(fsdrive.Op{Kind: "mkdir", Path: fmt.Sprintf("e%d", d)}) {
				return res
			}
		}
		limit := inodes + 8
		if ec.Steps > 0 && ec.Steps < limit {
			limit = ec.Steps
		}
		for round := 0; round < 2; round++ {
			type obj struct {
				path string
				near bool
			}
			var made []obj
			exhausted := false
			for i := 0; i < limit; i++ {
				ino := 12 + nd + i // the number this object is expected to get (first free from 11 upwards); the window below allows for being off by a few
				d := ino % ipg
				near := d <= 4 || d >= ipg-4
				path := fmt.Sprintf("e%d/r%d_%05d", i%nd, round, i)
				op := fsdrive.Op{Kind: "write", Path: path, Len: 0}
				switch {
				case near && round == 0, !near && i%9 == 4:
					op = fsdrive.Op{Kind: "mkdir", Path: path}
				case near && i%2 == 0:
					op = fsdrive.Op{Kind: "symlink", Path: path, Path2: fmt.Sprintf("../e0/r%d_%05d", round, i)}
				case near:
					op = fsdrive.Op{Kind: "write", Path: path, Len: bs + 1, DSeed: uint64(i + 1)}
				}
				if !step(op) {
					return res
				}
				failed := drv.History[len(drv.History)-1].Err != ""
				if near || failed {
					res.Count("inodeedge.calls_at_group_boundary_numbers", 1)
					if !explicit(fmt.Sprintf("after %s as object number %d (inodes per group %d)", op.Kind, ino, ipg), op) {
						return res
					}
				}
				if failed {
					exhausted = true
					break
				}
				made = append(made, obj{path, near})
			}
			if exhausted {
				res.Mark("inode table used up")
			}
			if !explicit("after using up the inode table", fsdrive.Op{Kind: "write"}) {
				return res
			}
			for k := range made {
				o := made[k]
				if round == 0 {
					o = made[len(made)-1-k]
				}
				op := fsdrive.Op{Kind: "remove", Path: o.path}
				if !step(op) {
					return res
				}
				if o.near {
					res.Count("inodeedge.calls_at_group_boundary_numbers", 1)
					if !explicit("after removing an object with a number next to a multiple of inodes-per-group", op) {
						return res
					}
				}
			}
			if !explicit("after removing every object again", fsdrive.Op{Kind: "remove"}) {
				return res
			}
		}
		res.Mark("objects created and removed at the last and first inode numbers of block groups")
		if !drv.Diverged {
			drv.Light = false
			if prop == "C04" {
				drv.Compare(fs, "live", nil)
			}
			reopenCmp()
		}
	case "dirfrag":
		// a directory made of two to four extents, each of a chosen number of blocks (entries are added as empty
		// files, which allocate nothing, and a data file is written whenever an extent is to end), with a data
		// file right behind every extent; then entries are removed a few at a time so that the directory's
		// length steps down through every block count, i.e. ends inside every extent at every position, and
		// after each step something new is allocated and every file is compared with the model
		r := gen.New(c.Seed)
		nm := func(i int) string {
			return fmt.Sprintf("frag/%03d_%s", i, strings.Repeat(string(rune('a'+i%26)), 230+(i*7)%20))
		}
		if !step(fsdrive.Op{Kind: "mkdir", Path: "frag"}) {
			return res
		}
		perBlock := bs / 264 // entries of this length per directory block, about
		ext := 2 + r.Intn(3)
		i := 0
		total := 0
		for e := 0; e < ext; e++ {
			if !step(fsdrive.Op{Kind: "write", Path: fmt.Sprintf("barrier%d", e), Len: bs*(1+r.Intn(3)) + r.Intn(bs), DSeed: uint64(900 + e)}) {
				return res
			}
			blocks := 1 + r.Intn(4)
			if e == 0 {
				blocks = r.Intn(2) // the first extent has the block made by mkdir
			}
			total += blocks
			for k := 0; k < blocks*perBlock; k++ {
				if !step(fsdrive.Op{Kind: "write", Path: nm(i), Len: 0}) {
					return res
				}
				i++
			}
		}
		if !step(fsdrive.Op{Kind: "write", Path: "behind", Len: 3*bs + 17, DSeed: 77}) {
			return res
		}
		res.Mark(fmt.Sprintf("directory in %d extents", ext))
		cmpAll := func() bool {
			if drv.Diverged {
				return false
			}
			if prop == "C04" {
				drv.Compare(fs, "live", nil)
			}
			return !drv.Diverged
		}
		if !cmpAll() {
			return res
		}
		// shrink: about half a block of entries at a time, from the end
		j := i
		for round := 0; j > 0; round++ {
			for k := 0; k < perBlock/2+1 && j > 0; k++ {
				j--
				if !step(fsdrive.Op{Kind: "remove", Path: nm(j)}) {
					return res
				}
			}
			// something that allocates: a data file, now and then a directory
			if round%3 == 2 {
				if !step(fsdrive.Op{Kind: "mkdir", Path: fmt.Sprintf("after%d", round)}) {
					return res
				}
			} else if !step(fsdrive.Op{Kind: "write", Path: fmt.Sprintf("after%d.dat", round), Len: bs*(1+round%3) + 5, DSeed: uint64(3000 + round)}) {
				return res
			}
			if !cmpAll() {
				return res
			}
		}
		res.Mark("fragmented directory shrunk block by block with allocations in between")
		if !drv.Diverged {
			reopenCmp()
		}
	case "appendspan":
		// a file grown by many appends across several block groups (contiguous appends share an extent, so extents
		// come to span group boundaries wherever a group has no metadata at its start), then released in
		// again, twice
		drv.Light = true
		chunk := 64 * bs
		if ec.Chunk > 0 {
			// small appends fill the tail of a block group exactly, so that the next append continues the
			// same extent in the following group
			chunk = ec.Chunk * bs
		}
		n := ec.Steps
		if n == 0 {
			n = 330
		}
		explicit := func(when string, op fsdrive.Op) bool {
			if prop != "C05" {
				return true
			}
			return fsck(when, op, nil)
		}
		for round, how := range []string{"remove", "trunc"} {
			name := fmt.Sprintf("span%d.bin", round)
			if !step(fsdrive.Op{Kind: "write", Path: name, Len: bs, DSeed: uint64(round + 1)}) {
				return res
			}
			for i := 0; i < n; i++ {
				if !step(fsdrive.Op{Kind: "append", Path: name, Len: chunk, DSeed: uint64(100*round + i + 2)}) {
					return res
				}
				if drv.History[len(drv.History)-1].Err != "" {
					break
				}
				if i%50 == 25 && ec.Chunk == 0 {
					// something small in between, so that not everything is one run
					if !step(fsdrive.Op{Kind: "write", Path: fmt.Sprintf("small%d_%d.bin", round, i), Len: 3 * bs, DSeed: uint64(7000 + i)}) {
						return res
					}
				}
			}
			if !explicit("after growing "+name+" across block groups", fsdrive.Op{Kind: "append", Path: name}) {
				return res
			}
			op := fsdrive.Op{Kind: "remove", Path: name}
			if how == "trunc" {
				op = fsdrive.Op{Kind: "trunc", Path: name, Len: 0}
			}
			if !step(op) {
				return res
			}
			if !explicit("after releasing "+name+" ("+how+")", op) {
				return res
			}
		}
		res.Mark("file grown by appends across block groups and released")
		if !drv.Diverged {
			drv.Light = false
			if prop == "C04" {
				drv.Compare(fs, "live", nil)
			}
			reopenCmp()
		}
	case "fill":
		// fill to no-space with files, then remove half, refill: refused calls must leave a clean image
		drv.Light = true
		full := false
		for i := 0; i < 4000 && !full; i++ {
			op := fsdrive.Op{Kind: "write", Path: fmt.Sprintf("fill%04d.bin", i), Len: []int{bs*40 + 3, bs * 7, 1, bs * 129}[i%4], DSeed: uint64(i + 1)}
			if !step(op) {
				return res
			}
			if drv.History[len(drv.History)-1].Err != "" {
				full = true
			}
		}
		if full {
			res.Mark("ENOSPC reached")
			// what is left is less than the refused file needed: use it up block by block, so that the calls
			// below meet a volume without a single free block
			for i := 0; i < 20000; i++ {
				if !step(fsdrive.Op{Kind: "write", Path: fmt.Sprintf("tail%05d.bin", i), Len: bs, DSeed: uint64(50000 + i)}) {
					return res
				}
				if drv.History[len(drv.History)-1].Err != "" {
					res.Mark("filled to the last block")
					break
				}
			}
			// a handle that is refused a growing write goes on being used
			for _, op := range []fsdrive.Op{
				{Kind: "open", Path: "fill0002.bin", H: 0, Flag: os.O_RDWR}, {Kind: "hseek", H: 0, Off: int64(1)},
				{Kind: "hwrite", H: 0, Len: 60 * bs, DSeed: 81}, {Kind: "hwrite", H: 0, Len: 0}, {Kind: "hseek", H: 0, Off: 0},
				{Kind: "hwrite", H: 0, Len: 1, DSeed: 82}, {Kind: "hclose", H: 0},
			} {
				if !step(op) {
					return res
				}
			}
			// with the volume full, every other kind of call that needs a block or an inode is tried as well:
			// refused or not, the image must stay consistent
			for _, op := range []fsdrive.Op{
				{Kind: "mkdir", Path: "full_dir"}, {Kind: "create", Path: "full_empty.bin"},
				{Kind: "symlink", Path: "full_slow_link", Path2: strings.Repeat("t", 200)}, {Kind: "symlink", Path: "full_fast_link", Path2: "short"},
				{Kind: "append", Path: "fill0001.bin", Len: bs + 1, DSeed: 77}, {Kind: "mkdir", Path: "full_dir/nested"},
				{Kind: "write", Path: "full_dir/inside.bin", Len: 3 * bs, DSeed: 78},
			} {
				if !step(op) {
					return res
				}
			}
		}
		for i, p := range drv.Model.Files() {
			if i%2 == 0 {
				if !step(fsdrive.Op{Kind: "remove", Path: p}) {
					return res
				}
			}
		}
		for i := 0; i < 50; i++ {
			if !step(fsdrive.Op{Kind: "write", Path: fmt.Sprintf("again%04d.bin", i), Len: bs*20 + 1, DSeed: uint64(9000 + i)}) {
				return res
			}
		}
		if !drv.Diverged {
			drv.Light = false
			if prop == "C04" {
				drv.Compare(fs, "live", nil)
			}
			reopenCmp()
		}
	}
	// C05 second opinion: files extracted by debugfs equal what was written
	if prop == "C05" && !drv.Diverged && !uncleanAtCreate && len(res.Findings) == 0 {
		ext4DebugfsCompare(&res, drv, imgPath, cfg, replayCase)
	}
	res.Evals = int64(len(drv.History))
	if res.Evals == 0 {
		res.Evals = 1
	}
	accepted := int64(0)
	for k, n := range res.Counters {
		if strings.HasPrefix(k, "calls.") && strings.HasSuffix(k, ".ok") && !strings.HasPrefix(k, "calls.hclose") {
			accepted += n
		}
	}
	if accepted > 0 || ec.Mode == "create-only" {
		res.Sig(cfg, ec.Mode, core.Hash(drv.History))
	}
	if cfg.Start > 0 {
		res.Mark("volume at non-zero start")
	}
	h := drv.History
	if len(h) > 10 {
		h = h[:10]
	}
	res.Sample = map[string]any{"cfg": cfg, "mode": ec.Mode, "first_ops": opStrings(h)}
	return res
}

func trunc600(s string) string {
	if len(s) > 600 {
		return s[:600]
	}
	return s
}

func firstWords(s string, n int) string {
	f := strings.Fields(s)
	if len(f) > n {
		f = f[:n]
	}
	return classifyProblem(strings.Join(f, " "))
}

// ext4AttrCompare checks the attributes changed through Chmod/Chown/Chtimes against the model.
func ext4AttrCompare(d *fsdrive.Driver, fs filesystem.FileSystem, route string) bool {
	if d.Cfg.NoCompare {
		return true
	}
	for _, p := range d.Model.Paths() {
		n := d.Model.Lookup(p)
		if n.IsLink || !(n.Attr.ModeSet || n.Attr.OwnerSet || n.Attr.TimesSet) {
			continue
		}
		fi, err := fs.Stat(p)
		if err != nil {
			d.Fail("stat-error", route, "Stat(%q) failed (%s): %v", p, route, err)
			return false
		}
		d.Res.Count("observe.stat", 1)
		if n.Attr.ModeSet {
			got := modeBits(fi.Mode())
			if got != n.Attr.Mode&0o7777 {
				d.Fail("attr-mode", route+"/"+modeClass(n.Attr.Mode), "%q: Chmod(%#o) reads back as %#o (%s)", p, n.Attr.Mode&0o7777, got, route)
				return false
			}
			if fi.IsDir() != n.Dir {
				d.Fail("attr-kind", route, "%q: directory flag changed after Chmod", p)
				return false
			}
		}
		if n.Attr.OwnerSet {
			if st, ok := fi.Sys().(*ext4.StatT); ok {
				if int64(st.UID) != n.Attr.UID || int64(st.GID) != n.Attr.GID {
					d.Fail("attr-owner", route+"/"+idClass(n.Attr.UID, n.Attr.GID), "%q: Chown(%d,%d) reads back as (%d,%d) (%s)", p, n.Attr.UID, n.Attr.GID, st.UID, st.GID, route)
					return false
				}
			}
		}
		if n.Attr.TimesSet {
			if !fi.ModTime().Equal(n.Attr.Mtime) {
				d.Fail("attr-mtime", route+"/"+timeClass(n.Attr.Mtime.Unix()), "%q: Chtimes mtime %v reads back as %v (%s)", p, n.Attr.Mtime, fi.ModTime().UTC(), route)
				return false
			}
		}
	}
	return true
}

func modeBits(m os.FileMode) uint32 {
	v := uint32(m.Perm())
	if m&os.ModeSetuid != 0 {
		v |= 0o4000
	}
	if m&os.ModeSetgid != 0 {
		v |= 0o2000
	}
	if m&os.ModeSticky != 0 {
		v |= 0o1000
	}
	return v
}

func modeClass(m uint32) string {
	if m&0o7000 != 0 {
		return "special-bits"
	}
	return "permission-bits"
}
func idClass(u, g int64) string {
	if u > 65535 || g > 65535 {
		return "ids-over-16-bit"
	}
	return "ids-16-bit"
}
func timeClass(t int64) string {
	switch {
	case t < 0:
		return "before-1970"
	case t > 2147483647:
		return "after-2038"
	}
	return "1970-2038"
}

// ext4DebugfsCompare extracts every model file with debugfs and compares bytes.
func ext4DebugfsCompare(res *core.Result, d *fsdrive.Driver, img string, cfg Ext4Cfg, replay func([]fsdrive.Op) core.Case) {
	files := d.Model.Files()
	if len(files) == 0 {
		return
	}
	if len(files) > 25 {
		files = files[:25]
	}
	target := img
	if cfg.Start > 0 {
		target = fmt.Sprintf("%s?offset=%d", img, cfg.Start)
	}
	for _, p := range files {
		n := d.Model.Lookup(p)
		cmd := exec.Command("debugfs", "-R", fmt.Sprintf("cat \"/%s\"", p), target)
		var out, errb bytes.Buffer
		cmd.Stdout = &out
		cmd.Stderr = &errb
		_ = cmd.Run()
		res.Count("debugfs.files_extracted", 1)
		if !bytes.Equal(out.Bytes(), n.Data) {
			hist := append([]fsdrive.Op(nil), d.History...)
			res.FailReplay("C05/ext4/debugfs-content/"+diffClassPub(n.Data, out.Bytes()), fmt.Sprintf("debugfs cat of %q returns %d bytes, %d were written (first difference at %d); stderr: %s", p, out.Len(), len(n.Data), firstDiffBytes(out.Bytes(), n.Data), trunc600(errb.String())), map[string]any{"cfg": cfg, "history": hist}, replay(hist))
			return
		}
	}
}

func diffClassPub(want, got []byte) string {
	switch {
	case len(got) > len(want):
		return "extra-bytes"
	case len(got) < len(want):
		return "truncated"
	}
	return "wrong-bytes"
}
