package checks

import (
	"bytes"
	"fmt"
	"io"
	iofs "io/fs"
	"os"
	"os/exec"
	"path/filepath"
	"sort"
	"strings"
	"syscall"
	"time"

	"github.com/diskfs/go-diskfs/filesystem/ext4"

	"verif/internal/core"
	"verif/internal/gen"
	"verif/internal/monstore"
)

type c20Opts struct {
	Type     string   `json:"type"`               // ext4 ext3 ext2
	Block    int      `json:"block"`              // 1024 2048 4096
	Inode    int      `json:"inode"`              // 128 256
	Features []string `json:"features,omitempty"` // -O list, e.g. "^64bit", "sparse_super2"
	SizeMB   int      `json:"size_mb"`
	Index    bool     `json:"index"` // run e2fsck -fyD afterwards (hash-indexed directories)
}

func (o c20Opts) pred() string {
	var parts []string
	if o.Type != "ext4" {
		parts = append(parts, "type-"+o.Type)
	}
	if o.Block != 4096 && o.Block != 0 {
		parts = append(parts, fmt.Sprintf("block-%d", o.Block))
	}
	if o.Inode == 128 {
		parts = append(parts, "inode-128")
	}
	f := append([]string(nil), o.Features...)
	sort.Strings(f)
	parts = append(parts, f...)
	if len(parts) == 0 {
		return "default-features"
	}
	return strings.Join(parts, "+")
}

type c20Case struct {
	Opts  c20Opts `json:"opts"`
	Shape string  `json:"shape"` // basic | bigdir | extents | sparse | links | xattrs
	Big   bool    `json:"big,omitempty"`
}

type c20File struct {
	path   string
	dir    bool
	link   string
	data   []byte // expected full content (holes = zeros)
	mode   uint32
	uid    int
	gid    int
	mtime  int64
	xattrs map[string]string
	class  string
	// huge sparse file: too large to hold in memory, verified by probes
	hugeSize int64
	hugeRuns [][2]int64
	hugeSeed uint64
}

func hugeRunData(seed uint64, i int, n int64) []byte {
	d := gen.PRFBytes(seed+uint64(i), int(n))
	for k := range d {
		d[k] |= 1
	}
	return d
}

// hugeExpect: the expected bytes of [off, off+n) of a huge sparse file.
func (f *c20File) hugeExpect(off, n int64) []byte {
	exp := make([]byte, n)
	for i, r := range f.hugeRuns {
		lo, hi := max(off, r[0]), min(off+n, r[0]+r[1])
		if lo < hi {
			d := hugeRunData(f.hugeSeed, i, r[1])
			copy(exp[lo-off:hi-off], d[lo-r[0]:hi-r[0]])
		}
	}
	return exp
}

// writeSparse creates a file with data runs at the given offsets (holes elsewhere).
func writeSparse(p string, size int64, runs [][2]int64, seed uint64) ([]byte, error) {
	f, err := os.Create(p)
	if err != nil {
		return nil, err
	}
	defer f.Close()
	if err := f.Truncate(size); err != nil {
		return nil, err
	}
	exp := make([]byte, size)
	for i, r := range runs {
		d := gen.PRFBytes(seed+uint64(i), int(r[1]))
		for k := range d {
			d[k] |= 1 // never zero: a data block never looks like a hole
		}
		if _, err := f.WriteAt(d, r[0]); err != nil {
			return nil, err
		}
		copy(exp[r[0]:], d)
	}
	return exp, nil
}

func c20BuildTree(root string, shape string, r gen.R, o c20Opts, big bool) ([]*c20File, error) {
	var files []*c20File
	add := func(f *c20File) { files = append(files, f) }
	mk := func(rel string, data []byte, class string) error {
		p := filepath.Join(root, rel)
		os.MkdirAll(filepath.Dir(p), 0o755)
		if err := os.WriteFile(p, data, 0o644); err != nil {
			return err
		}
		add(&c20File{path: rel, data: data, class: class})
		return nil
	}
	bs := int64(o.Block)
	os.MkdirAll(filepath.Join(root, "d"), 0o755)
	add(&c20File{path: "d", dir: true, class: "directory"})
	for i, sz := range []int{0, 1, 59, 60, int(bs) - 1, int(bs), int(bs) + 1, 5*int(bs) + 17, 100000} {
		if err := mk(fmt.Sprintf("d/file%02d.bin", i), append([]byte(fmt.Sprintf("<<file %d>>", i)), gen.PRFBytes(uint64(i+1), sz)...)[:max(sz, 0)], "regular"); err != nil {
			return nil, err
		}
	}
	switch shape {
	case "bigdir":
		n := 400
		if big {
			n = 5000
		}
		os.MkdirAll(filepath.Join(root, "big"), 0o755)
		add(&c20File{path: "big", dir: true, class: "htree-directory"})
		for i := 0; i < n; i++ {
			name := fmt.Sprintf("big/entry_%05d_%s", i, strings.Repeat("x", i%23))
			if err := mk(name, []byte(fmt.Sprintf("content of %d", i)), "file-in-htree-directory"); err != nil {
				return nil, err
			}
		}
	case "htree2":
		// a directory large enough for a hash tree of two levels: names of 241 bytes, so many that the leaf blocks
		// outnumber what one index block can point at; e2fsck -fyD then packs every index node but the last full
		n := map[int64]int{1024: 560, 2048: 2300, 4096: 8800}[bs]
		if n == 0 {
			n = 560
		}
		os.MkdirAll(filepath.Join(root, "big"), 0o755)
		add(&c20File{path: "big", dir: true, class: "htree-directory"})
		for i := 0; i < n; i++ {
			name := fmt.Sprintf("big/entry-%05d-%s", i, strings.Repeat(string(rune('a'+i%26)), 229))
			if err := mk(name, []byte(fmt.Sprintf("content of %d", i)), "file-in-two-level-htree-directory"); err != nil {
				return nil, err
			}
		}
	case "extents", "sparse":
		// many separate data runs -> many extents -> extent tree with interior nodes
		for k, nruns := range []int{2, 6, 30, 420} {
			if nruns > 100 && !big && shape == "sparse" {
				continue
			}
			var runs [][2]int64
			for i := 0; i < nruns; i++ {
				runs = append(runs, [2]int64{int64(i) * 3 * bs, bs})
			}
			size := int64(nruns)*3*bs + bs/2
			rel := fmt.Sprintf("sparse_%d_runs.bin", nruns)
			exp, err := writeSparse(filepath.Join(root, rel), size, runs, uint64(1000*k+7))
			if err != nil {
				return nil, err
			}
			cl := "sparse-file"
			if nruns > 4 {
				cl = "sparse-file-over-4-extents"
			}
			if nruns > 340 {
				cl = "sparse-file-extent-tree-depth-over-1"
			}
			add(&c20File{path: rel, data: exp, class: cl})
		}
		// a file that starts with a hole, and one that ends with a hole
		exp, err := writeSparse(filepath.Join(root, "hole_first.bin"), 10*bs, [][2]int64{{8 * bs, bs}}, 55)
		if err != nil {
			return nil, err
		}
		add(&c20File{path: "hole_first.bin", data: exp, class: "sparse-file"})
		exp, err = writeSparse(filepath.Join(root, "hole_last.bin"), 10*bs, [][2]int64{{0, bs}}, 56)
		if err != nil {
			return nil, err
		}
		add(&c20File{path: "hole_last.bin", data: exp, class: "sparse-file"})
	case "huge":
		// data on both sides of the 2 GiB and 4 GiB file offsets (31/32-bit byte offsets) of a 5 GiB sparse file
		const G = int64(1) << 30
		runs := [][2]int64{{0, bs}, {2*G - bs, 2 * bs}, {3*G + 5*bs, bs}, {4*G - bs, bs}, {4 * G, 3 * bs}, {4*G + 1025*bs, bs}, {5*G - 2*bs, bs}}
		size := 5*G + bs/2
		fp := filepath.Join(root, "huge_sparse.bin")
		fh, err := os.Create(fp)
		if err != nil {
			return nil, err
		}
		if err := fh.Truncate(size); err != nil {
			fh.Close()
			return nil, err
		}
		for i, r := range runs {
			if _, err := fh.WriteAt(hugeRunData(4242, i, r[1]), r[0]); err != nil {
				fh.Close()
				return nil, err
			}
		}
		fh.Close()
		add(&c20File{path: "huge_sparse.bin", class: "sparse-file-with-data-beyond-4GiB", hugeSize: size, hugeRuns: runs, hugeSeed: 4242})
	case "links":
		for i, l := range []int{1, 30, 59, 60, 61, 200, 1000} {
			if l >= int(bs) {
				continue
			}
			tgt := strings.Repeat("t", l)
			if i%2 == 0 && l > 4 {
				tgt = "/" + tgt[1:]
			}
			rel := fmt.Sprintf("link_%d", l)
			if err := os.Symlink(tgt, filepath.Join(root, rel)); err != nil {
				return nil, err
			}
			cl := "fast-symlink"
			if l >= 60 {
				cl = "slow-symlink"
			}
			add(&c20File{path: rel, link: tgt, class: cl})
		}
	}
	// attributes on everything created so far
	modes := []uint32{0o644, 0o600, 0o755, 0o4755, 0o2750, 0o1777, 0o444, 0o7777}
	ids := []int{0, 1, 1000, 65534, 65536, 1 << 31}
	times := []int64{1, 946684800, 1700000000, 2147483647, -150000000, -1, -2147483648}
	// (mke2fs -d itself stores only the low 32 bits of a time - times before 1970 as negative numbers; dates after
	// 2038 are put in afterwards with debugfs, see c20LateTimes)
	for i, f := range files {
		if f.link != "" {
			continue
		}
		if strings.HasPrefix(f.path, "big/") && i%50 != 0 {
			continue
		}
		p := filepath.Join(root, f.path)
		f.mode = modes[i%len(modes)]
		if f.dir {
			f.mode |= 0o700
		}
		f.uid, f.gid = ids[i%len(ids)], ids[(i/2)%len(ids)]
		f.mtime = times[i%len(times)]
		os.Lchown(p, f.uid, f.gid)
		os.Chmod(p, fileModeOf(f.mode))
	}
	for i := len(files) - 1; i >= 0; i-- {
		f := files[i]
		if f.link != "" || f.mtime == 0 {
			continue
		}
		t := time.Unix(f.mtime, 0)
		os.Chtimes(filepath.Join(root, f.path), t, t)
	}
	return files, nil
}

func c20Run(c core.Case, env *core.Env) core.Result {
	var p c20Case
	c.Decode(&p)
	var res core.Result
	r := gen.New(c.Seed)
	o := p.Opts
	pred := o.pred()
	fail := func(rule, cause, f string, a ...any) {
		res.Fail(fmt.Sprintf("C20/ext4/%s/%s", rule, cause), fmt.Sprintf(f, a...), p)
	}
	work := filepath.Join(env.Scratch, "c20-"+core.Hash(c.ID))
	os.RemoveAll(work)
	root := filepath.Join(work, "tree")
	os.MkdirAll(root, 0o755)
	defer os.RemoveAll(work)
	files, err := c20BuildTree(root, p.Shape, r, o, p.Big)
	if err != nil {
		res.Inconclusive = "building the host tree: " + err.Error()
		return res
	}
	img := filepath.Join(work, "fs.img")
	// the image file is not blank (0xA5 everywhere) and mke2fs is told not to discard: blocks that belong to
	// a file without holding its data (unwritten extents) then hold something that must not be shown
	if fimg, e := os.Create(img); e == nil {
		pat := bytes.Repeat([]byte{0xA5}, 1<<20)
		for i := 0; i < o.SizeMB; i++ {
			fimg.Write(pat)
		}
		fimg.Close()
	}
	args := []string{"-q", "-F", "-E", "nodiscard", "-t", o.Type, "-b", fmt.Sprint(o.Block), "-I", fmt.Sprint(o.Inode), "-d", root}
	if len(o.Features) > 0 {
		args = append(args, "-O", strings.Join(o.Features, ","))
	}
	args = append(args, img, fmt.Sprintf("%dM", o.SizeMB))
	if out, err := exec.Command("mke2fs", args...).CombinedOutput(); err != nil {
		res.Count("mke2fs.refused", 1)
		res.Mark("mke2fs refused: " + pred)
		res.Sample = map[string]any{"opts": o, "mke2fs": string(out)}
		return res
	}
	// extended attributes through debugfs
	if p.Shape == "xattrs" || p.Shape == "basic" {
		var cmds []string
		for i, f := range files {
			if f.link != "" || f.dir || i%2 == 1 {
				continue
			}
			f.xattrs = map[string]string{"user.verif": fmt.Sprintf("value-%d", i)}
			cmds = append(cmds, fmt.Sprintf("ea_set \"/%s\" user.verif value-%d", f.path, i))
			if i%6 == 0 {
				// an attribute whose value is empty
				empty := filepath.Join(work, "empty.val")
				os.WriteFile(empty, nil, 0o600)
				f.xattrs["user.empty"] = ""
				cmds = append(cmds, fmt.Sprintf("ea_set -f %s \"/%s\" user.empty", empty, f.path))
			}
			if p.Shape == "xattrs" && i%4 == 0 {
				big := strings.Repeat("v", 300) // does not fit in the inode: goes to the xattr block
				f.xattrs["user.big"] = big
				cmds = append(cmds, fmt.Sprintf("ea_set \"/%s\" user.big %s", f.path, big))
			}
		}
		script := filepath.Join(work, "ea.cmds")
		os.WriteFile(script, []byte(strings.Join(cmds, "\n")+"\n"), 0o600)
		exec.Command("debugfs", "-w", "-f", script, img).CombinedOutput()
	}
	// dates after 2038 (epoch bits in the extra field of 256-byte inodes), set with debugfs set_inode_field
	if o.Inode != 128 && o.Type == "ext4" {
		late := []struct {
			stamp string
			unix  int64
		}{{"20440506070809", 2346131289}, {"22000101000000", 7258118400}, {"24400229235959", 14836953599}}
		k := 0
		for _, f := range files {
			if f.dir || f.link != "" || f.mtime == 0 || strings.HasPrefix(f.path, "big/") {
				continue
			}
			if k%5 == 2 {
				l := late[(k/5)%len(late)]
				out, _ := exec.Command("debugfs", "-w", "-R", fmt.Sprintf("sif \"/%s\" mtime %s", f.path, l.stamp), img).CombinedOutput()
				if !strings.Contains(string(out), "not found") && !strings.Contains(string(out), "nvalid") {
					f.mtime = l.unix
					res.Mark("modification time after 2038 set with debugfs")
				}
			}
			k++
			if k > 40 {
				break
			}
		}
	}
	if o.Index {
		exec.Command("e2fsck", "-fyD", img).CombinedOutput()
	}
	if p.Shape == "extents" && o.Type == "ext4" && !has(o.Features, "^extent") {
		// a preallocated file: two blocks of data followed by eight blocks that are allocated but unwritten
		// (debugfs fallocate, as fallocate(2) leaves them); the size covers them, so they read as zeros
		for _, f := range files {
			if f.path == "d/file06.bin" && len(f.data) == int(o.Block)+1 {
				exec.Command("debugfs", "-w", "-R", fmt.Sprintf("fallocate /%s 1 9", f.path), img).CombinedOutput()
				exec.Command("debugfs", "-w", "-R", fmt.Sprintf("sif /%s size %d", f.path, 10*o.Block), img).CombinedOutput()
				nd := make([]byte, 10*o.Block)
				copy(nd, f.data)
				f.data = nd
				f.class = "file-with-unwritten-extent"
				res.Mark("file with an unwritten (preallocated) extent")
			}
		}
	}
	if p.Shape == "bigdir" {
		// history made with the reference tools: every third file of the big directory is unlinked again with
		// debugfs. An unlinked entry is merged into its predecessor, except the first entry of a directory block,
		// which stays behind as a slot with inode 0 in front of live entries.
		var cmds []string
		var kept []*c20File
		n := 0
		for _, f := range files {
			if strings.HasPrefix(f.path, "big/") && !f.dir {
				n++
				if n%3 == 1 {
					cmds = append(cmds, fmt.Sprintf("rm \"/%s\"", f.path))
					continue
				}
			}
			kept = append(kept, f)
		}
		script := filepath.Join(work, "rm.cmds")
		os.WriteFile(script, []byte(strings.Join(cmds, "\n")+"\n"), 0o600)
		exec.Command("debugfs", "-w", "-f", script, img).CombinedOutput()
		files = kept
		res.Count("debugfs.files_unlinked", int64(len(cmds)))
		res.Mark("directory entries unlinked with debugfs after mke2fs -d")
	}
	if ok, out, _ := e2fsck(img, 0); !ok {
		res.Inconclusive = "the reference image itself is not clean: " + trunc600(out)
		return res
	}
	st, err := monstore.OpenFile(img)
	if err != nil {
		res.Inconclusive = err.Error()
		return res
	}
	defer st.Destroy()
	var fs *ext4.FileSystem
	var rerr error
	if pi := core.Guard(func() { fs, rerr = ext4.Read(fileNewRO(st), st.Size(), 0, 512) }); pi != nil {
		fail("read-panic", pi.Top+":"+pi.Class+"/"+pred, "ext4.Read panicked on a mke2fs image (%s): %s", pred, pi.Msg)
		return res
	}
	if rerr != nil {
		// refusing an image is allowed -- except for the reference tools' default feature set
		res.Count("read.refused", 1)
		res.Mark("image refused: " + pred)
		if pred == "default-features" {
			fail("default-image-refused", "default-features", "ext4.Read refuses an image made by mke2fs with its default ext4 feature set: %v", rerr)
		}
		res.Sample = map[string]any{"opts": o, "refusal": rerr.Error()}
		return res
	}
	res.Count("read.accepted", 1)
	// An error (never wrong data, a panic or a stall) on a path is what the statement allows for an
	// image using something the library does not support. That is block-mapped files (ext2/ext3) and,
	// more generally, any option set other than mke2fs's default: such errors are recorded per
	// option set. On the default feature set every error is a violation.
	unsupported := o.Type != "ext4" || has(o.Features, "^extent") || pred != "default-features"
	// every lookup by path reads the whole directory again: in a directory of thousands of entries the per-path
	// checks are done for an evenly spread sample (and the first and last twenty); the listing comparison
	// further down still covers every name
	inBig := 0
	for _, f := range files {
		if f.class == "file-in-two-level-htree-directory" {
			inBig++
		}
	}
	bigStep, bigSeen := inBig/500+1, 0
	for _, f := range files {
		if f.class == "file-in-two-level-htree-directory" && inBig > 1500 {
			k := bigSeen
			bigSeen++
			if k%bigStep != 0 && k >= 20 && k < inBig-20 {
				res.Count("verified.per_path_checks_sampled_out", 1)
				continue
			}
		}
		cause := f.class + "/" + pred
		var fi iofs.FileInfo
		var serr error
		if pi := core.Guard(func() { fi, serr = fs.Stat(f.path) }); pi != nil {
			fail("stat-panic", pi.Top+":"+pi.Class+"/"+cause, "Stat(%s) panicked: %s", f.path, pi.Msg)
			return res
		}
		if serr != nil {
			if unsupported {
				res.Count("per_path_error_on_non_default_options."+pred, 1)
				res.Mark("error instead of data on: " + pred)
				continue
			}
			fail("stat-error", cause, "Stat(%s) failed: %v", f.path, serr)
			return res
		}
		if f.link != "" {
			tgt, e := fs.ReadLink(f.path)
			if e != nil {
				if unsupported {
					continue
				}
				fail("readlink-error", cause, "ReadLink(%s): %v", f.path, e)
				return res
			}
			if tgt != f.link {
				fail("wrong-link-target", cause, "symlink %s: %d-byte target reads as %d bytes", f.path, len(f.link), len(tgt))
				return res
			}
			res.Count("verified.links", 1)
			continue
		}
		if fi.IsDir() != f.dir {
			fail("kind-confused", cause, "%s: dir=%v reported as dir=%v", f.path, f.dir, fi.IsDir())
			return res
		}
		if f.mode != 0 && modeBits(fi.Mode()) != f.mode {
			fail("wrong-mode", cause, "%s: mode %#o reported as %#o", f.path, f.mode, modeBits(fi.Mode()))
			return res
		}
		if f.mtime != 0 && fi.ModTime().Unix() != f.mtime {
			fail("wrong-mtime", cause, "%s: mtime %d reported as %d", f.path, f.mtime, fi.ModTime().Unix())
			return res
		}
		if sys, ok := fi.Sys().(*ext4.StatT); ok && f.mode != 0 {
			if int(sys.UID) != f.uid || int(sys.GID) != f.gid {
				fail("wrong-owner", cause, "%s: owner %d:%d reported as %d:%d", f.path, f.uid, f.gid, sys.UID, sys.GID)
				return res
			}
		}
		if f.dir {
			// listing must contain exactly the children the host tree has
			var ents []iofs.DirEntry
			var derr error
			if pi := core.Guard(func() { ents, derr = fs.ReadDir(f.path) }); pi != nil {
				fail("readdir-panic", pi.Top+":"+pi.Class+"/"+cause, "ReadDir(%s) panicked: %s", f.path, pi.Msg)
				return res
			}
			if derr != nil {
				if unsupported {
					continue
				}
				fail("readdir-error", cause, "ReadDir(%s): %v", f.path, derr)
				return res
			}
			want := map[string]bool{}
			for _, g := range files {
				if filepath.Dir(g.path) == f.path {
					want[filepath.Base(g.path)] = true
				}
			}
			got := map[string]bool{}
			for _, e := range ents {
				got[e.Name()] = true
			}
			for n := range want {
				if !got[n] {
					fail("listing-missing", cause, "directory %s (%d entries on the host): %q is not listed (%d listed)", f.path, len(want), n, len(got))
					return res
				}
			}
			for n := range got {
				if !want[n] {
					fail("listing-extra", cause, "directory %s lists %q which the host tree does not contain", f.path, n)
					return res
				}
			}
			res.Count("verified.directories", 1)
			continue
		}
		if f.hugeSize > 0 {
			if fi.Size() != f.hugeSize {
				fail("wrong-size", cause, "%s: size %d reported as %d", f.path, f.hugeSize, fi.Size())
				return res
			}
			// probes: every data run, its surroundings, and the holes whose offsets alias a data run modulo 2^31 / 2^32
			bs := int64(o.Block)
			type probe struct{ off, n int64 }
			var probes []probe
			for _, r := range f.hugeRuns {
				probes = append(probes, probe{r[0], r[1]}, probe{max(r[0]-100, 0), r[1] + 200})
				for _, m := range []int64{1 << 31, 1 << 32} {
					for _, q := range []int64{r[0] % m, r[0]%m + m, r[0] + m} {
						if q != r[0] && q+bs <= f.hugeSize {
							probes = append(probes, probe{q, bs})
						}
					}
				}
			}
			probes = append(probes, probe{f.hugeSize - bs/2 - 10, bs/2 + 10})
			bad := false
			for _, pr := range probes {
				n := min(pr.n, f.hugeSize-pr.off)
				exp := f.hugeExpect(pr.off, n)
				got := make([]byte, n)
				var rerr error
				var rn int
				if pi := core.Guard(func() {
					h, e := fs.OpenFile(f.path, os.O_RDONLY)
					if e != nil {
						rerr = e
						return
					}
					defer h.Close()
					if _, e := h.Seek(pr.off, io.SeekStart); e != nil {
						rerr = e
						return
					}
					for tries := 0; rn < len(got) && tries < 10000; tries++ {
						k, e := h.Read(got[rn:])
						rn += k
						if e != nil {
							if e != io.EOF {
								rerr = e
							}
							break
						}
					}
				}); pi != nil {
					fail("read-panic", pi.Top+":"+pi.Class+"/"+cause, "reading %s at offset %d panicked: %s", f.path, pr.off, pi.Msg)
					return res
				}
				res.Count("huge.probes", 1)
				if rerr != nil {
					if unsupported {
						res.Count("per_file_error_on_unsupported_feature", 1)
						bad = true
						break
					}
					fail("read-error", cause, "reading %d bytes of %s at offset %d: %v", n, f.path, pr.off, rerr)
					return res
				}
				if int64(rn) != n || !bytes.Equal(got, exp) {
					where := "a hole"
					if !bytes.Equal(exp, make([]byte, n)) {
						where = "a data run"
					}
					fail("wrong-data", cause, "%s (5 GiB sparse file): %d bytes read at offset %d (%.3f GiB, %s), first difference at +%d", f.path, rn, pr.off, float64(pr.off)/float64(1<<30), where, firstDiffBytes(got[:rn], exp))
					return res
				}
			}
			if !bad {
				res.Count("verified.files", 1)
				res.Mark("file class " + f.class)
			}
			continue
		}
		if fi.Size() != int64(len(f.data)) {
			fail("wrong-size", cause, "%s: size %d reported as %d", f.path, len(f.data), fi.Size())
			return res
		}
		var data []byte
		var derr error
		if pi := core.Guard(func() { data, derr, _ = readAllFS(fs, f.path, len(f.data)) }); pi != nil {
			fail("read-panic", pi.Top+":"+pi.Class+"/"+cause, "reading %s (%s) panicked: %s", f.path, f.class, pi.Msg)
			return res
		}
		if derr != nil {
			if unsupported {
				res.Count("per_file_error_on_unsupported_feature", 1)
				continue
			}
			rule := "read-error"
			if derr.Error() == "no progress" {
				rule = "read-never-finishes"
			}
			fail(rule, cause, "reading %s (%s, %d bytes): %v", f.path, f.class, len(f.data), derr)
			return res
		}
		if !bytes.Equal(data, f.data) {
			fail("wrong-data", cause, "%s (%s): %d bytes read, first difference at %d of %d", f.path, f.class, len(data), firstDiffBytes(data, f.data), len(f.data))
			return res
		}
		res.Count("verified.files", 1)
		res.Mark("file class " + f.class)
		if len(f.xattrs) > 0 {
			var xa map[string][]byte
			var xerr error
			if pi := core.Guard(func() { xa, xerr = fs.GetXattr(f.path) }); pi != nil {
				fail("xattr-panic", pi.Top+":"+pi.Class, "GetXattr(%s) panicked: %s", f.path, pi.Msg)
				return res
			}
			if xerr != nil {
				if unsupported {
					res.Count("per_path_error_on_non_default_options."+pred, 1)
					continue
				}
				fail("xattr-error", pred, "GetXattr(%s): %v", f.path, xerr)
				return res
			}
			for k, v := range f.xattrs {
				loc := "in-inode"
				if len(v) > 200 {
					loc = "xattr-block"
				}
				if got, present := xa[k]; !present {
					fail("missing-xattr", loc+"/"+pred, "%s: xattr %s (%d-byte value) is on the image but not reported", f.path, k, len(v))
					return res
				} else if string(got) != v {
					fail("wrong-xattr", loc+"/"+pred, "%s: xattr %s has %d bytes on the image, %d bytes reported (%q...)", f.path, k, len(v), len(xa[k]), trunc60(string(xa[k])))
					return res
				}
			}
			res.Count("verified.xattrs", 1)
		}
	}
	res.Sig(o, p.Shape)
	res.Mark("shape " + p.Shape)
	res.Mark("options " + pred)
	res.Sample = map[string]any{"opts": o, "shape": p.Shape, "files": len(files)}
	return res
}

var _ = syscall.Stat_t{}

func init() {
	core.Register(&core.Check{
		ID:          "C20",
		Level:       "exploration",
		Rule:        "host trees (regular files of boundary sizes, a directory of 400 (thorough: 5000) entries later hash-indexed by e2fsck -fyD and then thinned by unlinking every third file with debugfs rm (slots with inode 0 in front of live entries), a directory of 560 (2 KiB blocks: 2300, 4 KiB: 8800) names of 241 bytes indexed by e2fsck -fyD into a hash tree of two levels whose index nodes are packed full, sparse files with 2/6/30/420 separate data runs so that extent trees get interior nodes, files beginning or ending with a hole, a 5 GiB sparse file with data runs on both sides of the 2 GiB and 4 GiB offsets (verified by seek+read probes of every run, its surroundings and the holes whose offsets alias a run modulo 2^31 and 2^32), fast and slow symlinks, modes/owners/times on every node, in-inode and block xattrs (also with an empty value) set with debugfs ea_set, a preallocated file with an unwritten extent made by debugfs fallocate; the image file is pre-filled with 0xA5 and mke2fs runs with nodiscard) are put into images by the reference mke2fs -d over a fixed option grid: ext4 with block 1k/2k/4k, inode 128/256, ^64bit, ^flex_bg, ^metadata_csum, ^dir_index, ^huge_file, sparse_super2, ^has_journal, plus ext3 and ext2 images without extents; ext4.Read then walks the image with bounded read loops: tree, contents (holes as zeros), sizes, modes, owners, mtimes, link targets and xattrs must equal the input; refusing an image is allowed (except mke2fs's default feature set); per-file errors are allowed only on block-mapped (ext2/ext3) images; wrong data, panics and reads that never finish are violations; modification times before 1970 (put in by mke2fs -d as negative seconds) and after 2038 (epoch bits of the extra field, set with debugfs set_inode_field on 256-byte inodes: 2044, 2200, 2440); non-trivial = an image the library agreed to open; distinct = distinct (options, shape)",
		Assumptions: []string{"mke2fs/debugfs/e2fsck 1.47.0 are the reference producer; every image is verified clean by e2fsck before the library reads it", "the option grid is fixed (not seeded), so the set of findings on a given tree does not depend on VERIF_SEED"},
		MinSigs:     map[string]int{"quick": 8, "thorough": 40},
		NeedMarks:   []string{"modification time after 2038 set with debugfs", "options default-features", "file class sparse-file-with-data-beyond-4GiB", "directory entries unlinked with debugfs after mke2fs -d", "shape bigdir", "shape extents", "shape links", "shape htree2"},
		CPUSec:      900,
		Cases: func(seed int64, tier string) []core.Case {
			r := gen.New(0xC20C20) // fixed grid
			var cs []core.Case
			add := func(o c20Opts, shape string, big bool) {
				cs = append(cs, core.MkCase(fmt.Sprintf("%s-%s-%d", o.pred(), shape, len(cs)), "mke2fs", r.Int63(), c20Case{Opts: o, Shape: shape, Big: big}))
			}
			def := c20Opts{Type: "ext4", Block: 4096, Inode: 256, SizeMB: 64, Index: true}
			for _, sh := range []string{"basic", "bigdir", "extents", "sparse", "links", "xattrs", "huge"} {
				add(def, sh, tier == "thorough")
			}
			add(c20Opts{Type: "ext4", Block: 1024, Inode: 256, SizeMB: 32, Index: true}, "htree2", false)
			if tier == "thorough" {
				add(c20Opts{Type: "ext4", Block: 2048, Inode: 256, SizeMB: 64, Index: true}, "htree2", false)
				add(c20Opts{Type: "ext4", Block: 4096, Inode: 256, SizeMB: 128, Index: true}, "htree2", false)
				add(c20Opts{Type: "ext4", Block: 1024, Inode: 128, SizeMB: 32, Features: []string{"^metadata_csum"}, Index: true}, "htree2", false)
			}
			variants := []c20Opts{
				{Type: "ext4", Block: 1024, Inode: 256, SizeMB: 32, Index: true},
				{Type: "ext4", Block: 2048, Inode: 128, SizeMB: 32, Index: true},
				{Type: "ext4", Block: 4096, Inode: 256, SizeMB: 64, Features: []string{"^64bit"}, Index: true},
				{Type: "ext4", Block: 4096, Inode: 256, SizeMB: 64, Features: []string{"^flex_bg"}, Index: true},
				{Type: "ext4", Block: 4096, Inode: 256, SizeMB: 64, Features: []string{"^metadata_csum"}, Index: true},
				{Type: "ext4", Block: 4096, Inode: 256, SizeMB: 64, Features: []string{"^dir_index"}},
				{Type: "ext4", Block: 4096, Inode: 256, SizeMB: 64, Features: []string{"^huge_file"}, Index: true},
				{Type: "ext4", Block: 4096, Inode: 256, SizeMB: 64, Features: []string{"sparse_super2"}, Index: true},
				{Type: "ext4", Block: 4096, Inode: 256, SizeMB: 64, Features: []string{"^has_journal"}, Index: true},
				{Type: "ext3", Block: 4096, Inode: 256, SizeMB: 64, Index: true},
				{Type: "ext2", Block: 1024, Inode: 128, SizeMB: 32},
			}
			shapes := []string{"basic", "bigdir", "extents", "links"}
			for i, v := range variants {
				if tier == "thorough" {
					for _, sh := range []string{"basic", "bigdir", "extents", "sparse", "links", "xattrs"} {
						add(v, sh, false)
					}
					if v.Type == "ext4" {
						add(v, "huge", false)
					}
				} else {
					add(v, shapes[i%len(shapes)], false)
				}
			}
			return cs
		},
		Run: c20Run,
	})
}
