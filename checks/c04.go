package checks

import (
	"fmt"

	"verif/internal/core"
	"verif/internal/gen"
)

var c04Avoid = []string{}

func ext4Configs() []Ext4Cfg {
	nr := []string{"resize_inode"} // explicit 2/4 KiB blocks on small volumes are refused with the resize inode on
	return []Ext4Cfg{
		{Size: 16 << 20},                                             // library default: 1 KiB blocks, 2 groups
		{Size: 32 << 20, SPB: 8, Off: nr},                            // 4 KiB blocks
		{Size: 24 << 20, SPB: 2, Start: 1 << 20},                     // 1 KiB blocks at non-zero start
		{Size: 32 << 20, SPB: 4, Off: nr},                            // 2 KiB blocks
		{Size: 16 << 20, Off: []string{"journal"}},                   // no journal
		{Size: 32 << 20, SPB: 8, Off: []string{"resize_inode", "metadata_csum"}},
		{Size: 8 << 20, Off: nr},                                     // single group (refused with the resize inode on)
		{Size: 64 << 20, SPB: 8, Start: 4096, Off: []string{"resize_inode", "journal"}},
	}
}

func c04Cases(seed int64, tier string) []core.Case {
	r := gen.New(seed ^ 0xC04)
	n, steps := 40, 90
	if tier == "thorough" {
		n, steps = 600, 160
	}
	cfgs := ext4Configs()
	var cs []core.Case
	for i := 0; i < n; i++ {
		cfg := cfgs[i%len(cfgs)]
		ec := ext4Case{Cfg: cfg, Mode: "random", Steps: steps/2 + r.Intn(steps), Reopen: 9, Handles: i%3 == 0, Big: i%5 == 4, Avoid: c04Avoid}
		if tier == "thorough" && i%40 == 39 {
			ec.Cfg.Size = 256 << 20
		}
		cs = append(cs, core.MkCase(fmt.Sprintf("random-%d", i), "history", r.Int63(), ec))
	}
	for i, cfg := range []Ext4Cfg{{Size: 16 << 20}, {Size: 16 << 20, SPB: 8, Start: 1 << 20}} {
		cs = append(cs, core.MkCase(fmt.Sprintf("fill-%d", i), "fill", seed+int64(i), ext4Case{Cfg: cfg, Mode: "fill"}))
	}
	cs = append(cs, core.MkCase("dirgrow-0", "dirgrow", seed, ext4Case{Cfg: Ext4Cfg{Size: 16 << 20}, Mode: "dirgrow", Steps: 60}))
	cs = append(cs, core.MkCase("appendspan-0", "appendspan", seed, ext4Case{Cfg: Ext4Cfg{Size: 32 << 20, SPB: 2, BPG: 4096}, Mode: "appendspan", Steps: 330}))
	cs = append(cs, core.MkCase("inodeedge-0", "inodeedge", seed, ext4Case{Cfg: Ext4Cfg{Size: 16 << 20}, Mode: "inodeedge"}))
	for i, cfg := range []Ext4Cfg{{Size: 16 << 20}, {Size: 32 << 20, SPB: 8, Off: []string{"resize_inode"}, Start: 1 << 20}} {
		cs = append(cs, core.MkCase(fmt.Sprintf("stalegap-%d", i), "stalegap", seed+int64(i), ext4Case{Cfg: cfg, Mode: "stalegap"}))
	}
	for i, cfg := range []Ext4Cfg{{Size: 64 << 20}, {Size: 32 << 20, SPB: 2, BPG: 2048, Start: 1 << 20}} {
		cs = append(cs, core.MkCase(fmt.Sprintf("bigwrite-%d", i), "bigwrite", seed+int64(i), ext4Case{Cfg: cfg, Mode: "bigwrite"}))
	}
	nf := 4
	if tier == "thorough" {
		nf = 40
	}
	for i := 0; i < nf; i++ {
		cs = append(cs, core.MkCase(fmt.Sprintf("dirfrag-%d", i), "dirfrag", r.Int63(), ext4Case{Cfg: Ext4Cfg{Size: 16 << 20, SPB: []uint8{2, 2, 8, 4}[i%4]}, Mode: "dirfrag"}))
	}
	if tier == "thorough" {
		cs = append(cs, core.MkCase("dirgrow-1", "dirgrow", seed+1, ext4Case{Cfg: Ext4Cfg{Size: 64 << 20, SPB: 8, Start: 1 << 20}, Mode: "dirgrow", Steps: 400}))
	}
	return cs
}

func init() {
	core.Register(&core.Check{
		ID:    "C04",
		Level: "exploration",
		Rule: "seeded operation histories on ext4 volumes created by the library (1/2/4 KiB blocks, with/without journal, metadata_csum or gdt_csum, single and multi-group, start 0 / 4 KiB / 1 MiB): mkdir, create, write at offsets that extend/overlap/leave a gap, append (several steps, so extent trees grow), symlinks with targets of 1..4095 bytes incl. 59/60/61, remove, truncating open, chmod/chown/chtimes, rename (driven as a refusal), invalid calls, up to 3 open handles, fill-to-no-space/remove/refill, two directories of 150..240-character names growing block by block between file allocations (directory spanning many extents), thinned and regrown, a directory built in 2-4 extents of chosen lengths with a data file right behind each and shrunk about half a block at a time with an allocation and a full comparison after every step, the inode table used up twice with directories / symlinks and files on the last and first inode numbers of every block group and everything removed again; after every call all listings, contents, link targets and changed attributes are compared with an in-memory reference tree, live and periodically through a fresh ext4.Read of the image bytes; reading a file the library wrote must never fail, panic or stall (bounded read loop); directed workloads: writes that start behind the end of small files on free space holding old data (gap inside the block the file owns, at its last byte, in the next block, blocks further), and single Write/append calls larger than a block group (one allocation served from several groups); non-trivial = history with >=1 accepted mutating call; distinct = distinct (config, executed history)",
		Assumptions: []string{"rename is outside the statement for ext4 (driven only as a refusal)", "names are case-sensitive; a file with an open handle is only modified through that handle"},
		MinSigs:   map[string]int{"quick": 30, "thorough": 400},
		NeedMarks: []string{"single writes larger than a block group", "writes behind the end of a file on free space holding old data"},
		CPUSec:    900,
		Cases:     c04Cases,
		Run:       func(c core.Case, env *core.Env) core.Result { return runExt4Case("C04", c, env) },
		Post: func(a *core.Aggregate, cases []core.Case) {
			a.Extra["avoidance"] = c04Avoid
		},
	})
}
