package checks

import (
	"fmt"
	"os"
	"path/filepath"
	"strings"

	"github.com/diskfs/go-diskfs/filesystem/squashfs"

	"verif/internal/core"
	"verif/internal/gen"
	"verif/internal/monstore"
	"verif/internal/sqck"
)

type c07Case struct {
	Shape   string   `json:"shape"`
	Configs []SqOpts `json:"configs"`
	Start   int64    `json:"start"`
	Tree    Tree     `json:"tree,omitempty"`
}

func c07Tree(r gen.R, shape string, big bool) Tree {
	switch shape {
	case "many-entries":
		var t Tree
		t = append(t, TNode{Path: "big", Dir: true}, TNode{Path: "empty_dir", Dir: true}, TNode{Path: "big/sub_empty", Dir: true})
		n := 260 + r.Intn(140)
		if big {
			n = 300 + r.Intn(900)
		}
		for i := 0; i < n; i++ {
			name := fmt.Sprintf("entry_%04d_%s", i, strings.Repeat("n", r.Intn(40)))
			t = append(t, TNode{Path: "big/" + name, Size: r.Intn(3) * 10, Seed: uint64(i + 1)})
		}
		return t
	case "inode-farm":
		// inodes of many different sizes in one flat directory, so that every 8 KiB metadata-block boundary of
		// the inode table falls inside some inode, at varying positions: symlinks with 40..250-byte targets,
		// files with 1..12 data blocks (block lists of varying length), empty files, small directories
		t := Tree{{Path: "farm", Dir: true}}
		n := 450 + r.Intn(200)
		for i := 0; i < n; i++ {
			name := fmt.Sprintf("farm/%c%03d%s", 'a'+rune(r.Intn(26)), i, strings.Repeat("_", r.Intn(12)))
			switch r.Intn(10) {
			case 0, 1, 2, 3, 4, 5:
				l := 40 + r.Intn(211)
				t = append(t, TNode{Path: name, Link: strings.Repeat("t", l-len(name)%7-3) + fmt.Sprintf("%03d", i)})
			case 6:
				t = append(t, TNode{Path: name, Dir: true})
			case 7:
				t = append(t, TNode{Path: name, Size: 0})
			default:
				t = append(t, TNode{Path: name, Size: (1+r.Intn(12))*4096 - r.Intn(2)*100, Seed: uint64(i + 1)})
			}
		}
		return t
	case "fragment-farm":
		// every file is one tail just under the block size, so each gets a fragment block of its own: with more
		// than 512 of them the fragment table (16-byte entries, 512 per 8 KiB metadata block) needs several
		// metadata blocks and a multi-entry index
		t := Tree{{Path: "tails", Dir: true}}
		n := 530 + r.Intn(600)
		for i := 0; i < n; i++ {
			t = append(t, TNode{Path: fmt.Sprintf("tails/t%04d", i), Size: 3300 + r.Intn(790), Seed: uint64(i + 1)})
		}
		return t
	case "many-dirs":
		// several directories with hundreds of entries each, nested and side by side: the directory table is many
		// metadata blocks long and most directories start somewhere in the middle of it
		var t Tree
		for d := 0; d < 6; d++ {
			dir := fmt.Sprintf("dir%d", d)
			if d%3 == 2 {
				dir = fmt.Sprintf("dir%d/nested", d-1)
			}
			t = append(t, TNode{Path: dir, Dir: true})
			n := 150 + r.Intn(350)
			for i := 0; i < n; i++ {
				t = append(t, TNode{Path: fmt.Sprintf("%s/entry_%04d_%s", dir, i, strings.Repeat("k", r.Intn(20))), Size: r.Intn(2) * 7, Seed: uint64(1000*d + i + 1)})
			}
		}
		return t
	case "huge-dir":
		// one flat directory whose listing is longer than 64 KiB (more than an 16-bit directory size can say)
		t := Tree{{Path: "huge", Dir: true}}
		n := 4700 + r.Intn(600)
		for i := 0; i < n; i++ {
			t = append(t, TNode{Path: fmt.Sprintf("huge/h%05d", i), Size: 0})
		}
		return t
	case "sizes":
		var t Tree
		for i, sz := range []int{0, 1, 4095, 4096, 4097, 8192, 8192 + 100, 131072, 131073, 3*131072 + 5, 1<<20 + 17, 200} {
			t = append(t, TNode{Path: fmt.Sprintf("s%02d.bin", i), Size: sz, Seed: uint64(i + 1), Kind: []string{"prf", "text", "zeros", "sparse"}[i%4]})
		}
		return t
	case "small-files":
		t := Tree{{Path: "frag", Dir: true}}
		for i := 0; i < 150; i++ {
			t = append(t, TNode{Path: fmt.Sprintf("frag/f%03d", i), Size: 1 + r.Intn(3000), Seed: uint64(i + 1), Kind: []string{"prf", "text"}[i%2]})
		}
		return t
	case "symlinks":
		t := genTree(r, TreeCfg{Dirs: 4, Files: 12, Depth: 3, Unit: 4096, MaxSize: 20000, Symlinks: 6})
		t = append(t, TNode{Path: "longlink", Link: strings.Repeat("a/", 300) + "end"}, TNode{Path: "dangling", Link: "/does/not/exist"})
		return t
	case "long-names":
		t := genTree(r, TreeCfg{Dirs: 5, Files: 30, Depth: 4, Unit: 4096, MaxSize: 9000, LongNames: true, Unicode: true})
		t = append(t, TNode{Path: strings.Repeat("x", 255), Size: 10, Seed: 9})
		return t
	}
	return genTree(r, TreeCfg{Dirs: 2 + r.Intn(8), Files: 10 + r.Intn(40), Depth: 5, Unit: 4096, MaxSize: 300000, Symlinks: r.Intn(3)})
}

func c07Run(c core.Case, env *core.Env) core.Result {
	var p c07Case
	c.Decode(&p)
	var res core.Result
	r := gen.New(c.Seed)
	t := p.Tree
	if t == nil {
		t = c07Tree(r, p.Shape, env.Tier == "thorough")
	}
	want := treeToObs(t)
	wantCanon := want.canon()
	hasLinks := false
	for _, n := range t {
		if n.Link != "" {
			hasLinks = true
		}
	}
	// the worker's cwd must not be the workspace (relative path handling is part of what is observed)
	os.Chdir(filepath.Join(env.Scratch))
	size := int64(64 << 20)
	var firstCanon string
	for ci, o := range p.Configs {
		cfgName := fmt.Sprintf("%s/block-%d", o.Comp, o.Block)
		if o.NoFragments {
			cfgName += "/nofrag"
		}
		replay := core.MkCase("tree-"+core.Hash(o, p.Start, t), c.Kind, c.Seed, c07Case{Shape: p.Shape, Configs: []SqOpts{o}, Start: p.Start, Tree: t})
		fail := func(rule, cause, f string, a ...any) {
			res.FailReplay(fmt.Sprintf("C07/squashfs/%s/%s", rule, cause), fmt.Sprintf(f, a...), map[string]any{"config": o, "start": p.Start, "shape": p.Shape, "nodes": len(t)}, replay)
		}
		st := monstore.NewMemFilled(p.Start+size+1<<20, uint64(c.Seed)|1) // not blank: a reused image file or partition
		st.SetLog(false)
		err, pi := guardErr(func() error { return buildSquash(st, size, p.Start, o, t) })
		res.Count("finalize.calls", 1)
		if pi != nil {
			fail("finalize-panic", pi.Top+":"+pi.Class, "Finalize (%s) panicked: %s", cfgName, pi.Msg)
			continue
		}
		if err != nil {
			cause := "other"
			switch {
			case strings.Contains(err.Error(), "symlink"):
				cause = "tree-with-symlink"
			case strings.Contains(err.Error(), "xattr"):
				cause = "xattr-listing"
				if hasLinks {
					cause = "xattr-listing-of-symlink"
				}
			}
			fail("finalize-refuses", cause, "Finalize (%s) refused a tree of directories, regular files and symlinks: %v", cfgName, err)
			continue
		}
		res.Count("finalize.accepted."+o.Comp, 1)
		// (c) superblock vs bytes written
		sb, perr := sqck.Parse(st.Peek(p.Start, 96))
		if perr != nil {
			fail("superblock", "unreadable", "%v", perr)
			continue
		}
		for _, pr := range sb.Check() {
			fail("superblock", classifyProblem(pr), "independent superblock reader (%s): %s", cfgName, pr)
		}
		maxW := st.MaxW - p.Start
		up := (int64(sb.BytesUsed) + 4095) / 4096 * 4096
		if int64(sb.BytesUsed) > maxW || maxW > up || (o.NoPad && maxW != int64(sb.BytesUsed)) {
			fail("superblock", "bytes-used-differs-from-bytes-written", "bytes_used=%d but Finalize wrote up to offset %d of the image (%s, nopad=%v)", sb.BytesUsed, maxW, cfgName, o.NoPad)
		}
		if int(sb.InodeCount) != len(t)+1 {
			fail("superblock", "inode-count", "inode count %d, the tree has %d nodes plus the root (%s)", sb.InodeCount, len(t), cfgName)
		}
		if o.Block != 0 && int64(sb.BlockSize) != o.Block {
			fail("superblock", "block-size", "block size %d, asked for %d", sb.BlockSize, o.Block)
		}
		if o.NoFragments && sb.FragCount != 0 {
			// the option only sets the superblock flag; the statement speaks of size fields and of
			// the content read back, so this is recorded, not reported
			res.Count("recorded_not_demanded.fragments_written_despite_NoFragments", 1)
		}
		res.Count("sqck.superblocks_checked", 1)
		// (a) re-open and walk, under several cache sizes
		blk := o.Block
		if blk == 0 {
			blk = 4096
		}
		caches := []int{-1}
		if (ci < 2 || len(t) < 120) && len(t) < 2500 {
			caches = []int{-1, 0, int(blk), 3 * int(blk)}
		}
		for _, cache := range caches {
			var fs *squashfs.FileSystem
			var rerr error
			if pi := core.Guard(func() { fs, rerr = squashfs.Read(fileNewRO(st), size, p.Start, blk) }); pi != nil {
				fail("read-panic", pi.Top+":"+pi.Class, "squashfs.Read panicked (%s): %s", cfgName, pi.Msg)
				break
			}
			if rerr != nil {
				fail("reopen-error", cfgName, "squashfs.Read of the finalized image failed: %v", rerr)
				break
			}
			cacheName := "default"
			if cache >= 0 {
				fs.SetCacheSize(cache)
				cacheName = fmt.Sprintf("%d-blocks", cache/int(blk))
			}
			budget := len(t)*2 + 50
			var got *obsNode
			var werr error
			if pi := core.Guard(func() { got, werr = walkLib(fs, "", 0, &budget) }); pi != nil {
				fail("walk-panic", pi.Top+":"+pi.Class, "walking the image panicked (%s, cache %s): %s", cfgName, cacheName, pi.Msg)
				break
			}
			if werr != nil {
				fail("walk-error", o.Comp+"/cache-"+cacheName, "walking the image failed (%s, cache %s): %v", cfgName, cacheName, werr)
				break
			}
			res.Count("walks", 1)
			nb := 0
			matchTrees(want, got, "", true, func(rule, detail string) {
				nb++
				if nb <= 2 {
					fail("tree/"+rule, o.Comp+"/cache-"+cacheName, "%s (%s, cache %s)", detail, cfgName, cacheName)
				}
			})
			gc := got.canon()
			if firstCanon == "" {
				firstCanon = gc
			} else if gc != firstCanon {
				fail("differential", "result-depends-on-configuration", "the same tree reads back differently under %s (cache %s) than under the first configuration", cfgName, cacheName)
			}
			_ = wantCanon
			res.Mark("cache " + cacheName)
		}
		res.Sig(o, p.Start, core.Hash(t))
		res.Mark("comp " + o.Comp)
		if o.NoFragments {
			res.Mark("no fragments")
		}
		res.Mark(fmt.Sprintf("block %d", blk))
		_ = ci
	}
	res.Evals = int64(len(p.Configs))
	res.Mark("shape " + p.Shape)
	if p.Start > 0 {
		res.Mark("image at non-zero start")
	}
	res.Sample = map[string]any{"shape": p.Shape, "start": p.Start, "nodes": len(t), "configs": len(p.Configs)}
	return res
}

func init() {
	shapes := []string{"mixed", "many-entries", "sizes", "small-files", "symlinks", "long-names", "inode-farm", "fragment-farm", "many-dirs", "huge-dir"}
	core.Register(&core.Check{
		ID:    "C07",
		Level: "exploration",
		Rule: "generated workspace trees (mixed; a directory with 300-1200 entries so listings span metadata blocks; sizes 0,1,block-1,block,block+1,...; 150 small files sharing fragment blocks; zero runs, compressible and incompressible data; symlinks incl. dangling and 600-byte targets; names up to 255 bytes; a flat directory of 450-650 inodes of varying sizes - symlinks with 40..250-byte targets, files with 1..12-entry block lists, empty files, directories - so that every 8 KiB metadata-block boundary of the inode table falls inside some inode at a varying position; 530-1130 files of just under one 4 KiB block each, so that the fragment table spans several metadata blocks; six directories of 150-500 entries each, nested and side by side, so that most directories start in the middle of a directory table many metadata blocks long; one flat directory of 4700-5300 entries, a listing beyond 64 KiB) finalized under every configuration of a matrix {none, gzip, xz, lz4, zstd} x {fragments, NoFragments} x block size {4 KiB, 128 KiB, 1 MiB} x NoCompress*/NoPad flags at start 0 or 1 MiB, on storage pre-filled with a non-zero pattern; each image is re-opened and walked with cache sizes {default, 0, 1 block, 3 blocks}: directories, byte-identical contents and link targets must equal the source and the canonical form must be identical across all configurations (differential); an independent superblock reader checks bytes_used against the highest byte Finalize wrote (write log of the store), table pointers, inode count, block size/log, fragment count; a Finalize refusal for a tree of directories, files and symlinks is a violation; non-trivial = image finalized and walked; distinct = distinct (configuration, start, tree)",
		Assumptions: []string{"the worker's cwd is deliberately not the workspace", "bytes_used may be followed by padding up to the next 4 KiB boundary unless NoPad"},
		MinSigs:   map[string]int{"quick": 40, "thorough": 1500},
		NeedMarks: []string{"comp none", "comp gzip", "comp xz", "comp lz4", "comp zstd", "no fragments", "cache 0-blocks", "cache 1-blocks", "image at non-zero start", "shape many-entries", "shape symlinks", "shape inode-farm", "shape fragment-farm", "shape many-dirs", "shape huge-dir"},
		CPUSec:    900,
		Cases: func(seed int64, tier string) []core.Case {
			r := gen.New(seed ^ 0xC07)
			n := 20
			if tier == "thorough" {
				n = 200
			}
			comps := []string{"none", "gzip", "xz", "lz4", "zstd"}
			var cs []core.Case
			for i := 0; i < n; i++ {
				var cfgs []SqOpts
				if tier == "thorough" && i%4 == 0 {
					for _, cp := range comps {
						for _, nf := range []bool{false, true} {
							for _, b := range []int64{4096, 131072, 1 << 20} {
								cfgs = append(cfgs, SqOpts{Comp: cp, NoFragments: nf, Block: b})
							}
						}
					}
				} else {
					for j, cp := range comps {
						cfgs = append(cfgs, SqOpts{Comp: cp, NoFragments: (i+j)%2 == 0, Block: []int64{4096, 131072, 8192, 1 << 20}[(i+j)%4]})
					}
					cfgs = append(cfgs, SqOpts{Comp: "gzip", Block: 4096, NoPad: true, NoCompInodes: i%2 == 0, NoCompFrags: i%2 == 1}, SqOpts{Comp: "gzip", Block: 4096, NonSparse: true, NoCompData: true})
				}
				if sh := shapes[i%len(shapes)]; sh == "many-dirs" || sh == "huge-dir" {
					cfgs = []SqOpts{{Comp: "gzip", Block: 4096}, {Comp: "none", Block: 131072}}
				}
				if shapes[i%len(shapes)] == "fragment-farm" {
					// needs small blocks and fragments switched on
					cfgs = []SqOpts{{Comp: "none", Block: 4096}, {Comp: "gzip", Block: 4096}, {Comp: "zstd", Block: 4096, NoCompFrags: true}}
				}
				cs = append(cs, core.MkCase(fmt.Sprintf("tree-%d", i), "tree", r.Int63(), c07Case{Shape: shapes[i%len(shapes)], Configs: cfgs, Start: []int64{0, 1 << 20}[i%2]}))
			}
			return cs
		},
		Run: c07Run,
	})
}
