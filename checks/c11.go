package checks

import (
	"strings"
	"bytes"
	"crypto/sha256"
	"encoding/hex"
	"errors"
	"fmt"
	"io"
	"os"
	"path/filepath"
	"time"

	diskfs "github.com/diskfs/go-diskfs"
	"github.com/diskfs/go-diskfs/backend"
	"github.com/diskfs/go-diskfs/backend/file"
	"github.com/diskfs/go-diskfs/disk"
	"github.com/diskfs/go-diskfs/filesystem"
	"github.com/diskfs/go-diskfs/filesystem/ext4"
	"github.com/diskfs/go-diskfs/filesystem/iso9660"
	"github.com/diskfs/go-diskfs/filesystem/squashfs"
	"github.com/diskfs/go-diskfs/partition/gpt"
	"github.com/diskfs/go-diskfs/partition/mbr"

	"verif/internal/core"
	"verif/internal/gen"
	"verif/internal/monstore"
)

type c11Case struct {
	Image string `json:"image"` // fat12 fat16 fat32 ext4 iso9660 squashfs gpt+fat32 mbr+fat16
	Route string `json:"route"` // store-ro | writable-fails | diskfs-open-ro | openfrompath-ro | writable-reads | finalized-writable
	Calls int    `json:"calls"`
	// Damage: a stale or inconsistent spot that a reader might be tempted to "repair" while opening or
	// reading: the image must not change whatever it finds
	Damage string `json:"damage,omitempty"`
}

var c11Damages = map[string][]string{
	"gpt+fat32": {"image-cut-short", "gpt-primary-header", "gpt-primary-entries", "gpt-backup-header", "fsinfo-stale", "fat-copies-differ", "fat-dirty-flag"},
	"fat32":     {"fsinfo-stale", "fat-copies-differ", "fat-dirty-flag"},
	"fat16":     {"fat-copies-differ", "fat-dirty-flag"},
	"fat12":     {"fat-copies-differ"},
	"mbr+fat16": {"image-cut-short", "fat-copies-differ", "fat-dirty-flag"},
	"ext4":      {"ext4-not-clean", "ext4-mount-count-at-max", "ext4-errors-flag"},
}

// c11Damage edits img in place; start is the filesystem's offset in the image.
func c11Damage(img []byte, kind, image string, start int64) {
	le16 := func(o int64) int64 { return int64(img[o]) | int64(img[o+1])<<8 }
	le32 := func(o int64) int64 { return le16(o) | le16(o+2)<<16 }
	fatGeom := func() (fat1, fatBytes int64, is32 bool) {
		reserved := le16(start + 14)
		sz := le16(start + 22)
		if sz == 0 {
			sz, is32 = le32(start+36), true
		}
		return start + reserved*512, sz * 512, is32
	}
	switch kind {
	case "gpt-primary-header":
		img[512+56] ^= 0xff // disk GUID: header CRC no longer matches, the backup is intact
	case "gpt-primary-entries":
		img[1024+60] ^= 0xff // name of entry 1: entries CRC no longer matches
	case "gpt-backup-header":
		img[int64(len(img))-512+56] ^= 0xff
	case "fsinfo-unknown":
		for i := int64(488); i < 496; i++ {
			img[start+512+i] = 0xff // free count and next-free hint "unknown"
		}
	case "fsinfo-stale":
		img[start+512+488] ^= 0x55 // a wrong free-cluster count
	case "fat-copies-differ":
		f1, fb, _ := fatGeom()
		img[f1+fb+fb-1] ^= 0x01 // last byte of the second copy (slack beyond the last cluster)
	case "fat-dirty-flag":
		f1, fb, is32 := fatGeom()
		for _, f := range []int64{f1, f1 + fb} {
			if is32 {
				img[f+7] &^= 0x08 // FAT[1] bit 27: volume was not cleanly unmounted
			} else if image != "fat12" {
				img[f+3] &^= 0x80 // FAT[1] bit 15
			}
		}
	case "ext4-not-clean":
		img[start+1024+0x3a] = 0 // s_state: not cleanly unmounted
		img[start+1024+0x3b] = 0
	case "ext4-errors-flag":
		img[start+1024+0x3a] = 3 // clean | errors detected
	case "ext4-mount-count-at-max":
		img[start+1024+0x34], img[start+1024+0x35] = 0xfe, 0x7f // s_mnt_count
		img[start+1024+0x36], img[start+1024+0x37] = 0xfe, 0x7f // s_max_mnt_count
	}
}

// failingWritable is a backend whose Writable() fails although the file below is writable.
type failingWritable struct{ backend.Storage }

func (f failingWritable) Writable() (backend.WritableFile, error) {
	return nil, errors.New("verif: this backend refuses Writable()")
}

// sealable is a backend whose Writable() succeeds until it is sealed (a write-protect switch, a lease that
// ended): from then on it is a backend whose Writable() fails, for objects made before as for new ones.
type sealable struct {
	backend.Storage
	sealed *bool
}

func (f sealable) Writable() (backend.WritableFile, error) {
	if *f.sealed {
		return nil, errors.New("verif: this backend has been sealed and refuses Writable()")
	}
	return f.Storage.Writable()
}

const c11Part = 1 << 20 // partition start for the table images

// c11Build writes the image into st and returns (fs range start, fs range size, has table).
func c11Build(st *monstore.Store, kind string) (start, size int64, table string, sector int, err error) {
	sector = 512
	t := Tree{{Path: "DIR", Dir: true}, {Path: "DIR/A.TXT", Size: 5000, Seed: 1}, {Path: "B.DAT", Size: 100, Seed: 2}, {Path: "EMPTY", Size: 0}}
	switch kind {
	case "fat12", "fat16", "fat32":
		v := FatVol{Type: kind, Size: map[string]int64{"fat12": 1474560, "fat16": 16 << 20, "fat32": 33 << 20}[kind], Sector: 512, Label: "RO"}
		fs, e := fatCreate(st, v)
		if e != nil {
			return 0, 0, "", 0, e
		}
		return 0, v.Size, "", 512, populate(fs, t)
	case "ext4":
		t2 := append(Tree{{Path: "LINK", Link: "B.DAT"}}, t...)
		_, e := buildExt4(st, 16<<20, 0, &ext4.Params{}, t2)
		return 0, 16 << 20, "", 512, e
	case "iso9660":
		return 0, 8 << 20, "", 2048, buildISO(st, 8<<20, 0, ISOOpts{RockRidge: true}, t)
	case "squashfs":
		return 0, 8 << 20, "", 4096, buildSquash(st, 8<<20, 0, SqOpts{Comp: "gzip"}, t)
	case "blank512", "blank4k":
		// a disk nobody has written to yet
		if kind == "blank4k" {
			sector = 4096
		}
		return 0, 32 << 20, "", sector, nil
	case "gpt+blank4k", "mbr+blank512":
		// a partitioned disk whose partition has never been used
		sector = 512
		if kind == "gpt+blank4k" {
			sector = 4096
		}
		d, e := diskfs.OpenBackend(file.New(st, false), sectorOpt(sector))
		if e != nil {
			return 0, 0, "", 0, e
		}
		psize := int64(24 << 20)
		if kind == "gpt+blank4k" {
			table = "gpt"
			e = d.Partition(&gpt.Table{LogicalSectorSize: sector, PhysicalSectorSize: sector, ProtectiveMBR: true, Partitions: []*gpt.Partition{{Index: 1, Start: uint64(c11Part / sector), End: uint64((c11Part+psize)/int64(sector)) - 1, Type: gpt.LinuxFilesystem, Name: "p1"}}})
		} else {
			table = "mbr"
			e = d.Partition(&mbr.Table{LogicalSectorSize: 512, PhysicalSectorSize: 512, Partitions: []*mbr.Partition{{Index: 1, Type: mbr.Linux, Start: c11Part / 512, Size: uint32(psize / 512)}}})
		}
		return c11Part, psize, table, sector, e
	case "gpt+fat32", "mbr+fat16":
		d, e := diskfs.OpenBackend(file.New(st, false))
		if e != nil {
			return 0, 0, "", 0, e
		}
		psize := int64(34 << 20)
		if kind == "gpt+fat32" {
			e = d.Partition(&gpt.Table{LogicalSectorSize: 512, PhysicalSectorSize: 512, ProtectiveMBR: true, Partitions: []*gpt.Partition{{Index: 1, Start: c11Part / 512, End: uint64(c11Part+psize)/512 - 1, Type: gpt.LinuxFilesystem, Name: "p1"}}})
			table = "gpt"
		} else {
			psize = 16 << 20
			e = d.Partition(&mbr.Table{LogicalSectorSize: 512, PhysicalSectorSize: 512, Partitions: []*mbr.Partition{{Index: 1, Type: mbr.Fat16, Start: c11Part / 512, Size: uint32(psize / 512)}}})
			table = "mbr"
		}
		if e != nil {
			return 0, 0, "", 0, e
		}
		ft := filesystem.TypeFat32
		if kind == "mbr+fat16" {
			ft = filesystem.TypeFat16
		}
		fs, e := d.CreateFilesystem(disk.FilesystemSpec{Partition: 1, FSType: ft, VolumeLabel: "RO"})
		if e != nil {
			return 0, 0, "", 0, e
		}
		return c11Part, psize, table, 512, populate(fs, t)
	}
	return 0, 0, "", 0, fmt.Errorf("unknown image %s", kind)
}

func sha(b []byte) string { h := sha256.Sum256(b); return hex.EncodeToString(h[:8]) }

func fileHash(p string) string {
	f, err := os.Open(p)
	if err != nil {
		return "err:" + err.Error()
	}
	defer f.Close()
	h := sha256.New()
	io.Copy(h, f)
	return hex.EncodeToString(h.Sum(nil))[:16]
}

type c11Call struct {
	name    string
	mutates bool
	run     func() error
	disk    bool // a disk-level mutator (legitimate on a writable disk even if the filesystem on it is finalized)
}

func c11Run(c core.Case, env *core.Env) core.Result {
	var p c11Case
	c.Decode(&p)
	var res core.Result
	r := gen.New(c.Seed)
	fail := func(rule, cause, f string, a ...any) {
		res.Fail(fmt.Sprintf("C11/%s/%s/%s", p.Image, rule, cause), fmt.Sprintf(f, a...), p)
	}
	devSize := int64(40 << 20)
	build := monstore.NewMem(devSize)
	start, size, table, sector, err := c11Build(build, p.Image)
	if err != nil {
		res.Inconclusive = "could not build the image: " + err.Error()
		return res
	}
	img := build.Bytes()
	if p.Damage == "image-cut-short" {
		// the image file ends in the middle of partition 1 (a truncated download, a table written for a larger disk)
		img = img[:start+size/2]
		devSize = int64(len(img))
	} else if p.Damage != "" {
		pristine := sha(img)
		c11Damage(img, p.Damage, p.Image, start)
		if sha(img) == pristine {
			res.Inconclusive = "damage " + p.Damage + " did not change the image"
			return res
		}
	}
	// ---- obtain the backend through the route ----
	var st *monstore.Store
	var b backend.Storage
	realPath := ""
	readOnlyRoute := true
	sealed := false
	switch p.Route {
	case "store-ro":
		st = monstore.FromBytes(img)
		st.SetReadOnlySentinel(true)
		b = file.New(st, true)
	case "writable-fails":
		st = monstore.FromBytes(img)
		st.SetReadOnlySentinel(true)
		b = failingWritable{file.New(st, false)}
	case "sealed-after-open":
		st = monstore.FromBytes(img)
		b = sealable{file.New(st, false), &sealed}
	case "ro-view-of-rw-backend":
		// a read-only view layered over a backend that is itself writable (e.g. the Backend of a disk opened read-write)
		st = monstore.FromBytes(img)
		st.SetReadOnlySentinel(true)
		b = file.New(file.New(st, false), true)
	case "writable-reads", "finalized-writable":
		st = monstore.FromBytes(img)
		st.SetLog(true)
		b = file.New(st, false)
		readOnlyRoute = false
	case "diskfs-open-ro", "openfrompath-ro", "osfile-rdwr-ro":
		realPath = filepath.Join(env.Scratch, "c11-"+core.Hash(c.ID)+".img")
		if err := os.WriteFile(realPath, img, 0o600); err != nil {
			res.Inconclusive = err.Error()
			return res
		}
		defer os.Remove(realPath)
	}
	hashNow := func() string {
		if realPath != "" {
			return fileHash(realPath)
		}
		return sha(st.Bytes())
	}
	before := hashNow() // taken before anything of the library touches the image
	var d *disk.Disk
	secOpt := sectorOpt(512)
	if p.Image == "squashfs" || sector == 4096 {
		secOpt = sectorOpt(4096) // the squashfs reader needs a block size of at least 4096
	}
	blank := strings.Contains(p.Image, "blank")
	switch p.Route {
	case "diskfs-open-ro":
		d, err = diskfs.Open(realPath, diskfs.WithOpenMode(diskfs.ReadOnly), secOpt)
		if err == nil {
			b = d.Backend
		}
	case "openfrompath-ro":
		b, err = file.OpenFromPath(realPath, true)
		if err == nil {
			d, err = diskfs.OpenBackend(b, secOpt)
		}
	case "osfile-rdwr-ro":
		// read-only is a property of the backend here, not of the descriptor: the file itself is open read-write
		var osf *os.File
		osf, err = os.OpenFile(realPath, os.O_RDWR, 0)
		if err == nil {
			defer osf.Close()
			b = file.New(osf, true)
			d, err = diskfs.OpenBackend(b, secOpt)
		}
	default:
		d, err = diskfs.OpenBackend(b, secOpt)
	}
	if err != nil {
		fail("open-error", p.Route, "opening the image through route %s failed: %v", p.Route, err)
		return res
	}
	defer func() {
		if realPath != "" && d != nil {
			core.Guard(func() { d.Close() })
		}
	}()
	part := 0
	if table != "" {
		part = 1
	}
	var fs filesystem.FileSystem
	if pi := core.Guard(func() { fs, err = d.GetFilesystem(part) }); pi != nil {
		fail("getfilesystem-panic", pi.Top, "GetFilesystem panicked: %s", pi.Msg)
		return res
	}
	if err != nil && p.Damage == "" && !blank {
		fail("getfilesystem-error", p.Route, "GetFilesystem(%d) on the read-only image failed: %v", part, err)
		return res
	}
	if err != nil {
		fs = nil // a damaged image may be refused (and a blank range holds nothing); whatever was done so far must still not have written
		if blank {
			res.Count("blank.getfilesystem_refused", 1)
		} else {
			res.Count("damaged.getfilesystem_refused", 1)
		}
	}
	if st != nil {
		n := len(st.ROWrites)
		for _, e := range st.Log {
			if e.Kind == 'W' {
				n++
			}
		}
		if n > 0 {
			fail("open-wrote", p.Route+"/"+p.Damage, "opening the disk and asking for its filesystem - purely reading calls - issued %d write(s) to the device (%s, damage %q)", n, p.Route, p.Damage)
			return res
		}
	}
	if p.Route == "sealed-after-open" {
		// the disk and its filesystem object exist; now the backend stops handing out its writable side
		sealed = true
		st.SetReadOnlySentinel(true)
		res.Mark("backend sealed after the filesystem object was made")
	}
	if after := hashNow(); after != before {
		fail("image-changed", p.Route+"/open", "the image's hash changed from %s to %s while it was only opened (%s, damage %q)", before, after, p.Route, p.Damage)
		return res
	}
	_ = sector
	_ = start
	_ = size
	existing := "B.DAT"
	inDir := "DIR/A.TXT"
	var handles []filesystem.File
	openFor := func(name string, flag int, write bool) func() error {
		return func() error {
			f, e := fs.OpenFile(name, flag)
			if e != nil {
				return e
			}
			handles = append(handles, f)
			if !write {
				return nil
			}
			return nil // a handle was returned for a write open: reported by the caller
		}
	}
	mut := []c11Call{
		{name: "Mkdir", mutates: true, run: func() error { return fs.Mkdir("NEWDIR") }},
		{name: "Mkdir-nested", mutates: true, run: func() error { return fs.Mkdir("DIR/SUB") }},
		{name: "OpenFile(O_CREATE|O_RDWR) new", mutates: true, run: openFor("NEW.TXT", os.O_CREATE|os.O_RDWR, true)},
		{name: "OpenFile(O_RDWR) existing", mutates: true, run: openFor(existing, os.O_RDWR, true)},
		{name: "OpenFile(O_WRONLY) existing", mutates: true, run: openFor(existing, os.O_WRONLY, true)},
		{name: "OpenFile(O_APPEND|O_RDWR) existing", mutates: true, run: openFor(inDir, os.O_APPEND|os.O_RDWR, true)},
		{name: "OpenFile(O_TRUNC|O_RDWR) existing", mutates: true, run: openFor(inDir, os.O_TRUNC|os.O_RDWR, true)},
		{name: "Rename", mutates: true, run: func() error { return fs.Rename(existing, "C.DAT") }},
		{name: "Remove file", mutates: true, run: func() error { return fs.Remove(existing) }},
		{name: "Remove empty file", mutates: true, run: func() error { return fs.Remove("EMPTY") }},
		{name: "SetLabel", mutates: true, run: func() error { return fs.SetLabel("CHANGED") }},
		{name: "Chmod", mutates: true, run: func() error { return fs.Chmod(existing, 0o600) }},
		{name: "Chown", mutates: true, run: func() error { return fs.Chown(existing, 12, 34) }},
		{name: "Chtimes", mutates: true, run: func() error { t := time.Unix(1e9, 0); return fs.Chtimes(existing, t, t, t) }},
		{name: "Symlink", mutates: true, run: func() error { return fs.Symlink("B.DAT", "NEWLINK") }},
		{name: "Write through a handle", mutates: true, run: func() error {
			if len(handles) == 0 {
				f, e := fs.OpenFile(existing, os.O_RDWR)
				if e != nil {
					return e
				}
				handles = append(handles, f)
			}
			_, e := handles[len(handles)-1].Write([]byte("data that must never reach the image"))
			return e
		}},
	}
	if readOnlyRoute {
		mut = append(mut, c11Call{"Disk.Partition", true, func() error {
			return d.Partition(&mbr.Table{LogicalSectorSize: 512, PhysicalSectorSize: 512, Partitions: []*mbr.Partition{{Index: 1, Type: mbr.Linux, Start: 2048, Size: 4096}}})
		}, true}, c11Call{"Disk.CreateFilesystem", true, func() error {
			_, e := d.CreateFilesystem(disk.FilesystemSpec{Partition: part, FSType: filesystem.TypeFat32, VolumeLabel: "X"})
			return e
		}, true})
		// every type: the ones that write nothing before Finalize must be refused at creation all the same
		for _, ft := range []filesystem.Type{filesystem.TypeExt4, filesystem.TypeISO9660, filesystem.TypeSquashfs, filesystem.TypeFat16} {
			ft := ft
			mut = append(mut, c11Call{fmt.Sprintf("Disk.CreateFilesystem type %d", int(ft)), true, func() error {
				nfs, e := d.CreateFilesystem(disk.FilesystemSpec{Partition: part, FSType: ft, VolumeLabel: "X"})
				if e == nil && nfs != nil {
					// what a caller would do next
					_ = nfs.Mkdir("/newdir")
				}
				return e
			}, true})
		}
		if table != "" {
			mut = append(mut, c11Call{"Disk.WritePartitionContents", true, func() error {
				_, e := d.WritePartitionContents(1, bytes.NewReader(make([]byte, size)))
				return e
			}, true})
		}
	}
	if fs == nil {
		// only the disk-level calls can be driven
		var m2 []c11Call
		for _, cl := range mut {
			if cl.disk {
				m2 = append(m2, cl)
			}
		}
		mut = m2
	}
	switch x := fs.(type) {
	case *iso9660.FileSystem:
		mut = append(mut, c11Call{"Finalize", true, func() error { return x.Finalize(iso9660.FinalizeOptions{}) }, false})
	case *squashfs.FileSystem:
		mut = append(mut, c11Call{"Finalize", true, func() error { return x.Finalize(squashfs.FinalizeOptions{}) }, false})
	}
	reads := []c11Call{
		{name: "ReadDir root", mutates: false, run: func() error { _, e := fs.ReadDir("."); return e }},
		{name: "ReadDir dir", mutates: false, run: func() error { _, e := fs.ReadDir("DIR"); return e }},
		{name: "Stat", mutates: false, run: func() error { _, e := fs.Stat(existing); return e }},
		{name: "ReadFile", mutates: false, run: func() error { _, e := fs.ReadFile(inDir); return e }},
		{name: "Open+Read+Seek", mutates: false, run: func() error {
			f, e := fs.OpenFile(inDir, os.O_RDONLY)
			if e != nil {
				return e
			}
			defer f.Close()
			buf := make([]byte, 700)
			f.Read(buf)
			f.Seek(10, io.SeekStart)
			f.Read(buf)
			return nil
		}},
		// reading calls on what is not there: they fail, and they must fail without a trace on the device
		{name: "Open missing file", mutates: false, run: func() error { _, _ = fs.OpenFile("DIR/NOTHERE.TXT", os.O_RDONLY); return nil }},
		{name: "Open below missing directories", mutates: false, run: func() error {
			_, _ = fs.OpenFile("NODIR/SUB/NOTHERE.TXT", os.O_RDONLY)
			_, _ = fs.OpenFile("DIR/NOSUB/DEEPER/NOTHERE.TXT", os.O_RDONLY)
			return nil
		}},
		{name: "Open (fs.FS) below missing directories", mutates: false, run: func() error { _, _ = fs.Open("NODIR2/SUB/NOTHERE.TXT"); return nil }},
		{name: "ReadFile below missing directories", mutates: false, run: func() error { _, _ = fs.ReadFile("NODIR3/NOTHERE.TXT"); return nil }},
		{name: "ReadDir missing directory", mutates: false, run: func() error { _, _ = fs.ReadDir("NODIR4/SUB"); return nil }},
		{name: "Stat missing path", mutates: false, run: func() error { _, _ = fs.Stat("NODIR5/SUB/NOTHERE.TXT"); return nil }},
		{name: "Open through a file", mutates: false, run: func() error { _, _ = fs.OpenFile(existing+"/BELOW.TXT", os.O_RDONLY); return nil }},
		{name: "Open a directory", mutates: false, run: func() error { _, _ = fs.OpenFile("DIR", os.O_RDONLY); return nil }},
		{name: "Label", mutates: false, run: func() error { _ = fs.Label(); return nil }},
		{name: "GetPartitionTable", mutates: false, run: func() error { _, _ = d.GetPartitionTable(); return nil }},
		{name: "GetFilesystem", mutates: false, run: func() error { _, e := d.GetFilesystem(part); return e }},
	}
	if fs == nil {
		reads = reads[len(reads)-2:] // GetPartitionTable, GetFilesystem
	}
	if table != "" {
		reads = append(reads, c11Call{name: "ReadPartitionContents", run: func() error { _, e := d.ReadPartitionContents(1, io.Discard); return e }})
		reads = append(reads, c11Call{name: "Table.Verify", run: func() error { return d.Table.Verify(b, uint64(devSize)) }})
	}
	if rl, ok := fs.(interface{ ReadLink(string) (string, error) }); ok && p.Image == "ext4" {
		reads = append(reads, c11Call{name: "ReadLink", run: func() error { _, e := rl.ReadLink("LINK"); return e }})
	}
	if gx, ok := fs.(interface {
		GetXattr(string) (map[string][]byte, error)
	}); ok {
		reads = append(reads, c11Call{name: "GetXattr", run: func() error { _, _ = gx.GetXattr(existing); return nil }})
	}

	writesSoFar := func() int {
		if st == nil {
			return 0
		}
		if readOnlyRoute {
			return len(st.ROWrites)
		}
		n := 0
		for _, e := range st.Log {
			if e.Kind == 'W' {
				n++
			}
		}
		return n
	}
	finalized := p.Image == "iso9660" || p.Image == "squashfs"
	check := func(cl c11Call) bool {
		w0 := writesSoFar()
		h0 := len(handles)
		var e error
		pi := core.Guard(func() { e = cl.run() })
		res.Count("calls."+cl.name, 1)
		if pi != nil {
			fail("panic", cl.name+":"+pi.Top, "%s panicked on a read-only image (%s): %s", cl.name, p.Route, pi.Msg)
			return false
		}
		wrote := writesSoFar() - w0
		mustReject := cl.mutates && (readOnlyRoute || finalized)
		if mustReject {
			if wrote > 0 {
				stack := ""
				if st != nil && readOnlyRoute && len(st.ROWrites) > 0 {
					stack = st.ROWrites[len(st.ROWrites)-1].Stack
				}
				fail("write-reached-image", cl.name, "%s issued %d write(s) to the device although the image is read-only (%s); %s", cl.name, wrote, p.Route, stack)
				return false
			}
			if e == nil {
				rule := "mutator-accepted"
				if len(handles) > h0 {
					rule = "open-for-write-accepted"
				}
				fail(rule, cl.name, "%s returned no error on a read-only image (%s)", cl.name, p.Route)
				return false
			}
			res.Count("rejected_mutators", 1)
		}
		if !cl.mutates {
			if wrote > 0 {
				fail("read-call-wrote", cl.name, "%s is a purely reading call but issued %d write(s) to the device (%s)", cl.name, wrote, p.Route)
				return false
			}
			res.Count("reading_calls_checked", 1)
		}
		return true
	}
	n := 0
	for i := 0; i < p.Calls; i++ {
		var cl c11Call
		if !readOnlyRoute && !finalized {
			cl = gen.Pick(r, reads) // writable filesystem: only reading calls are driven (clause c)
		} else if r.Chance(0.55) {
			cl = gen.Pick(r, mut)
		} else {
			cl = gen.Pick(r, reads)
		}
		n++
		if !check(cl) {
			break
		}
	}
	for _, h := range handles {
		core.Guard(func() { h.Close() })
	}
	if after := hashNow(); after != before {
		fail("image-changed", p.Route, "the image's hash changed from %s to %s over %d calls (%s)", before, after, n, p.Route)
	}
	res.Evals = int64(n)
	res.Sig(p.Image, p.Route, p.Damage, c.Seed)
	if p.Damage != "" {
		res.Mark("damage " + p.Damage)
	}
	res.Mark("route " + p.Route)
	res.Mark("image " + p.Image)
	res.Sample = p
	return res
}

func init() {
	images := []string{"fat12", "fat16", "fat32", "ext4", "iso9660", "squashfs", "gpt+fat32", "mbr+fat16"}
	core.Register(&core.Check{
		ID:          "C11",
		Level:       "exploration",
		Rule:        "prebuilt images {fat12, fat16, fat32, ext4, iso9660 (Rock Ridge), squashfs, GPT disk with FAT32 partition, MBR disk with FAT16 partition, and disks or partitions nobody has written to yet (512- and 4096-byte sectors, so that every filesystem type can be asked for)} are opened read-only through six routes (file.New(store, readOnly=true) over an instrumented store with a write sentinel, a backend whose Writable() fails, file.New(file.New(store, false), true) - a read-only view over a writable backend -, diskfs.Open(path, ReadOnly), file.OpenFromPath(path, true), file.New(os file opened O_RDWR, readOnly=true)) and, for clause (c) and finalized images, through a writable backend with a write log; seeded interleavings of mutating entry points (Partition, WritePartitionContents, CreateFilesystem, Mkdir, OpenFile with every write flag, Write through a handle, Rename, Remove, SetLabel, Chmod, Chown, Chtimes, Symlink, Finalize) and reading entry points are driven: every mutator must return an error and cause zero write events, reading calls must cause zero write events, and the image hash - taken before the library first touches the image, so that opening itself is covered - must be unchanged; the same is driven on images with a stale or inconsistent spot a reader might be tempted to repair (image file cut short in the middle of the partition; GPT primary header / primary entries / backup header failing their CRC, FSInfo free count stale, FAT copies differing, FAT dirty flag, ext4 not cleanly unmounted / error flag / mount count at its maximum): refusing such an image is an observation, writing to it is a violation; route sealed-after-open: a backend whose Writable() succeeds while the disk and filesystem objects are made and fails from then on; non-trivial = an interleaving with at least one rejected mutator or checked reading call; distinct = distinct (image, route, seed)",
		Assumptions: []string{"for the two real-path routes the observation is the SHA-256 of the file before/after (no per-call write log)"},
		MinSigs:     map[string]int{"quick": 40, "thorough": 1000},
		NeedMarks:   []string{"backend sealed after the filesystem object was made", "damage gpt-primary-header", "damage gpt-backup-header", "damage fsinfo-stale", "damage fat-copies-differ", "damage ext4-not-clean", "route store-ro", "route ro-view-of-rw-backend", "route osfile-rdwr-ro", "damage image-cut-short", "route writable-fails", "route diskfs-open-ro", "route openfrompath-ro", "route writable-reads", "route finalized-writable", "image blank4k", "image gpt+blank4k"},
		CPUSec:      300,
		Cases: func(seed int64, tier string) []core.Case {
			r := gen.New(seed ^ 0xC11)
			reps, calls := 1, 30
			if tier == "thorough" {
				reps, calls = 30, 60
			}
			var cs []core.Case
			for rep := 0; rep < reps; rep++ {
				for _, im := range []string{"blank512", "blank4k", "gpt+blank4k", "mbr+blank512"} {
					for _, rt := range []string{"store-ro", "writable-fails", "ro-view-of-rw-backend", "diskfs-open-ro"} {
						cs = append(cs, core.MkCase(fmt.Sprintf("%s-%s-%d", im, rt, rep), "readonly-"+im, r.Int63(), c11Case{Image: im, Route: rt, Calls: calls}))
					}
				}
				for _, im := range images {
					for _, rt := range []string{"store-ro", "writable-fails", "ro-view-of-rw-backend", "diskfs-open-ro", "openfrompath-ro", "osfile-rdwr-ro", "writable-reads"} {
						cs = append(cs, core.MkCase(fmt.Sprintf("%s-%s-%d", im, rt, rep), "readonly-"+im, r.Int63(), c11Case{Image: im, Route: rt, Calls: calls}))
					}
					cs = append(cs, core.MkCase(fmt.Sprintf("%s-sealed-%d", im, rep), "readonly-"+im, r.Int63(), c11Case{Image: im, Route: "sealed-after-open", Calls: calls}))
					for _, dm := range c11Damages[im] {
						for _, rt := range []string{"store-ro", "writable-reads", "diskfs-open-ro", "osfile-rdwr-ro"} {
							cs = append(cs, core.MkCase(fmt.Sprintf("%s-%s-%s-%d", im, dm, rt, rep), "readonly-"+im, r.Int63(), c11Case{Image: im, Route: rt, Calls: calls, Damage: dm}))
						}
					}
					if im == "iso9660" || im == "squashfs" {
						cs = append(cs, core.MkCase(fmt.Sprintf("%s-finalized-writable-%d", im, rep), "readonly-"+im, r.Int63(), c11Case{Image: im, Route: "finalized-writable", Calls: calls}))
					}
				}
			}
			return cs
		},
		Run: c11Run,
	})
}
