package checks

import (
	"bytes"
	"encoding/json"
	"fmt"
	"os"
	"os/exec"
	"path/filepath"
	"strconv"
	"time"

	"verif/internal/core"
	"verif/internal/fatck"
	"verif/internal/fsdrive"
	"verif/internal/gen"
	"verif/internal/monstore"
	"verif/internal/reftree"
)

type c14Params struct {
	Vol   FatVol     `json:"vol"`
	Steps int        `json:"steps"`
	Seed  int64      `json:"seed"`
	Epoch string     `json:"epoch"`
	Shift int64      `json:"shift,omitempty"` // second run places the volume at start+shift
	Fill  bool       `json:"fill,omitempty"`  // instead of a random history: fill a subdirectory until no space is reported, then a few more calls
	Table *TableSpec `json:"table,omitempty"`
}

type c14Out struct {
	VolHash  string   `json:"vol_hash"`
	Ops      int      `json:"ops"`
	HistHash string   `json:"hist_hash"`
	VolumeID uint32   `json:"volume_id"`
	Stamps   []int64  `json:"stamps"` // every timestamp decoded from the directory entries (unix)
	Err      string   `json:"err,omitempty"`
	Problems []string `json:"problems,omitempty"`
	ZoneOff  int      `json:"zone_offset"` // seconds east of UTC of the process's local zone at the epoch
	Cwd      string   `json:"cwd"`
}

// c14Child: "vcheck c14child <params.json> <out.json>" — runs one seeded FAT history in
// reproducible mode in this process and reports the hash of the volume's byte range.
func c14Child(args []string) int {
	if len(args) != 2 {
		return 4
	}
	raw, err := os.ReadFile(args[0])
	if err != nil {
		return 4
	}
	var p c14Params
	if json.Unmarshal(raw, &p) != nil {
		return 4
	}
	var out c14Out
	if ep, e := strconv.ParseInt(p.Epoch, 10, 64); e == nil {
		_, out.ZoneOff = time.Unix(ep, 0).Zone()
	}
	out.Cwd, _ = os.Getwd()
	func() {
		v := p.Vol
		v.Repro = true
		st := monstore.NewMem(v.DevSize())
		fs, err := fatCreate(st, v)
		if err != nil {
			out.Err = "create: " + err.Error()
			return
		}
		var res core.Result
		drv := &fsdrive.Driver{Cfg: fsdrive.Cfg{Prefix: "C14/" + v.Type, FoldCase: true, NoCompare: true}, FS: fs, Model: reftree.New(true), Res: &res}
		g := &FatGen{R: gen.New(p.Seed), Cluster: fatClusterSize(fs), Handles: true, Invalid: true, MaxFile: 30 * fatClusterSize(fs)}
		if p.Fill {
			cs := fatClusterSize(fs)
			drv.Apply(fsdrive.Op{Kind: "mkdir", Path: "fill"})
			for i := 0; i < 200000; i++ {
				drv.Apply(fsdrive.Op{Kind: "write", Path: fmt.Sprintf("fill/f%05d.bin", i), Len: []int{max(cs*61, int(v.Size/60)) + 5, cs * 8, cs, 3*cs + 1}[i%4], DSeed: uint64(i + 1)})
				if drv.History[len(drv.History)-1].Err != "" {
					break
				}
			}
			drv.Apply(fsdrive.Op{Kind: "write", Path: "fill/last-small.bin", Len: 10, DSeed: 7})
			drv.Apply(fsdrive.Op{Kind: "mkdir", Path: "after"})
		}
		for i := 0; i < p.Steps && !p.Fill; i++ {
			drv.Apply(g.Next(drv))
		}
		drv.CloseAll()
		out.Ops = len(drv.History)
		out.HistHash = core.Hash(drv.History)
		out.VolHash = st.HashRange(v.Start, v.Start+v.Size)
		rep := fatck.Check(func(off int64, n int) []byte {
			if off+int64(n) > v.Size {
				n = int(v.Size - off)
			}
			if n <= 0 {
				return nil
			}
			return st.Peek(v.Start+off, n)
		}, v.Size)
		out.VolumeID = rep.VolumeID
		for _, e := range rep.Entries {
			out.Stamps = append(out.Stamps, e.CreateTime.Unix(), e.ModTime.Unix(), e.AccessDate.Unix())
		}
	}()
	b, _ := json.Marshal(out)
	if os.WriteFile(args[1], b, 0o600) != nil {
		return 4
	}
	return 0
}

// c14Zones: the second process of a pair runs in one of these local time zones (the first in UTC), in
// another working directory and with other locale/home/temp settings: nothing of the process
// environment may reach the image.
var c14Zones = []string{"Asia/Tokyo", "America/New_York", "Pacific/Kiritimati", "Pacific/Pago_Pago", "Asia/Kolkata", "Europe/Berlin"}

func c14RunChild(env *core.Env, tag string, p c14Params, second bool) (*c14Out, error) {
	pf := filepath.Join(env.Scratch, "c14-"+tag+".json")
	of := filepath.Join(env.Scratch, "c14-"+tag+".out.json")
	raw, _ := json.Marshal(p)
	if err := os.WriteFile(pf, raw, 0o600); err != nil {
		return nil, err
	}
	cmd := exec.Command(env.Self, "c14child", pf, of)
	cmd.Env = append(os.Environ(), "SOURCE_DATE_EPOCH="+p.Epoch, "TZ=UTC")
	if second {
		dir := filepath.Join(env.Scratch, "c14-cwd-"+tag)
		os.MkdirAll(dir, 0o700)
		defer os.RemoveAll(dir)
		cmd.Dir = dir
		z := c14Zones[int(uint64(p.Seed)%uint64(len(c14Zones)))]
		cmd.Env = append(os.Environ(), "SOURCE_DATE_EPOCH="+p.Epoch, "TZ="+z, "LANG=tr_TR.UTF-8", "LC_ALL=tr_TR.UTF-8", "HOME="+dir, "TMPDIR="+dir, "USER=someoneelse", "HOSTNAME=otherhost", "GOMAXPROCS=3")
	}
	var stderr bytes.Buffer
	cmd.Stderr = &stderr
	done := make(chan error, 1)
	if err := cmd.Start(); err != nil {
		return nil, err
	}
	go func() { done <- cmd.Wait() }()
	select {
	case err := <-done:
		if err != nil {
			return nil, fmt.Errorf("child failed: %v: %s", err, stderr.String())
		}
	case <-time.After(5 * time.Minute):
		cmd.Process.Kill()
		return nil, fmt.Errorf("child watchdog")
	}
	b, err := os.ReadFile(of)
	if err != nil {
		return nil, err
	}
	var out c14Out
	if err := json.Unmarshal(b, &out); err != nil {
		return nil, err
	}
	os.Remove(pf)
	os.Remove(of)
	return &out, nil
}

func c14Run(c core.Case, env *core.Env) core.Result {
	var p c14Params
	c.Decode(&p)
	var res core.Result
	if p.Table != nil {
		return c14RunTable(c, p)
	}
	fail := func(rule, cause, f string, a ...any) {
		res.Fail(fmt.Sprintf("C14/%s/%s/%s", p.Vol.Type, rule, cause), fmt.Sprintf(f, a...), p)
	}
	a, err := c14RunChild(env, c.ID+"-a", p, false)
	if err != nil {
		res.Inconclusive = "first process: " + err.Error()
		return res
	}
	// FAT times have 2-second resolution: let the wall clock move on before the second process
	time.Sleep(2200 * time.Millisecond)
	p2 := p
	p2.Vol.Start += p.Shift
	b, err := c14RunChild(env, c.ID+"-b", p2, true)
	if err != nil {
		res.Inconclusive = "second process: " + err.Error()
		return res
	}
	if a.Err != "" || b.Err != "" {
		res.Count("create.refused", 1)
		return res
	}
	res.Count("pairs.compared", 1)
	res.Count("ops.executed", int64(a.Ops))
	if a.HistHash != b.HistHash {
		fail("history-diverged", "outcomes-differ-between-runs", "the same seeded history took a different course in the two processes (%d vs %d ops)", a.Ops, b.Ops)
		return res
	}
	if a.VolHash != b.VolHash {
		cause := "same-start"
		if p.Shift != 0 {
			cause = "shifted-start"
		}
		fail("images-differ", cause, "reproducible mode, SOURCE_DATE_EPOCH=%s: the volume's byte range hashes to %s in the first process and %s in a second process started 2.2 s later (start %d vs %d; local zone offset %d s vs %d s, different working directory and locale)", p.Epoch, a.VolHash[:16], b.VolHash[:16], p.Vol.Start, p2.Vol.Start, a.ZoneOff, b.ZoneOff)
	}
	// wall-clock leak amplifier: no decoded timestamp may lie near the run's wall-clock time
	now := time.Now().Unix()
	for _, o := range []*c14Out{a, b} {
		for _, s := range o.Stamps {
			if s > now-2*86400 && s < now+2*86400 {
				fail("wall-clock-leak", "timestamp-near-now", "an entry timestamp decodes to %s although SOURCE_DATE_EPOCH=%s", time.Unix(s, 0).UTC(), p.Epoch)
				break
			}
		}
		res.Count("timestamps.decoded", int64(len(o.Stamps)))
	}
	if a.VolumeID != b.VolumeID {
		fail("images-differ", "volume-id", "volume id %#x vs %#x", a.VolumeID, b.VolumeID)
	}
	if a.ZoneOff != b.ZoneOff && a.Cwd != b.Cwd {
		res.Mark("second process in another time zone, directory and locale")
		res.Count("pairs.zone_offsets_differ", 1)
	}
	res.Sig(p.Vol.Type, p.Vol.Size, p.Epoch, p.Shift, a.HistHash)
	res.Mark(p.Vol.Type)
	res.Mark("epoch " + p.Epoch)
	if p.Shift != 0 {
		res.Mark("second run at a different start offset")
	}
	if p.Fill {
		res.Mark("volume filled until no space, at two different start offsets")
	}
	res.Sample = map[string]any{"params": p, "ops": a.Ops, "vol_hash": a.VolHash[:16]}
	return res
}

// tables: writing the same table twice gives identical bytes; Read then Write changes nothing.
func c14RunTable(c core.Case, p c14Params) core.Result {
	var res core.Result
	t := p.Table
	fail := func(rule, cause, f string, a ...any) {
		res.Fail(fmt.Sprintf("C14/%s/%s/%s", t.Kind, rule, cause), fmt.Sprintf(f, a...), p)
	}
	s1 := monstore.NewMem(t.DevSize)
	s2 := monstore.NewMem(t.DevSize)
	e1, p1 := writeTable(s1, t)
	e2, p2 := writeTable(s2, t)
	if e1 != nil || e2 != nil || p1 != nil || p2 != nil {
		res.Count("write.refused", 1)
		return res
	}
	h1, _ := s1.TouchedHash()
	h2, _ := s2.TouchedHash()
	explicit := t.Kind == "mbr" || t.DiskGUID != ""
	for _, g := range t.GPT {
		if g.GUID == "" {
			explicit = false
		}
	}
	if explicit {
		if h1 != h2 {
			fail("table-bytes-differ", "two-writes-of-the-same-table", "writing the same %s table (all GUIDs given) on two blank devices produced different bytes", t.Kind)
		}
		res.Count("tables.twice_compared", 1)
	} else {
		res.Count("tables.auto_guid_skipped_for_twice_rule", 1)
	}
	// read then rewrite: device bytes unchanged
	before, _ := s1.TouchedHash()
	err, pi := c14Rewrite(s1, t)
	if pi != nil {
		fail("rewrite-panic", pi.Top, "re-writing the table read from disk panicked: %s", pi.Msg)
		return res
	}
	if err != nil {
		fail("rewrite-error", t.Kind, "re-writing the table read from disk failed: %v", err)
		return res
	}
	after, _ := s1.TouchedHash()
	if before != after {
		fail("rewrite-changes-bytes", t.Kind, "reading the %s table from disk and writing it back changed the device bytes", t.Kind)
	}
	res.Count("tables.rewrite_compared", 1)
	res.Sig(t)
	res.Mark("table " + t.Kind)
	return res
}

func init() {
	core.RegisterSub("c14child", c14Child)
	core.Register(&core.Check{
		ID:          "C14",
		Level:       "exploration",
		Rule:        "for FAT12/16/32 volumes of several sizes and start offsets and SOURCE_DATE_EPOCH in {0, 315532799 (pre-1980), odd seconds, 2001, 2107 edge}: the same seeded C01 history is run with the reproducible option in two separate worker processes, the second started 2.2 s after the first (FAT time resolution is 2 s), in another local time zone (first: UTC; second: one of Tokyo, New York, Kiritimati +14, Pago Pago -11, Kolkata +5:30, Berlin - zone data embedded in the harness binary, each child reports its zone offset), working directory, locale, HOME/TMPDIR/USER and GOMAXPROCS, and, in half of the pairs, with the volume at a different start offset (also: the volume filled file by file until it reports no space, at start 0 and at a shifted start - the course of the history, i.e. where space runs out, must be the same); the SHA-256 of the volume's byte range must be equal; every timestamp decoded from the image by the independent reader must not lie within two days of the wall clock (leak amplifier). Tables of C02: the same GPT (GUIDs given)/MBR written on two blank devices gives identical bytes, and Read followed by Write leaves the device bytes unchanged. Non-trivial = a pair whose history executed; distinct = distinct (volume, epoch, shift, history)",
		Assumptions: []string{"the system clock cannot be changed in the sandbox: 'regardless of wall-clock time' is decided for a 2.2 s separation plus the leak amplifier (any field within two days of now while the epoch is decades away)"},
		MinSigs:     map[string]int{"quick": 40, "thorough": 600},
		NeedMarks:   []string{"fat12", "fat16", "fat32", "second process in another time zone, directory and locale", "second run at a different start offset", "volume filled until no space, at two different start offsets", "table gpt", "table mbr"},
		Workers:     16,
		CPUSec:      300,
		Cases: func(seed int64, tier string) []core.Case {
			r := gen.New(seed ^ 0xC14)
			n, nt := 24, 120
			if tier == "thorough" {
				n, nt = 300, 3000
			}
			epochs := []string{"0", "315532799", "1000000001", "1000000000", "4354819199", "1234567891"}
			var cs []core.Case
			types := []string{"fat12", "fat16", "fat32"}
			for i := 0; i < n; i++ {
				t := types[i%3]
				sz := fatVolMatrix[t][(i/3)%2]
				p := c14Params{Vol: FatVol{Type: t, Size: sz, Start: []int64{0, 512, 1 << 20}[i%3], Sector: 512, Label: "REPRO"}, Steps: 30 + r.Intn(40), Seed: r.Int63(), Epoch: epochs[i%len(epochs)]}
				if i%2 == 1 {
					p.Shift = 4096 * int64(1+r.Intn(100))
				}
				cs = append(cs, core.MkCase(fmt.Sprintf("pair-%d", i), "repro-"+t, r.Int63(), p))
				if i < 3 || (tier == "thorough" && i < 30) {
					// the same volume filled until it reports no space, at start 0 and at a shifted start: the point
					// where space runs out must not depend on where the volume sits
					q := p
					q.Fill, q.Steps = true, 0
					q.Vol.Start = 0
					q.Vol.Size = map[string]int64{"fat12": 1474560, "fat16": 16 << 20, "fat32": 34 << 20}[t]
					q.Shift = []int64{1 << 20, 3<<20 + 512, 64 << 20}[i%3]
					cs = append(cs, core.MkCase(fmt.Sprintf("fill-pair-%d", i), "repro-"+t, r.Int63(), q))
				}
			}
			for i, t := range c02Tables(seed*29+3, nt) {
				if t.DevSize > 1<<34 {
					t.DevSize = 64 << 20 // hashing touched pages only; keep it small anyway
					if t.Kind == "gpt" {
						continue
					}
				}
				t.Prior = nil
				cs = append(cs, core.MkCase(fmt.Sprintf("table-%d", i), "table-"+t.Kind, r.Int63(), c14Params{Table: t}))
			}
			return cs
		},
		Run: c14Run,
	})
}

func c14Rewrite(st *monstore.Store, t *TableSpec) (err error, pi *core.PanicInfo) {
	pi = core.Guard(func() {
		b := fileNewRW(st)
		tb, e := partitionRead(b, t.LSS, t.PSS)
		if e != nil {
			err = fmt.Errorf("read: %w", e)
			return
		}
		w, e := b.Writable()
		if e != nil {
			err = e
			return
		}
		err = tb.Write(w, t.DevSize)
	})
	return
}
