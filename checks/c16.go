package checks

import (
	"fmt"
	"io"
	iofs "io/fs"
	"log"
	"os"
	"path/filepath"
	"sort"
	"strings"
	"testing/fstest"
	"time"

	"github.com/diskfs/go-diskfs/filesystem"
	"github.com/diskfs/go-diskfs/filesystem/ext4"
	"github.com/diskfs/go-diskfs/filesystem/iso9660"
	"github.com/diskfs/go-diskfs/filesystem/squashfs"
	fsync "github.com/diskfs/go-diskfs/sync"

	"verif/internal/core"
	"verif/internal/gen"
	"verif/internal/monstore"
)

type c16Case struct {
	Mode        string `json:"mode"` // copy | compare-mutations | stream
	Src         string `json:"src,omitempty"`
	Dst         string `json:"dst,omitempty"`
	N           int    `json:"n,omitempty"`
	EOFWithData bool   `json:"eof_with_data,omitempty"`
	// Tight: the tree has one file that cannot fit into the destination, between files that can: the copy may
	// fail, but it must not report success unless the destination equals the source
	Tight bool `json:"tight,omitempty"`
	// Again: the destination is not empty: an earlier generation of the same tree (same paths; files longer,
	// shorter, equally long, all with other content) was copied into it before
	Again bool `json:"again,omitempty"`
}

// bigFS is a synthetic read-only fs.FS holding one large file generated on the fly (streaming path).
type bigFS struct {
	name string
	size int64
	seed uint64
	// eofWithData: the last piece is delivered together with io.EOF (as the library's own file handles
	// do), instead of a separate (0, io.EOF) afterwards (as *os.File does); both are legal for an io.Reader
	eofWithData bool
}
type bigFile struct {
	fs  *bigFS
	pos int64
}
type bigInfo struct {
	name string
	size int64
	dir  bool
}

func (i bigInfo) Name() string { return i.name }
func (i bigInfo) Size() int64  { return i.size }
func (i bigInfo) Mode() iofs.FileMode {
	if i.dir {
		return iofs.ModeDir | 0o755
	}
	return 0o644
}
func (i bigInfo) ModTime() time.Time           { return time.Unix(1e9, 0) }
func (i bigInfo) IsDir() bool                  { return i.dir }
func (i bigInfo) Sys() any                     { return nil }
func (i bigInfo) Type() iofs.FileMode          { return i.Mode().Type() }
func (i bigInfo) Info() (iofs.FileInfo, error) { return i, nil }

type bigDir struct {
	fs   *bigFS
	done bool
}

func (d *bigDir) Stat() (iofs.FileInfo, error) { return bigInfo{name: ".", dir: true}, nil }
func (d *bigDir) Read([]byte) (int, error)     { return 0, fmt.Errorf("is a directory") }
func (d *bigDir) Close() error                 { return nil }
func (d *bigDir) ReadDir(n int) ([]iofs.DirEntry, error) {
	if d.done {
		if n > 0 {
			return nil, io.EOF
		}
		return nil, nil
	}
	d.done = true
	return []iofs.DirEntry{bigInfo{name: d.fs.name, size: d.fs.size}}, nil
}
func (b *bigFS) Open(name string) (iofs.File, error) {
	switch name {
	case ".":
		return &bigDir{fs: b}, nil
	case b.name:
		return &bigFile{fs: b}, nil
	}
	return nil, &iofs.PathError{Op: "open", Path: name, Err: iofs.ErrNotExist}
}
func (f *bigFile) Stat() (iofs.FileInfo, error) {
	return bigInfo{name: f.fs.name, size: f.fs.size}, nil
}
func (f *bigFile) Close() error { return nil }
func (f *bigFile) Read(p []byte) (int, error) {
	if f.pos >= f.fs.size {
		return 0, io.EOF
	}
	n := len(p)
	if n > 7777 {
		n = 7777 // deliver odd-sized pieces
	}
	if int64(n) > f.fs.size-f.pos {
		n = int(f.fs.size - f.pos)
	}
	copy(p, prfAt(f.fs.seed, f.pos, n))
	f.pos += int64(n)
	if f.fs.eofWithData && f.pos >= f.fs.size {
		return n, io.EOF
	}
	return n, nil
}

func c16Tree(r gen.R, small bool) Tree {
	names := []string{"A.TXT", "readme.txt", "Long File Name.data", "file_with_long_name_123.extension", "x", "DATA.BIN", "notes.md", "b.c", "Makefile", "img01.raw"}
	dirs := []string{"docs", "src", "src/inner", "Empty Dir"}
	var t Tree
	for _, d := range dirs {
		t = append(t, TNode{Path: d, Dir: true})
	}
	n := 14
	sizes := []int{0, 1, 511, 512, 4095, 4097, 32767, 32768, 32769, 65537, 100000}
	if small {
		n = 8
		sizes = []int{0, 1, 511, 513, 4097, 20000}
	}
	used := map[string]bool{}
	for i := 0; i < n; i++ {
		d := gen.Pick(r, append([]string{""}, dirs[:3]...))
		p := joinP(d, gen.Pick(r, names))
		if used[strings.ToLower(p)] {
			continue
		}
		used[strings.ToLower(p)] = true
		t = append(t, TNode{Path: p, Size: sizes[(i+r.Intn(2))%len(sizes)], Seed: r.Uint64(), Kind: []string{"prf", "text", "sparse"}[i%3]})
	}
	return t
}

// c16Source builds the source fs.FS holding tree t (plus the excluded names).
func c16Source(kind string, t Tree, env *core.Env, tag string) (iofs.FS, func(), error) {
	extra := Tree{{Path: "lost+found", Dir: true}, {Path: "lost+found/orphan", Size: 10, Seed: 1}, {Path: ".DS_Store", Size: 5, Seed: 2}}
	if kind == "iso9660" {
		extra = extra[:2] // how the ISO writer treats names with a leading dot is C06's business
	}
	full := append(append(Tree{}, t...), extra...)
	switch kind {
	case "osdir":
		dir := filepath.Join(env.Scratch, "c16src-"+tag)
		os.RemoveAll(dir)
		if err := os.MkdirAll(dir, 0o755); err != nil {
			return nil, nil, err
		}
		if err := populateWorkspace(dir, full); err != nil {
			return nil, nil, err
		}
		return os.DirFS(dir), func() { os.RemoveAll(dir) }, nil
	case "fat32":
		st := monstore.NewMem(40 << 20)
		fs, err := fatCreate(st, FatVol{Type: "fat32", Size: 34 << 20, Sector: 512})
		if err != nil {
			return nil, nil, err
		}
		return fs, func() {}, populate(fs, full)
	case "ext4":
		st := monstore.NewMem(40 << 20)
		fs, err := buildExt4(st, 32<<20, 0, &ext4.Params{}, full)
		return fs, func() {}, err
	case "iso9660":
		st := monstore.NewMem(40 << 20)
		if err := buildISO(st, 32<<20, 0, ISOOpts{RockRidge: true}, full); err != nil {
			return nil, nil, err
		}
		fs, err := iso9660.Read(fileNewRO(st), 32<<20, 0, 2048)
		return fs, func() {}, err
	case "squashfs":
		st := monstore.NewMem(40 << 20)
		if err := buildSquash(st, 32<<20, 0, SqOpts{Comp: "gzip"}, full); err != nil {
			return nil, nil, err
		}
		fs, err := squashfs.Read(fileNewRO(st), 32<<20, 0, 4096)
		return fs, func() {}, err
	}
	return nil, nil, fmt.Errorf("unknown source %s", kind)
}

func c16Dest(kind string) (filesystem.FileSystem, func() (filesystem.FileSystem, error), error) {
	switch kind {
	case "fat12", "fat16", "fat32":
		v := FatVol{Type: kind, Size: map[string]int64{"fat12": 4 << 20, "fat16": 16 << 20, "fat32": 34 << 20}[kind], Sector: 512}
		st := monstore.NewMem(v.DevSize())
		fs, err := fatCreate(st, v)
		return fs, func() (filesystem.FileSystem, error) { return fatRead(st, v, false) }, err
	case "ext4":
		st := monstore.NewMem(40 << 20)
		fs, err := ext4.Create(fileNewRW(st), 32<<20, 0, 512, &ext4.Params{})
		return fs, func() (filesystem.FileSystem, error) { return ext4.Read(fileNewRW(st), 32<<20, 0, 512) }, err
	}
	return nil, nil, fmt.Errorf("unknown destination %s", kind)
}

func c16Run(c core.Case, env *core.Env) core.Result {
	var p c16Case
	c.Decode(&p)
	var res core.Result
	log.SetOutput(io.Discard)
	r := gen.New(c.Seed)
	fail := func(rule, cause, f string, a ...any) {
		res.Fail(fmt.Sprintf("C16/%s/%s", rule, cause), fmt.Sprintf(f, a...), p)
	}
	switch p.Mode {
	case "copy":
		t := c16Tree(r, p.Dst == "fat12")
		if p.Tight {
			big := map[string]int{"fat12": 4<<20 + 300000, "fat16": 16<<20 + 500000, "fat32": 35 << 20, "ext4": 33 << 20}[p.Dst]
			t = append(t, TNode{Path: "docs/m_too_big_for_the_destination.bin", Size: big, Seed: r.Uint64(), Kind: "prf"},
				TNode{Path: "src/z_after_the_big_one.txt", Size: 3000, Seed: r.Uint64(), Kind: "text"}, TNode{Path: "zz_last.txt", Size: 10, Seed: r.Uint64(), Kind: "text"})
		}
		src, cleanup, err := c16Source(p.Src, t, env, core.Hash(c.ID))
		if err != nil {
			res.Inconclusive = "could not build the source: " + err.Error()
			return res
		}
		defer cleanup()
		dst, reopen, err := c16Dest(p.Dst)
		if err != nil {
			res.Inconclusive = "could not create the destination: " + err.Error()
			return res
		}
		if p.Again {
			var t0 Tree
			for i, n := range t {
				if !n.Dir {
					switch i % 4 {
					case 0:
						n.Size = n.Size*2 + 9000 // the earlier version was longer: the copy must cut it
					case 1:
						n.Size = n.Size / 3
					case 2:
						n.Size += 1 + i
					}
					n.Seed ^= 0x5EED
				}
				t0 = append(t0, n)
			}
			src0, cleanup0, err := c16Source("osdir", t0, env, core.Hash(c.ID)+"-gen0")
			if err != nil {
				res.Inconclusive = "could not build the earlier generation: " + err.Error()
				return res
			}
			var e0 error
			pi := core.Guard(func() { e0 = fsync.CopyFileSystem(src0, dst) })
			cleanup0()
			if pi != nil || e0 != nil {
				res.Inconclusive = fmt.Sprintf("copying the earlier generation failed: %v %v", e0, pi)
				return res
			}
			res.Mark("copy into a destination that holds an earlier generation of the tree")
		}
		var cerr error
		if pi := core.Guard(func() { cerr = fsync.CopyFileSystem(src, dst) }); pi != nil {
			fail("copy-panic", pi.Top+":"+pi.Class, "CopyFileSystem(%s -> %s) panicked: %s", p.Src, p.Dst, pi.Msg)
			return res
		}
		if cerr != nil && p.Tight {
			// an honest refusal: the destination has no room for one of the files
			res.Count("tight.copy_refused", 1)
			res.Mark("copy into a destination too small for one file: refused")
			res.Sig("tight", p.Src, p.Dst, "refused")
			return res
		}
		if p.Tight {
			res.Count("tight.copy_reported_success", 1)
		}
		if cerr != nil {
			fail("copy-error", p.Src+"->"+p.Dst, "CopyFileSystem(%s -> %s) of a representable tree failed: %v", p.Src, p.Dst, cerr)
			return res
		}
		d2, err := reopen()
		if err != nil {
			fail("reopen-error", p.Dst, "re-opening the destination failed: %v", err)
			return res
		}
		budget := len(t)*2 + 50
		var got *obsNode
		var werr error
		if pi := core.Guard(func() { got, werr = walkLib(d2, "", 0, &budget) }); pi != nil {
			fail("walk-panic", pi.Top+":"+pi.Class, "walking the destination panicked: %s", pi.Msg)
			return res
		}
		if werr != nil {
			fail("walk-error", p.Dst, "walking the destination failed: %v", werr)
			return res
		}
		// drop the destination's own lost+found (ext4) before comparing
		var kids []*obsNode
		for _, k := range got.Kids {
			if k.Name == "lost+found" && k.Dir && len(k.Kids) == 0 {
				continue
			}
			kids = append(kids, k)
		}
		got.Kids = kids
		nb := 0
		matchTrees(treeToObs(t), got, "", true, func(rule, detail string) {
			nb++
			if nb <= 3 {
				cause := p.Src + "->" + p.Dst
				if p.Tight {
					cause = "success-reported-for-a-destination-without-room/" + p.Dst
				}
				if p.Again {
					cause = "destination-held-an-earlier-generation/" + p.Dst
				}
				if strings.Contains(detail, "lost+found") || strings.Contains(detail, ".DS_Store") {
					cause = "excluded-name-copied"
				}
				fail("copy/"+rule, cause, "%s", detail)
			}
		})
		res.Count("copies.compared", 1)
		// CompareFS on the equal pair, both orders (real filesystems with their own read chunking)
		if nb == 0 {
			for _, order := range []string{"src,dst", "dst,src"} {
				var e error
				a, b := iofs.FS(src), iofs.FS(d2)
				if order == "dst,src" {
					a, b = b, a
				}
				if pi := core.Guard(func() { e = fsync.CompareFS(a, b) }); pi != nil {
					fail("compare-panic", pi.Top+":"+pi.Class, "CompareFS(%s) panicked: %s", order, pi.Msg)
					continue
				}
				if e != nil {
					fail("compare-false-difference", p.Src+"->"+p.Dst, "CompareFS(%s) of a faithful copy (%s -> %s) reports a difference: %v", order, p.Src, p.Dst, e)
				}
				res.Count("compare.equal_pairs", 1)
			}
			// one real single-byte mutation of the copy
			files := Tree{}
			for _, n := range t {
				if !n.Dir && n.Size > 0 {
					files = append(files, n)
				}
			}
			if len(files) > 0 {
				n := gen.Pick(r, files)
				off := int64(gen.Pick(r, []int{0, n.Size / 2, n.Size - 1}))
				cur := n.Content()
				f, e := d2.OpenFile(n.Path, os.O_RDWR)
				if e == nil {
					f.Seek(off, io.SeekStart)
					_, e = f.Write([]byte{cur[off] ^ 0x5A})
					f.Close()
				}
				if e == nil {
					var ce error
					core.Guard(func() { ce = fsync.CompareFS(src, d2) })
					if ce == nil {
						fail("compare-missed-difference", "byte-changed-on-real-filesystem", "CompareFS returned nil although byte %d of %s differs in the copy (%s -> %s)", off, n.Path, p.Src, p.Dst)
					}
					res.Count("compare.real_mutations", 1)
				}
			}
		}
		res.Sig(p.Src, p.Dst, core.Hash(t))
		res.Mark("copy " + p.Src + "->" + p.Dst)
	case "stream":
		big := &bigFS{name: "BIG.BIN", size: 64<<20 + 12345, seed: uint64(c.Seed), eofWithData: p.EOFWithData}
		st := monstore.NewMem(140 << 20)
		var dst filesystem.FileSystem
		var err error
		if p.Dst == "ext4" {
			dst, err = ext4.Create(fileNewRW(st), 128<<20, 0, 512, &ext4.Params{})
		} else {
			dst, err = fatCreate(st, FatVol{Type: "fat32", Size: 128 << 20, Sector: 512})
		}
		if err != nil {
			res.Inconclusive = err.Error()
			return res
		}
		var cerr error
		if pi := core.Guard(func() { cerr = fsync.CopyFileSystem(big, dst) }); pi != nil {
			fail("copy-panic", pi.Top+":"+pi.Class, "CopyFileSystem of a 64 MiB+ file panicked: %s", pi.Msg)
			return res
		}
		if cerr != nil {
			fail("copy-error", "stream->"+p.Dst, "CopyFileSystem of a file above the streaming threshold failed: %v", cerr)
			return res
		}
		f, err := dst.OpenFile("BIG.BIN", os.O_RDONLY)
		if err != nil {
			fail("copy/missing-file", "stream->"+p.Dst, "BIG.BIN missing after copy: %v", err)
			return res
		}
		buf := make([]byte, 1<<20)
		var pos int64
		for {
			n, e := f.Read(buf)
			if n > 0 {
				if string(buf[:n]) != string(prfAt(big.seed, pos, n)) {
					fail("copy/content", "stream->"+p.Dst, "streamed copy differs within [%d,%d)", pos, pos+int64(n))
					break
				}
				pos += int64(n)
			}
			if e != nil {
				break
			}
			if n == 0 {
				break
			}
		}
		if pos != big.size {
			fail("copy/length", "stream->"+p.Dst, "streamed copy has %d bytes, source %d", pos, big.size)
		}
		var ce error
		core.Guard(func() { ce = fsync.CompareFS(big, dst) })
		if ce != nil && p.Dst != "ext4" {
			fail("compare-false-difference", "stream->"+p.Dst, "CompareFS of the streamed copy: %v", ce)
		}
		res.Sig("stream", p.Dst)
		res.Mark("streaming path (file > 64 MiB)")
	case "compare-mutations":
		c16Mutations(&res, r, p.N, fail)
	}
	res.Sample = p
	return res
}

// shortFS delivers file contents in small pieces of varying sizes, as any io.Reader may.
type shortFS struct{ inner iofs.FS }
type shortFile struct {
	iofs.File
	k int
}

func (s shortFS) Open(name string) (iofs.File, error) {
	f, err := s.inner.Open(name)
	if err != nil {
		return nil, err
	}
	if st, e := f.Stat(); e == nil && st.IsDir() {
		return f, nil
	}
	return &shortFile{File: f}, nil
}
func (f *shortFile) Read(p []byte) (int, error) {
	lim := []int{1, 7777, 100, 32767, 5, 40000}[f.k%6]
	f.k++
	if len(p) > lim {
		p = p[:lim]
	}
	return f.File.Read(p)
}

// c16Mutations: CompareFS on in-memory trees: equal pairs and every single-point mutation.
func c16Mutations(res *core.Result, r gen.R, n int, fail func(rule, cause, f string, a ...any)) {
	for it := 0; it < n; it++ {
		base := fstest.MapFS{}
		t := c16Tree(r, false)
		t = append(t, TNode{Path: "chunky.bin", Size: 3*32768 + 5, Seed: r.Uint64()})
		for _, nd := range t {
			if nd.Dir {
				base[nd.Path] = &fstest.MapFile{Mode: iofs.ModeDir | 0o755}
			} else {
				base[nd.Path] = &fstest.MapFile{Data: nd.Content(), Mode: 0o644}
			}
		}
		var files, dirs []string
		for k, v := range base {
			if v.Mode.IsDir() {
				dirs = append(dirs, k)
			} else if len(v.Data) > 0 {
				files = append(files, k)
			}
		}
		sort.Strings(files)
		sort.Strings(dirs)
		// entries with excluded names, as regular files and as directories, in every directory of the tree:
		// they must be ignored themselves and must not hide anything else
		addExcluded := func(m fstest.MapFS, tag byte) {
			for i, d := range append([]string{"."}, dirs...) {
				pre := d + "/"
				if d == "." {
					pre = ""
				}
				m[pre+".DS_Store"] = &fstest.MapFile{Data: []byte{tag, byte(i)}, Mode: 0o644}
				switch i % 3 {
				case 0:
					m[pre+"lost+found"] = &fstest.MapFile{Mode: iofs.ModeDir | 0o755}
					m[pre+"lost+found/thing"] = &fstest.MapFile{Data: []byte{tag}, Mode: 0o644}
				case 1:
					m[pre+"System Volume Information"] = &fstest.MapFile{Data: []byte{tag, tag}, Mode: 0o644}
				case 2:
					m[pre+"lost+found"] = &fstest.MapFile{Data: []byte{tag}, Mode: 0o644}
				}
			}
		}
		plain := base
		for _, ctx := range []string{"plain", "excluded-names-on-both-sides", "excluded-names-in-mutant-only", "excluded-names-in-original-only", "mutant-delivered-in-short-reads"} {
			base := fstest.MapFS{}
			for k, v := range plain {
				base[k] = v
			}
			if ctx == "excluded-names-on-both-sides" || ctx == "excluded-names-in-original-only" {
				addExcluded(base, 'o')
			}
			clone := func() fstest.MapFS {
				c := fstest.MapFS{}
				for k, v := range plain {
					cp := *v
					cp.Data = append([]byte(nil), v.Data...)
					c[k] = &cp
				}
				if ctx == "excluded-names-on-both-sides" || ctx == "excluded-names-in-mutant-only" {
					addExcluded(c, 'm')
				}
				return c
			}
			check := func(name string, a, b iofs.FS, wantDiff bool) {
				var e error
				if pi := core.Guard(func() { e = fsync.CompareFS(a, b) }); pi != nil {
					fail("compare-panic", pi.Top+":"+pi.Class, "CompareFS panicked on mutation %s: %s", name, pi.Msg)
					return
				}
				res.Count("compare.evaluations", 1)
				if wantDiff && e == nil {
					fail("compare-missed-difference", name, "CompareFS returned nil although the trees differ by: %s", name)
				}
				if !wantDiff && e != nil {
					fail("compare-false-difference", name, "CompareFS reports %v although the trees are equal (%s)", e, name)
				}
				res.Sig("mut", name, it)
			}
			both := func(name string, m fstest.MapFS, wantDiff bool) {
				if ctx != "plain" {
					name += " [" + ctx + "]"
				}
				var mm iofs.FS = m
				if ctx == "mutant-delivered-in-short-reads" {
					mm = shortFS{m}
				}
				check(name+" (orig,mutant)", base, mm, wantDiff)
				check(name+" (mutant,orig)", mm, base, wantDiff)
			}
			both("identical", clone(), false)
			for _, pos := range []string{"first", "middle", "last", "chunk-edge-1", "chunk-edge", "chunk-edge+1"} {
				m := clone()
				f := "chunky.bin"
				d := m[f].Data
				off := map[string]int{"first": 0, "middle": len(d) / 2, "last": len(d) - 1, "chunk-edge-1": 32767, "chunk-edge": 32768, "chunk-edge+1": 32769}[pos]
				d[off] ^= 1
				both("byte-flipped-"+pos, m, true)
			}
			{
				m := clone()
				f := gen.Pick(r, files)
				m[f].Data = m[f].Data[:len(m[f].Data)-1]
				both("file-shortened-by-1", m, true)
			}
			{
				m := clone()
				f := gen.Pick(r, files)
				m[f].Data = append(m[f].Data, 0)
				both("file-lengthened-by-1", m, true)
			}
			{
				m := clone()
				delete(m, gen.Pick(r, files))
				both("entry-missing", m, true)
			}
			{
				m := clone()
				m["src/extra.file"] = &fstest.MapFile{Data: []byte("x"), Mode: 0o644}
				both("extra-entry", m, true)
			}
			// an extra entry in every directory, sorting before and after everything else there
			for _, d := range append([]string{"."}, dirs...) {
				pre := d + "/"
				if d == "." {
					pre = ""
				}
				for _, nm := range []string{"!first", "zzzz-last"} {
					m := clone()
					m[pre+nm] = &fstest.MapFile{Data: []byte("x"), Mode: 0o644}
					both("extra-entry-"+nm+"-in-each-directory", m, true)
				}
			}
			{
				m := clone()
				m["docs/extra-empty-dir"] = &fstest.MapFile{Mode: iofs.ModeDir | 0o755}
				both("extra-empty-directory", m, true)
			}
			{
				m := clone()
				f := gen.Pick(r, files)
				m[f] = &fstest.MapFile{Mode: iofs.ModeDir | 0o755}
				both("file-replaced-by-directory", m, true)
			}
			{
				m := clone()
				m["Empty Dir"] = &fstest.MapFile{Data: []byte{}, Mode: 0o644}
				both("directory-replaced-by-file", m, true)
			}
			{
				m := clone()
				m["lost+found"] = &fstest.MapFile{Mode: iofs.ModeDir | 0o755}
				m["lost+found/thing"] = &fstest.MapFile{Data: []byte("zzz"), Mode: 0o644}
				m["docs/.DS_Store"] = &fstest.MapFile{Data: []byte("q"), Mode: 0o644}
				both("difference-only-under-excluded-names", m, false)
			}
			{
				m := clone()
				f := gen.Pick(r, files)
				d := m[f].Data
				d[len(d)/3] ^= 0x80
				both("byte-flipped-random-file", m, true)
			}
		}
	}
	res.Mark("compare mutations")
}

func init() {
	core.Register(&core.Check{
		ID:          "C16",
		Level:       "exploration",
		Rule:        "CopyFileSystem from {os directory, fat32, ext4, iso9660 (Rock Ridge), squashfs} into {fat12, fat16, fat32, ext4}: generated trees (directories incl. an empty one, files of 0..100000 bytes around the 32 KiB compare-chunk edges, FAT-legal long names, the excluded names lost+found/.DS_Store present in the source); the re-opened destination is walked by the harness and matched against the source tree by content and exact names, CompareFS must accept the faithful copy in both argument orders and reject one real byte flip; a file above the 64 MiB streaming threshold is copied from a synthetic generator source that hands out odd-sized pieces and ends either with a separate (0, EOF) or with the last piece and EOF together, as the library's own handles do (one pairing in quick, all in thorough); CompareFS on in-memory trees must return nil exactly for equal trees over every single-point mutation (byte flipped at first/middle/last/32 KiB chunk edges +-1, file shortened/lengthened by one, entry missing, extra file, extra empty directory, file<->directory swap, differences only under excluded names, an extra entry sorting first/last in every directory) in both orders, each also with entries bearing the excluded names (as files and as directories) placed in every directory of both sides, of the mutant only and of the original only, and with one side delivering file contents in short reads of varying sizes; non-trivial = a copy compared or a mutation evaluated; distinct = distinct (pairing, tree) / (mutation, iteration)",
		Assumptions: []string{"trees are restricted to what every destination can represent (no symlinks, FAT-legal names)", "the destination's own empty lost+found (ext4) is ignored"},
		MinSigs:     map[string]int{"quick": 150, "thorough": 3000},
		NeedMarks:   []string{"streaming path (file > 64 MiB)", "compare mutations", "copy osdir->fat32", "copy squashfs->ext4", "copy iso9660->fat16", "copy ext4->fat12", "copy into a destination too small for one file: refused", "copy into a destination that holds an earlier generation of the tree"},
		CPUSec:      900,
		Cases: func(seed int64, tier string) []core.Case {
			r := gen.New(seed ^ 0xC16)
			reps, muts := 2, 6
			if tier == "thorough" {
				reps, muts = 40, 120
			}
			var cs []core.Case
			for rep := 0; rep < reps; rep++ {
				for _, s := range []string{"osdir", "fat32", "ext4", "iso9660", "squashfs"} {
					for _, d := range []string{"fat12", "fat16", "fat32", "ext4"} {
						cs = append(cs, core.MkCase(fmt.Sprintf("copy-%s-%s-%d", s, d, rep), "copy", r.Int63(), c16Case{Mode: "copy", Src: s, Dst: d}))
					}
				}
			}
			tight := [][2]string{{"osdir", "fat12"}, {"squashfs", "fat12"}, {"osdir", "fat16"}}
			if tier == "thorough" {
				tight = append(tight, [2]string{"fat32", "fat16"}, [2]string{"osdir", "fat32"}, [2]string{"osdir", "ext4"}, [2]string{"ext4", "fat12"}, [2]string{"iso9660", "fat12"})
			}
			again := [][2]string{{"osdir", "fat16"}, {"squashfs", "fat32"}, {"osdir", "ext4"}, {"fat32", "fat12"}}
			if tier == "thorough" {
				again = append(again, [2]string{"iso9660", "ext4"}, [2]string{"ext4", "fat16"}, [2]string{"osdir", "fat12"}, [2]string{"osdir", "fat32"}, [2]string{"squashfs", "ext4"})
			}
			for i, sd := range again {
				cs = append(cs, core.MkCase(fmt.Sprintf("again-%s-%s-%d", sd[0], sd[1], i), "copy", r.Int63(), c16Case{Mode: "copy", Src: sd[0], Dst: sd[1], Again: true}))
			}
			for i, sd := range tight {
				cs = append(cs, core.MkCase(fmt.Sprintf("tight-%s-%s-%d", sd[0], sd[1], i), "copy", r.Int63(), c16Case{Mode: "copy", Src: sd[0], Dst: sd[1], Tight: true}))
			}
			for i := 0; i < 8; i++ {
				cs = append(cs, core.MkCase(fmt.Sprintf("mutations-%d", i), "compare", r.Int63(), c16Case{Mode: "compare-mutations", N: muts}))
			}
			cs = append(cs, core.MkCase("stream-fat32-eof-with-data", "stream", r.Int63(), c16Case{Mode: "stream", Dst: "fat32", EOFWithData: true}))
			if tier == "thorough" {
				cs = append(cs, core.MkCase("stream-fat32", "stream", r.Int63(), c16Case{Mode: "stream", Dst: "fat32"}), core.MkCase("stream-ext4", "stream", r.Int63(), c16Case{Mode: "stream", Dst: "ext4"}),
					core.MkCase("stream-ext4-eof-with-data", "stream", r.Int63(), c16Case{Mode: "stream", Dst: "ext4", EOFWithData: true}))
			}
			return cs
		},
		Run: c16Run,
	})
}
