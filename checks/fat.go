package checks

import (
	"fmt"
	"os"
	"strings"

	"github.com/diskfs/go-diskfs/backend/file"
	"github.com/diskfs/go-diskfs/filesystem"
	"github.com/diskfs/go-diskfs/filesystem/fat12"
	"github.com/diskfs/go-diskfs/filesystem/fat16"
	"github.com/diskfs/go-diskfs/filesystem/fat32"

	"verif/internal/core"
	"verif/internal/fatck"
	"verif/internal/fsdrive"
	"verif/internal/gen"
	"verif/internal/monstore"
	"verif/internal/reftree"
)

// FatVol describes one FAT volume inside a (sparse) device.
type FatVol struct {
	Type   string `json:"type"` // fat12 fat16 fat32
	Size   int64  `json:"size"`
	Start  int64  `json:"start"`
	Sector int64  `json:"sector"`
	Label  string `json:"label,omitempty"`
	Repro  bool   `json:"repro,omitempty"`
}

func (v FatVol) DevSize() int64 { return v.Start + v.Size + 1<<20 }

func fatCreate(st *monstore.Store, v FatVol) (filesystem.FileSystem, error) {
	b := file.New(st, false)
	switch v.Type {
	case "fat12":
		return fat12.Create(b, v.Size, v.Start, v.Sector, v.Label, v.Repro)
	case "fat16":
		return fat16.Create(b, v.Size, v.Start, v.Sector, v.Label, v.Repro)
	case "fat32":
		return fat32.Create(b, v.Size, v.Start, v.Sector, v.Label, v.Repro)
	}
	return nil, fmt.Errorf("unknown fat type %s", v.Type)
}

func fatRead(st *monstore.Store, v FatVol, ro bool) (filesystem.FileSystem, error) {
	b := file.New(st, ro)
	switch v.Type {
	case "fat12":
		return fat12.Read(b, v.Size, v.Start, v.Sector)
	case "fat16":
		return fat16.Read(b, v.Size, v.Start, v.Sector)
	case "fat32":
		return fat32.Read(b, v.Size, v.Start, v.Sector)
	}
	return nil, fmt.Errorf("unknown fat type %s", v.Type)
}

func fatClusterSize(fs filesystem.FileSystem) int {
	type bpc interface{ BytesPerCluster() int }
	if x, ok := fs.(bpc); ok {
		return x.BytesPerCluster()
	}
	return 512
}

// ---- name pools (legal-name domain of C01) ----

var fatFileNames = []string{
	"A.TXT", "FILE1.DAT", "readme.txt", "Mixed.Doc", "NOEXT", "lower",
	"a long file name with spaces.data", "verylongname_exceeding_eight.extension",
	"arch.tar.gz", "longfilename1.txt", "longfilename2.txt", "longfilename3.txt",
	"a b.txt", "ab.txt", "ünïcödé.dat", "文件.txt", "x$%'-_@!(){}^#&.z", "UPPER_AND_lower_Mixed_Name.TxT",
	"1", "12345678.123", "123456789.1234",
}
var fatDirNames = []string{"d1", "Dir Two", "SUB", "a_directory_with_a_long_name", "dìr"}

func variedCase(r gen.R, s string) string {
	switch r.Intn(3) {
	case 0:
		return strings.ToUpper(s)
	case 1:
		return strings.ToLower(s)
	}
	return s
}

// FatGen generates the next op from the model state.
type FatGen struct {
	R        gen.R
	Cluster  int
	MaxFile  int
	Handles  bool
	Invalid  bool
	OneHandlePerDir bool
	SameFile        bool // also open a second and third handle on a file that already has one
	Names    []string
	Dirs     []string
	NoGap    bool
	NoAlias  bool
	NoNonASCII bool
	// ext4 flavour
	Ext4     bool // no case-varied lookups, fewer truncating opens, rename only as a refusal, symlinks and attributes
	Sizes    []int
}

func (g *FatGen) sizeClass() int {
	if len(g.Sizes) > 0 {
		n := gen.Pick(g.R, g.Sizes)
		if g.MaxFile > 0 && n > g.MaxFile {
			n = g.MaxFile
		}
		return n
	}
	cs := g.Cluster
	c := []int{0, 1, 7, 511, 512, 513, cs - 1, cs, cs + 1, 2 * cs, 2*cs + 1, 3*cs + 5, 10 * cs, 37*cs + 11}
	n := gen.Pick(g.R, c)
	if g.MaxFile > 0 && n > g.MaxFile {
		n = g.MaxFile
	}
	if n < 0 {
		n = 0
	}
	return n
}

func (g *FatGen) names() []string {
	ns := g.Names
	if ns == nil {
		ns = fatFileNames
	}
	var out []string
	for _, n := range ns {
		if g.NoAlias && n == "ab.txt" {
			continue
		}
		if g.NoNonASCII && nameHasNonASCII(n) {
			continue
		}
		out = append(out, n)
	}
	return out
}

func nameHasNonASCII(s string) bool {
	for _, r := range s {
		if r > 127 {
			return true
		}
	}
	return false
}

func (g *FatGen) dirs() []string {
	ds := g.Dirs
	if ds == nil {
		ds = fatDirNames
	}
	var out []string
	for _, n := range ds {
		if g.NoNonASCII && nameHasNonASCII(n) {
			continue
		}
		out = append(out, n)
	}
	return out
}

func joinP(dir, name string) string {
	if dir == "" {
		return name
	}
	return dir + "/" + name
}

func (g *FatGen) Next(d *fsdrive.Driver) fsdrive.Op {
	r := g.R
	m := d.Model
	files := m.Files()
	dirs := m.Dirs()
	pickDir := func() string { return gen.Pick(r, dirs) }
	newFile := func() string {
		dir := pickDir()
		for try := 0; try < 8; try++ {
			p := joinP(dir, gen.Pick(r, g.names()))
			if m.Lookup(p) == nil {
				return p
			}
		}
		return joinP(dir, fmt.Sprintf("gen%d.bin", r.Intn(100000)))
	}
	busy := map[string]bool{}
	for _, hp := range d.HandlePaths() {
		busy[strings.ToLower(hp)] = true
	}
	existing := func() string {
		// a file with an open handle is only touched through that handle (two independent
		// writers on one file are outside the driven domain)
		var free []string
		for _, f := range files {
			if !busy[strings.ToLower(f)] {
				free = append(free, f)
			}
		}
		if len(free) == 0 {
			return ""
		}
		return gen.Pick(r, free)
	}
	lookupSpelling := func(p string) string {
		// case-varied spelling of the last element (FAT lookups are case-insensitive)
		if !g.Ext4 && r.Chance(0.25) {
			i := strings.LastIndex(p, "/")
			return p[:i+1] + variedCase(r, p[i+1:])
		}
		return p
	}
	for {
		w := r.Intn(100)
		switch {
		case w < 8:
			return fsdrive.Op{Kind: "create", Path: newFile()}
		case w < 14:
			dir := pickDir()
			if len(reftree.Split(dir)) >= 3 {
				continue
			}
			p := joinP(dir, gen.Pick(r, g.dirs()))
			if n := m.Lookup(p); n != nil && !n.Dir {
				continue
			}
			return fsdrive.Op{Kind: "mkdir", Path: p}
		case w < 40:
			p := existing()
			if p == "" || r.Chance(0.2) {
				p = newFile()
			}
			cur := 0
			if n := m.Lookup(p); n != nil {
				cur = len(n.Data)
			}
			var off int64
			switch r.Intn(5) {
			case 0:
				off = 0
			case 1:
				off = int64(cur)
			case 2:
				if cur > 0 {
					off = int64(r.Intn(cur))
				}
			case 3:
				if g.NoGap {
					off = int64(cur)
				} else {
					off = int64(cur) + int64(gen.Pick(r, []int{1, 511, g.Cluster, g.Cluster + 1, 3 * g.Cluster}))
				}
			case 4:
				if cur > g.Cluster {
					off = int64(cur/g.Cluster) * int64(g.Cluster)
				}
			}
			n := g.sizeClass()
			if g.MaxFile > 0 && int(off)+n > g.MaxFile {
				off = 0
			}
			return fsdrive.Op{Kind: "write", Path: lookupSpelling(p), Off: off, Len: n, DSeed: r.Uint64()}
		case w < 50:
			p := existing()
			if p == "" {
				continue
			}
			return fsdrive.Op{Kind: "append", Path: lookupSpelling(p), Len: g.sizeClass(), DSeed: r.Uint64()}
		case w < 58:
			if g.Ext4 {
				// symlinks and attribute changes take the place of most truncating opens
				all := m.Paths()
				switch r.Intn(5) {
				case 0:
					dir := pickDir()
					p := joinP(dir, fmt.Sprintf("link%d", r.Intn(1000)))
					if m.Lookup(p) != nil {
						continue
					}
					tl := gen.Pick(r, []int{1, 5, 59, 60, 61, 100, 255, 1000, 4095})
					tgt := make([]byte, tl)
					for i := range tgt {
						tgt[i] = "abcdefghij/klmnopqrstuvwxyz.."[(i*7+tl)%29]
					}
					if tgt[0] == '/' && r.Chance(0.5) {
						tgt[0] = 'r'
					}
					return fsdrive.Op{Kind: "symlink", Path: p, Path2: string(tgt)}
				case 1:
					if len(all) == 0 {
						continue
					}
					p := gen.Pick(r, all)
					if n := m.Lookup(p); n == nil || n.IsLink {
						continue
					}
					return fsdrive.Op{Kind: "chmod", Path: p, Mode: uint32(r.Intn(0o10000))}
				case 2:
					if len(all) == 0 {
						continue
					}
					p := gen.Pick(r, all)
					if n := m.Lookup(p); n == nil || n.IsLink {
						continue
					}
					ids := []int{0, 1, 1000, 65535, 65536, 1 << 31, (1 << 32) - 1}
					return fsdrive.Op{Kind: "chown", Path: p, UID: gen.Pick(r, ids), GID: gen.Pick(r, ids)}
				case 3:
					if len(all) == 0 {
						continue
					}
					p := gen.Pick(r, all)
					if n := m.Lookup(p); n == nil || n.IsLink {
						continue
					}
					ts := []int64{0, 1, 86400 * 365 * 10, 946684800, 2147483647, 2147483648, 4102444800, 1700000000}
					return fsdrive.Op{Kind: "chtimes", Path: p, T: [3]int64{gen.Pick(r, ts), gen.Pick(r, ts), gen.Pick(r, ts)}}
				}
			}
			p := existing()
			if p == "" {
				continue
			}
			return fsdrive.Op{Kind: "trunc", Path: lookupSpelling(p), Len: g.sizeClass(), DSeed: r.Uint64()}
		case w < 68:
			p := existing()
			if p == "" {
				continue
			}
			if g.Ext4 && !r.Chance(0.15) {
				continue
			}
			dir := ""
			if i := strings.LastIndex(p, "/"); i >= 0 {
				dir = p[:i]
			}
			np := joinP(dir, gen.Pick(r, g.names()))
			if strings.EqualFold(np, p) {
				continue
			}
			if n := m.Lookup(np); n != nil && n.Dir {
				continue
			}
			if busy[strings.ToLower(np)] {
				continue
			}
			return fsdrive.Op{Kind: "rename", Path: lookupSpelling(p), Path2: np}
		case w < 82:
			// remove a file or an empty directory
			if r.Chance(0.25) {
				var empties []string
				for _, dd := range dirs {
					if dd != "" && len(m.Lookup(dd).Children) == 0 {
						empties = append(empties, dd)
					}
				}
				if len(empties) > 0 {
					return fsdrive.Op{Kind: "remove", Path: gen.Pick(r, empties)}
				}
			}
			p := existing()
			if g.Ext4 && r.Chance(0.2) {
				var links []string
				for _, q := range m.Paths() {
					if n := m.Lookup(q); n != nil && n.IsLink {
						links = append(links, q)
					}
				}
				if len(links) > 0 {
					p = gen.Pick(r, links)
				}
			}
			if p == "" {
				continue
			}
			open := false
			for _, h := range d.Handles {
				if h != nil {
					open = true
				}
			}
			if open {
				continue // removing under open handles is not in the driven domain
			}
			return fsdrive.Op{Kind: "remove", Path: lookupSpelling(p)}
		case w < 93:
			if !g.Handles {
				continue
			}
			h := r.Intn(3)
			if d.Handles[h] == nil {
				p := existing()
				if p == "" || r.Chance(0.3) {
					p = newFile()
				}
				if hp := d.HandlePaths(); g.SameFile && len(hp) > 0 && r.Chance(0.5) {
					// another handle on a file that is already open: each handle keeps its own idea of the size
					return fsdrive.Op{Kind: "open", Path: gen.Pick(r, hp), H: h, Flag: os.O_RDWR}
				}
				if g.OneHandlePerDir {
					dir := ""
					if i := strings.LastIndex(p, "/"); i >= 0 {
						dir = p[:i]
					}
					clash := false
					for _, o := range d.HandlePaths() {
						od := ""
						if i := strings.LastIndex(o, "/"); i >= 0 {
							od = o[:i]
						}
						if strings.EqualFold(od, dir) {
							clash = true
						}
					}
					if clash {
						continue
					}
				} else {
					clash := false
					for _, o := range d.HandlePaths() {
						if strings.EqualFold(o, p) {
							clash = true
						}
					}
					if clash {
						continue
					}
				}
				return fsdrive.Op{Kind: "open", Path: p, H: h, Flag: os.O_RDWR | os.O_CREATE}
			}
			switch r.Intn(4) {
			case 0:
				return fsdrive.Op{Kind: "hclose", H: h}
			case 1:
				return fsdrive.Op{Kind: "hseek", H: h, Off: int64(r.Intn(3 * g.Cluster))}
			default:
				return fsdrive.Op{Kind: "hwrite", H: h, Len: g.sizeClass(), DSeed: r.Uint64()}
			}
		default:
			if !g.Invalid {
				continue
			}
			switch r.Intn(5) {
			case 0:
				return fsdrive.Op{Kind: "remove", Path: joinP(pickDir(), "no_such_file.xyz")}
			case 1:
				return fsdrive.Op{Kind: "rename", Path: joinP(pickDir(), "no_such_file.xyz"), Path2: joinP("", "other.xyz")}
			case 2:
				return fsdrive.Op{Kind: "write", Path: joinP(pickDir(), "no_such_file.xyz"), Flag: os.O_RDWR, Len: 10, DSeed: 1}
			case 3:
				// remove a non-empty directory
				for _, dd := range dirs {
					if dd != "" && len(m.Lookup(dd).Children) > 0 {
						return fsdrive.Op{Kind: "remove", Path: dd}
					}
				}
				continue
			case 4:
				// cross-directory rename: driven as a refusal
				p := existing()
				if p == "" || len(dirs) < 2 {
					continue
				}
				dir := ""
				if i := strings.LastIndex(p, "/"); i >= 0 {
					dir = p[:i]
				}
				nd := pickDir()
				if nd == dir {
					continue
				}
				np := joinP(nd, "moved.bin")
				if m.Lookup(np) != nil {
					continue
				}
				return fsdrive.Op{Kind: "xrename", Path: p, Path2: np}
			}
		}
	}
}

// ---- FAT history case ----

type fatCase struct {
	Vol     FatVol       `json:"vol"`
	Steps   int          `json:"steps,omitempty"`
	Mode    string       `json:"mode"` // random | refill | rootfill | exhaustive
	Ops     []fsdrive.Op `json:"ops,omitempty"` // replay: execute exactly these
	Handles bool         `json:"handles,omitempty"`
	Reopen  int          `json:"reopen,omitempty"` // re-open comparison every k steps
	Alias   bool         `json:"alias,omitempty"`  // the volume starts at a device offset equal to the offset of its own data area inside the volume
	Resess  int          `json:"resess,omitempty"` // the history goes on in a new session (image re-opened read-write) every k steps
	MaxFile int          `json:"max_file,omitempty"`
	Avoid   []string     `json:"avoid,omitempty"`
	Alphabet []fsdrive.Op `json:"alphabet,omitempty"`
	Depth   int          `json:"depth,omitempty"`
	From     int          `json:"from,omitempty"`
	To       int          `json:"to,omitempty"`
	// HighClusters: after Create almost all clusters whose byte offset in the volume lies below this value are
	// marked bad in both FAT copies (a state a real medium can be in) and the volume is re-opened, so that
	// the history allocates, reads and writes clusters on both sides of that offset (e.g. 4 GiB)
	HighClusters int64 `json:"high_clusters,omitempty"`
	// Used: the range is not fresh. A volume of the same type and geometry, made by the library, with files and
	// directories in its root, occupies it, and Create is run over it again (a disk that is formatted a second time)
	Used bool `json:"used,omitempty"`
}

// fatMarkBadBelow marks clusters bad (FAT32 only); returns how many were marked.
func fatMarkBadBelow(st *monstore.Store, v FatVol, limit int64) int {
	b := st.Peek(v.Start, 512)
	le := func(o, n int) int64 {
		x := int64(0)
		for i := n - 1; i >= 0; i-- {
			x = x<<8 | int64(b[o+i])
		}
		return x
	}
	bps, spc, reserved, nfats, fatsz := le(11, 2), le(13, 1), le(14, 2), le(16, 1), le(36, 4)
	total := le(32, 4)
	if bps == 0 || spc == 0 || fatsz == 0 {
		return 0
	}
	dataStart := (reserved + nfats*fatsz) * bps
	cs := spc * bps
	clusters := (total*bps - dataStart) / cs
	// first cluster whose first byte lies at or beyond the limit
	line := (limit-dataStart+cs-1)/cs + 2
	if line > clusters+2 {
		return 0
	}
	from, to := int64(3+8), line-4 // keep a few free ones low and just below the line
	if to <= from {
		return 0
	}
	mark := make([]byte, (to-from)*4)
	for i := 0; i < len(mark); i += 4 {
		mark[i], mark[i+1], mark[i+2], mark[i+3] = 0xf7, 0xff, 0xff, 0x0f
	}
	for f := int64(0); f < nfats; f++ {
		st.Poke(mark, v.Start+(reserved+f*fatsz)*bps+from*4)
	}
	return int(to - from)
}

func has(list []string, s string) bool {
	for _, x := range list {
		if x == s {
			return true
		}
	}
	return false
}

type fatRun struct {
	prop   string // C01 | C08
	c      core.Case
	fc     fatCase
	res    *core.Result
	st     *monstore.Store
	drv    *fsdrive.Driver
	ckSteps int
	// resession closes every handle and goes on with the image opened again from its bytes (read-write): the
	// rest of the history runs in a new session, as after a restart of the program that uses the library
	resession func() (filesystem.FileSystem, bool)
}

var c08ViolationRules = map[string]bool{
	fatck.RuleBootSignature: true, fatck.RuleBootGeometry: true, fatck.RuleGeometryVsRange: true, fatck.RuleLayoutOverflow: true,
	fatck.RuleBackupBoot: true, fatck.RuleFSInfo: true, fatck.RuleFATCopies: true,
	fatck.RuleChainRange: true, fatck.RuleChainFree: true, fatck.RuleChainBad: true, fatck.RuleChainCycle: true, fatck.RuleChainShort: true,
	fatck.RuleCrossLink: true, fatck.RuleLostCluster: true, fatck.RuleInternal: true, fatck.RuleLimit: true,
}

func (fr *fatRun) reader() fatck.Reader {
	v := fr.fc.Vol
	return func(off int64, n int) []byte {
		if off >= v.Size {
			return nil
		}
		if off+int64(n) > v.Size {
			n = int(v.Size - off)
		}
		return fr.st.Peek(v.Start+off, n)
	}
}

// lostCause explains lost clusters from the history: which earlier call released them.
func (fr *fatRun) structuralCheck(op fsdrive.Op, opErr error, removedChains map[uint32]string, prev *fatck.Report) *fatck.Report {
	v := fr.fc.Vol
	rep := fatck.Check(fr.reader(), v.Size)
	fr.res.Count("fatck.runs", 1)
	fr.ckSteps++
	for _, p := range rep.Problems {
		if !c08ViolationRules[p.Rule] {
			fr.res.Count("fatck.recorded_not_demanded."+p.Rule, 1)
			continue
		}
		cause := "other"
		switch p.Rule {
		case fatck.RuleLostCluster:
			cause = "unexplained"
			if len(p.Clusters) > 0 {
				if p.Clusters[0] == 2 && v.Type != "fat32" && len(fr.drv.History) == 0 {
					cause = "cluster-2-marked-at-create-on-fixed-root-volume"
				} else if why, ok := removedChains[p.Clusters[0]]; ok {
					cause = why
				} else {
					for _, cl := range p.Clusters {
						if why, ok := removedChains[cl]; ok {
							cause = why
							break
						}
					}
				}
			}
			if cause == "unexplained" && op.Kind != "" {
				cause = "first-seen-after-" + op.Kind
				if opErr != nil {
					cause += "-refused"
				}
			}
		case fatck.RuleLayoutOverflow:
			cause = "at-create"
			if strings.Contains(p.Detail, "FAT too small") {
				cause = "fat-too-small-for-cluster-count"
			}
		case fatck.RuleFSInfo:
			cause = classifyProblem(p.Detail)
		default:
			if op.Kind != "" {
				cause = "after-" + op.Kind
				if opErr != nil {
					cause += "-refused"
				}
			} else {
				cause = "at-create"
			}
		}
		key := fmt.Sprintf("%s/%s/%s/%s", fr.prop, v.Type, p.Rule, cause)
		fr.drv.Diverged = false // structural findings do not stop the history by themselves
		fr.failKey(key, "independent FAT checker: "+p.String())
	}
	return rep
}

func (fr *fatRun) failKey(key, detail string) {
	hist := append([]fsdrive.Op(nil), fr.drv.History...)
	rc := fr.fc
	rc.Ops = hist
	rc.Mode = "replay"
	if n := len(hist); n > 0 {
		detail += fmt.Sprintf(" [after step %d: %s]", n, hist[n-1].String())
	} else {
		detail += " [right after Create]"
	}
	fr.res.FailReplay(key, detail, map[string]any{"vol": fr.fc.Vol, "history": hist}, core.MkCase("replay-"+core.Hash(rc), fr.c.Kind, fr.c.Seed, rc))
}

// run executes one FAT case for property prop (C01: model oracle, C08: structural oracle).
func runFatCase(prop string, c core.Case, env *core.Env) core.Result {
	var fc fatCase
	c.Decode(&fc)
	var res core.Result
	v := fc.Vol
	if v.Sector == 0 {
		v.Sector = 512
		fc.Vol = v
	}
	if fc.Alias {
		// a device position computed without the volume's start (or with it twice) is off by exactly `start`:
		// with start = the offset of the data area inside the volume such a write to an early cluster lands in
		// the volume's own boot sector, FSInfo, backup boot sector or FAT instead of outside the volume
		if d := fatDataOffset(v); d > 0 {
			v.Start = d
			fc.Vol = v
			res.Mark("volume whose start equals the offset of its data area")
		}
	}
	st := monstore.NewMemFilled(v.DevSize(), uint64(c.Seed)|1, monstore.Range{Off: v.Start, End: v.Start + v.Size})
	fr := &fatRun{prop: prop, c: c, fc: fc, res: &res, st: st}
	var fs filesystem.FileSystem
	var err error
	if prop == "C03" {
		st.SetAllowed(monstore.Range{Off: v.Start, End: v.Start + v.Size})
	}
	if pi := core.Guard(func() { fs, err = fatCreate(st, v) }); pi != nil {
		res.Fail(fmt.Sprintf("%s/%s/create-panic/%s:%s", prop, v.Type, pi.Top, pi.Class), "Create panicked: "+pi.Msg, fc)
		return res
	}
	if err != nil {
		res.Count("create.refused", 1)
		res.Sample = map[string]any{"vol": v, "create_error": err.Error()}
		return res
	}
	res.Count("create.accepted."+v.Type, 1)
	if fc.Used {
		var e error
		pi := core.Guard(func() {
			// fill the old volume's root: files of several sizes, long names, directories with content
			for i := 0; i < 14 && e == nil; i++ {
				name := fmt.Sprintf("/old file number %02d.dat", i)
				if i%3 == 0 {
					name = fmt.Sprintf("/OLD%02d.TXT", i)
				}
				if i%5 == 4 {
					if e = fs.Mkdir(fmt.Sprintf("/olddir%02d/sub", i)); e == nil {
						e = writeWhole(fs, fmt.Sprintf("/olddir%02d/sub/inner.bin", i), gen.PRFBytes(uint64(i+50), 3000+i*700))
					}
					continue
				}
				e = writeWhole(fs, name, gen.PRFBytes(uint64(i+1), []int{1, 700, 5000, 19200, 40000}[i%5]))
			}
			if e == nil {
				fs, e = fatCreate(st, v)
			}
		})
		if pi != nil || e != nil {
			res.Inconclusive = fmt.Sprintf("formatting the used range again failed: %v %v", e, pi)
			return res
		}
		res.Mark("range formatted a second time over a populated volume")
	}
	if fc.HighClusters > 0 && v.Type == "fat32" {
		n := fatMarkBadBelow(st, v, fc.HighClusters)
		if n == 0 {
			res.Inconclusive = "high-clusters: the volume does not reach the requested offset"
			return res
		}
		var e error
		if pi := core.Guard(func() { fs, e = fatRead(st, v, false) }); pi != nil || e != nil {
			res.Inconclusive = fmt.Sprintf("high-clusters: re-opening the volume with %d bad clusters failed: %v", n, e)
			return res
		}
		res.Count("high_clusters.marked_bad", int64(n))
		res.Mark(fmt.Sprintf("clusters in use on both sides of volume offset %d GiB", fc.HighClusters>>30))
	}
	cs := fatClusterSize(fs)
	drv := &fsdrive.Driver{
		Cfg:   fsdrive.Cfg{Prefix: prop + "/" + v.Type, FoldCase: true, NoCompare: prop == "C08" || prop == "C03"},
		FS:    fs,
		Model: reftree.New(true),
		Res:   &res,
	}
	fr.drv = drv
	drv.Witness = func() any { return fc.Vol }
	drv.Replay = func(ops []fsdrive.Op) core.Case {
		rc := fc
		rc.Ops = ops
		rc.Mode = "replay"
		return core.MkCase("replay-"+core.Hash(rc), c.Kind, c.Seed, rc)
	}
	reopenCmp := func(tag string) bool {
		if prop != "C01" {
			return true
		}
		var fs2 filesystem.FileSystem
		var e error
		if pi := core.Guard(func() { fs2, e = fatRead(st, v, true) }); pi != nil {
			drv.Fail("reopen-panic", pi.Top+":"+pi.Class, "%s.Read of the image panicked: %s", v.Type, pi.Msg)
			return false
		}
		if e != nil {
			drv.Fail("reopen-error", "read-refuses-own-image", "%s.Read of the image the library wrote failed: %v", v.Type, e)
			return false
		}
		res.Count("reopen.comparisons", 1)
		return drv.Compare(fs2, "reopened", nil)
	}

	if prop == "C03" {
		if !c03Report(&res, st, v.Type, v.Start, v.Size, "Create", fr.failKey) {
			return res
		}
		drv.AfterOp = func(op fsdrive.Op, e error) {
			if !c03Report(&res, st, v.Type, v.Start, v.Size, op.Kind, fr.failKey) {
				drv.Diverged = true
			}
		}
		defer c03Final(&res, st, v.Type, v.Start, v.Size, fr.failKey)
	}
	// structural oracle state (C08)
	removed := map[uint32]string{}
	var lastRep *fatck.Report
	if prop == "C08" {
		lastRep = fr.structuralCheck(fsdrive.Op{}, nil, removed, nil)
		drv.AfterOp = func(op fsdrive.Op, e error) {
			// remember which chains the op was supposed to release, from the previous report
			if lastRep != nil && e == nil {
				note := func(path, why string) {
					if ent := lastRep.Find(path); ent != nil {
						for _, cl := range ent.Chain {
							removed[cl] = why
						}
					}
				}
				switch op.Kind {
				case "remove":
					note(op.Path, "chain-of-removed-entry")
				case "rename":
					note(op.Path2, "chain-of-entry-replaced-by-rename")
				case "trunc":
					if ent := lastRep.Find(op.Path); ent != nil && len(ent.Chain) > 1 {
						for _, cl := range ent.Chain[1:] {
							removed[cl] = "tail-released-by-truncating-open"
						}
					}
				}
			}
			lastRep = fr.structuralCheck(op, e, removed, lastRep)
		}
	}

	step := func(op fsdrive.Op) bool {
		if op.Kind == "xrename" {
			// cross-directory rename: must be refused and leave everything unchanged, or be a real move
			op.Kind = "rename"
		}
		drv.Apply(op)
		if drv.Diverged {
			return false
		}
		// a refusal for lack of space must be justified by the FAT itself: "space released ... can be used
		// again" - read raw, the table must not hold enough free clusters for what was refused
		if prop == "C01" && len(drv.History) > 0 && (op.Kind == "write" || op.Kind == "append" || op.Kind == "create" || op.Kind == "mkdir") &&
			strings.Contains(drv.History[len(drv.History)-1].Err, "no space left") {
			res.Count("nospace.refusals_checked", 1)
			cur := int64(0)
			if n := drv.Model.Lookup(op.Path); n != nil && !n.Dir {
				cur = int64(len(n.Data))
			}
			want := cur + int64(op.Len)
			if op.Kind == "write" {
				want = max(cur, op.Off+int64(op.Len))
			}
			extra := (want+int64(cs)-1)/int64(cs) - (cur+int64(cs)-1)/int64(cs)
			if op.Kind == "create" || op.Kind == "mkdir" {
				extra = 2 // its own first cluster and, at most, one more for the parent directory
			}
			if free := fatFreeClusters(st, v); free >= 0 && int64(free) >= extra+3 {
				how := "a new file"
				if cur > 0 {
					how = "an existing file"
				}
				drv.Fail("reuse", "refused-for-space-while-clusters-are-free/growing-"+strings.ReplaceAll(how, " ", "-"), "%s was refused with %q although the FAT holds %d free clusters and growing %s from %d to %d bytes needs %d", op.String(), drv.History[len(drv.History)-1].Err, free, how, cur, want, extra)
				return false
			}
		}
		if prop == "C01" {
			if len(drv.History) > 0 && drv.History[len(drv.History)-1].Err == "" {
				if drv.Light {
					if !drv.CompareTouched(fs, "live", op.Path) {
						return false
					}
				} else if !drv.Compare(fs, "live", nil) {
					return false
				}
			}
			if fc.Reopen > 0 && len(drv.History)%fc.Reopen == 0 {
				if !reopenCmp("periodic") {
					return false
				}
			}
		}
		return true
	}

	fr.resession = func() (filesystem.FileSystem, bool) {
		drv.CloseAll()
		var fs2 filesystem.FileSystem
		var e error
		if pi := core.Guard(func() { fs2, e = fatRead(st, v, false) }); pi != nil {
			drv.Fail("reopen-panic", pi.Top+":"+pi.Class, "%s.Read of the image panicked: %s", v.Type, pi.Msg)
			return nil, false
		}
		if e != nil {
			drv.Fail("reopen-error", "read-refuses-own-image", "%s.Read of the image the library wrote failed: %v", v.Type, e)
			return nil, false
		}
		fs = fs2
		drv.FS = fs2
		res.Count("sessions.continued_on_reopened_image", 1)
		res.Mark("history continued in a new session on the re-opened image")
		return fs2, true
	}
	switch fc.Mode {
	case "replay":
		for _, op := range fc.Ops {
			op.Err = ""
			if !step(op) {
				break
			}
		}
		if !drv.Diverged {
			drv.CloseAll()
			reopenCmp("final")
		}
	case "random":
		g := &FatGen{R: gen.New(c.Seed), Cluster: cs, MaxFile: fc.MaxFile, Handles: fc.Handles, Invalid: true, SameFile: prop == "C08",
			OneHandlePerDir: has(fc.Avoid, "two-handles-one-directory"), NoGap: has(fc.Avoid, "gap-writes"), NoAlias: has(fc.Avoid, "short-name-alias"), NoNonASCII: has(fc.Avoid, "non-ascii-names")}
		if g.MaxFile == 0 {
			g.MaxFile = 40 * cs
		}
		for i := 0; i < fc.Steps; i++ {
			if fc.Resess > 0 && i > 0 && i%fc.Resess == 0 {
				if _, ok := fr.resession(); !ok {
					break
				}
			}
			if !step(g.Next(drv)) {
				break
			}
		}
		if !drv.Diverged {
			drv.CloseAll()
			reopenCmp("final")
		}
	case "refill":
		drv.Light = true
		fatRefill(fr, fs, cs, step, reopenCmp)
	case "rootfill":
		drv.Light = true
		fatRootFill(fr, fs, step, reopenCmp)
	case "regrow":
		drv.Light = true
		fatRegrow(fr, fs, cs, step, reopenCmp)
	case "twohandles":
		// several handles on one file, each with the size it saw when it was opened: one grows (or shrinks the
		// need of) the file, another then writes inside / at the end of / beyond the size it remembers
		r := gen.New(c.Seed)
		for round := 0; round < fc.Steps; round++ {
			name := fmt.Sprintf("d%d/shared%02d.bin", round%2, round)
			if round < 2 {
				if !step(fsdrive.Op{Kind: "mkdir", Path: fmt.Sprintf("d%d", round)}) {
					break
				}
			}
			s0 := []int{1, cs - 1, cs, 3*cs + 7, 8 * cs}[round%5]
			ops := []fsdrive.Op{
				{Kind: "write", Path: name, Len: s0, DSeed: uint64(round + 1)},
				{Kind: "open", Path: name, H: 0, Flag: os.O_RDWR},
				{Kind: "open", Path: name, H: 1, Flag: os.O_RDWR},
				{Kind: "hseek", H: 1, Off: int64(s0)},
				{Kind: "hwrite", H: 1, Len: (1+r.Intn(40))*cs + r.Intn(cs), DSeed: r.Uint64()}, // grows by at least a cluster
			}
			switch round % 3 {
			case 0: // in place, inside the remembered size
				ops = append(ops, fsdrive.Op{Kind: "hseek", H: 0, Off: 0}, fsdrive.Op{Kind: "hwrite", H: 0, Len: max(1, s0/2), DSeed: r.Uint64()})
			case 1: // exactly up to the remembered end
				ops = append(ops, fsdrive.Op{Kind: "hseek", H: 0, Off: int64(s0 / 2)}, fsdrive.Op{Kind: "hwrite", H: 0, Len: s0 - s0/2, DSeed: r.Uint64()})
			case 2: // beyond the remembered end, inside the real one
				ops = append(ops, fsdrive.Op{Kind: "hseek", H: 0, Off: int64(s0)}, fsdrive.Op{Kind: "hwrite", H: 0, Len: cs/2 + 1, DSeed: r.Uint64()})
			}
			ops = append(ops, fsdrive.Op{Kind: "open", Path: name, H: 2, Flag: os.O_RDWR}, fsdrive.Op{Kind: "hwrite", H: 2, Len: 5, DSeed: 9},
				fsdrive.Op{Kind: "hclose", H: 1}, fsdrive.Op{Kind: "hclose", H: 0}, fsdrive.Op{Kind: "hclose", H: 2})
			ok := true
			for _, op := range ops {
				if !step(op) {
					ok = false
					break
				}
			}
			if !ok {
				break
			}
		}
		res.Mark("several handles on one file with different remembered sizes")
		drv.CloseAll()
	case "exhaustive":
		// handled by the caller (many short histories on fresh volumes); see c01Exhaustive
	}
	res.Evals = int64(len(drv.History))
	if res.Evals == 0 {
		res.Evals = 1
	}
	accepted := int64(0)
	for k, n := range res.Counters {
		if strings.HasPrefix(k, "calls.") && strings.HasSuffix(k, ".ok") && !strings.HasPrefix(k, "calls.hclose") {
			accepted += n
		}
	}
	if accepted > 0 {
		res.Sig(v.Type, v.Size, v.Start, fc.Mode, core.Hash(drv.History))
	}
	res.Mark(v.Type)
	if v.Start > 0 {
		res.Mark("volume at non-zero start")
	}
	if v.Start >= 1<<32 {
		res.Mark("volume beyond 4 GiB")
	}
	h := drv.History
	if len(h) > 12 {
		h = h[:12]
	}
	res.Sample = map[string]any{"vol": v, "mode": fc.Mode, "cluster": cs, "first_ops": opStrings(h)}
	return res
}

func opStrings(ops []fsdrive.Op) []string {
	var out []string
	for _, o := range ops {
		out = append(out, o.String())
	}
	return out
}

// fatRefill: fill to ENOSPC / release everything / refill; the bytes accepted per cycle must not shrink.
func fatRefill(fr *fatRun, fs filesystem.FileSystem, cs int, step func(fsdrive.Op) bool, reopen func(string) bool) {
	res := fr.res
	drv := fr.drv
	r := gen.New(fr.c.Seed)
	cycles := fr.fc.Steps
	if cycles == 0 {
		cycles = 3
	}
	release := gen.Pick(r, []string{"remove", "remove", "truncate", "rename-over"})
	sizes := []int{cs*64 + 17, cs * 8, 3*cs + 1, cs * 128, 1, cs}
	var first int64 = -1
	for cyc := 0; cyc < cycles; cyc++ {
		var accepted int64
		var names []string
		hitFull := false
		// the files go into a subdirectory: the root directory of FAT12/16 has a fixed number of entries and would
		// be full long before the clusters are (root-directory exhaustion is a workload of its own)
		if cyc == 0 {
			if !step(fsdrive.Op{Kind: "mkdir", Path: "fill"}) {
				return
			}
		}
		for i := 0; i < 100000; i++ {
			name := fmt.Sprintf("fill/fill%04d.bin", i)
			n := sizes[i%len(sizes)]
			op := fsdrive.Op{Kind: "write", Path: name, Len: n, DSeed: uint64(cyc*100000 + i + 1)}
			if !step(op) {
				return
			}
			last := drv.History[len(drv.History)-1]
			if last.Err != "" {
				hitFull = true
				break
			}
			accepted += int64(n)
			names = append(names, name)
		}
		if !hitFull {
			res.Inconclusive = "refill: volume never reported no space"
			return
		}
		// what is left is less than the refused file needed: use it up too, one cluster at a time, so that
		// the very last cluster of the volume is written (a full cluster) before the final refusal
		for i := 0; i < 100000; i++ {
			name := fmt.Sprintf("fill/tail%04d.bin", i)
			op := fsdrive.Op{Kind: "write", Path: name, Len: cs, DSeed: uint64(cyc*100000 + 50000 + i)}
			if !step(op) {
				return
			}
			if drv.History[len(drv.History)-1].Err != "" {
				res.Mark("filled to the last cluster")
				// with not a cluster left: the calls that need one are refused and must leave no trace, and a
				// handle that was refused a growing write goes on being used
				if cyc == 0 && len(names) > 2 {
					for _, op := range []fsdrive.Op{
						{Kind: "mkdir", Path: "fill/nodir"}, {Kind: "mkdir", Path: "nodir2"}, {Kind: "create", Path: "fill/empty_when_full.bin"},
						{Kind: "open", Path: names[1], H: 0, Flag: os.O_RDWR}, {Kind: "hseek", H: 0, Off: 1},
						{Kind: "hwrite", H: 0, Len: 300 * cs, DSeed: 91}, {Kind: "hwrite", H: 0, Len: 0}, {Kind: "hseek", H: 0, Off: 0},
						{Kind: "hwrite", H: 0, Len: 1, DSeed: 92}, {Kind: "hclose", H: 0},
					} {
						if !step(op) {
							return
						}
					}
					if !drv.Compare(fs, "live", nil) {
						return
					}
				}
				break
			}
			accepted += int64(cs)
			names = append(names, name)
		}
		res.Count("refill.cycles", 1)
		res.Count("refill.bytes_accepted", accepted)
		if first < 0 {
			first = accepted
		} else if accepted < first {
			drv.Fail("reuse", "space-not-reusable-after-"+release, "fill cycle %d accepted %d bytes before no-space, cycle 1 accepted %d (same files, same order): released space is not reusable", cyc+1, accepted, first)
			return
		} else {
			res.Mark("clusters reused after " + release)
		}
		// release everything (also the partially created file that hit ENOSPC, if it exists)
		for _, p := range drv.Model.Files() {
			var op fsdrive.Op
			switch release {
			case "remove":
				op = fsdrive.Op{Kind: "remove", Path: p}
			case "truncate":
				op = fsdrive.Op{Kind: "trunc", Path: p, Len: 0}
			case "rename-over":
				op = fsdrive.Op{Kind: "remove", Path: p}
			}
			if !step(op) {
				return
			}
		}
		if release == "truncate" {
			for _, p := range drv.Model.Files() {
				if !step(fsdrive.Op{Kind: "remove", Path: p}) {
					return
				}
			}
		}
		if !drv.Compare(fs, "live", nil) || !reopen("cycle") {
			return
		}
		// every other refill happens in a new session: what was released must be free for a program that
		// opens the image again, too
		if cyc%2 == 0 && cyc+1 < cycles {
			fs2, ok := fr.resession()
			if !ok {
				return
			}
			fs = fs2
		}
	}
}

// fatDataOffset creates the volume once at start 0 on a scratch store and returns the byte offset of its
// data area (first cluster) inside the volume, read raw from the boot sector; 0 if that cannot be done.
func fatDataOffset(v FatVol) int64 {
	v.Start = 0
	st := monstore.NewMem(v.Size)
	var err error
	if pi := core.Guard(func() { _, err = fatCreate(st, v) }); pi != nil || err != nil {
		return 0
	}
	b := st.Peek(0, 512)
	le := func(o, n int) int64 {
		x := int64(0)
		for i := n - 1; i >= 0; i-- {
			x = x<<8 | int64(b[o+i])
		}
		return x
	}
	bps, reserved, nfats, rootEnts, fatsz := le(11, 2), le(14, 2), le(16, 1), le(17, 2), le(22, 2)
	if fatsz == 0 {
		fatsz = le(36, 4)
	}
	if bps == 0 || fatsz == 0 {
		return 0
	}
	return (reserved+nfats*fatsz)*bps + (rootEnts*32+bps-1)/bps*bps
}

// fatFreeClusters counts the free entries of the first FAT copy, read raw (-1 if the boot sector makes no sense).
func fatFreeClusters(st *monstore.Store, v FatVol) int {
	b := st.Peek(v.Start, 512)
	le := func(o, n int) int64 {
		x := int64(0)
		for i := n - 1; i >= 0; i-- {
			x = x<<8 | int64(b[o+i])
		}
		return x
	}
	bps, spc, reserved, nfats, rootEnts := le(11, 2), le(13, 1), le(14, 2), le(16, 1), le(17, 2)
	total, fatsz := le(19, 2), le(22, 2)
	if total == 0 {
		total = le(32, 4)
	}
	if fatsz == 0 {
		fatsz = le(36, 4)
	}
	if bps == 0 || spc == 0 || fatsz == 0 {
		return -1
	}
	rootSectors := (rootEnts*32 + bps - 1) / bps
	clusters := (total - reserved - nfats*fatsz - rootSectors) / spc
	fat := st.Peek(v.Start+reserved*bps, int(fatsz*bps))
	free := 0
	for c := int64(2); c < clusters+2; c++ {
		var e uint32
		switch v.Type {
		case "fat12":
			o := c * 3 / 2
			if int(o)+1 >= len(fat) {
				return free
			}
			w := uint32(fat[o]) | uint32(fat[o+1])<<8
			if c%2 == 1 {
				e = w >> 4
			} else {
				e = w & 0xfff
			}
		case "fat16":
			if int(c*2)+1 >= len(fat) {
				return free
			}
			e = uint32(fat[c*2]) | uint32(fat[c*2+1])<<8
		default:
			if int(c*4)+3 >= len(fat) {
				return free
			}
			e = (uint32(fat[c*4]) | uint32(fat[c*4+1])<<8 | uint32(fat[c*4+2])<<16 | uint32(fat[c*4+3])<<24) & 0x0fffffff
		}
		if e == 0 {
			free++
		}
	}
	return free
}

// fatRegrow: what was released in front of a file or directory must be usable to grow it.
func fatRegrow(fr *fatRun, fs filesystem.FileSystem, cs int, step func(fsdrive.Op) bool, reopen func(string) bool) {
	res := fr.res
	drv := fr.drv
	refused := func() bool { return drv.History[len(drv.History)-1].Err != "" }
	steps := []fsdrive.Op{
		{Kind: "write", Path: "front.bin", Len: 40*cs + 5, DSeed: 1},
		{Kind: "mkdir", Path: "late"},
		{Kind: "write", Path: "late/first.bin", Len: cs, DSeed: 2},
		{Kind: "write", Path: "tail.bin", Len: 3 * cs, DSeed: 3},
	}
	for _, op := range steps {
		if !step(op) || refused() {
			return
		}
	}
	full := false
	for i := 0; i < 100000 && !full; i++ {
		if !step(fsdrive.Op{Kind: "write", Path: fmt.Sprintf("late/fill%05d.bin", i), Len: []int{cs * 97, cs * 8, cs}[i%3], DSeed: uint64(100 + i)}) {
			return
		}
		full = refused()
	}
	if !full {
		res.Inconclusive = "regrow: volume never reported no space"
		return
	}
	// everything behind tail.bin and the directory is in use now; free space only in front of them
	if !step(fsdrive.Op{Kind: "remove", Path: "front.bin"}) {
		return
	}
	for i := 0; i < 12; i++ {
		if !step(fsdrive.Op{Kind: "append", Path: "tail.bin", Len: 3*cs + 1, DSeed: uint64(5000 + i)}) {
			return
		}
		if refused() {
			break
		}
		res.Count("regrow.appends_accepted", 1)
	}
	for i := 0; i < 40*cs/32/4 && i < 400; i++ {
		if !step(fsdrive.Op{Kind: "create", Path: fmt.Sprintf("late/a_long_enough_name_to_need_slots_%04d.txt", i)}) {
			return
		}
		if refused() {
			break
		}
		res.Count("regrow.creates_accepted", 1)
	}
	res.Mark("file and directory grown into space released in front of them")
	if !drv.Compare(fs, "live", nil) {
		return
	}
	reopen("regrow")
}

// fatRootFill: root-directory exhaustion on FAT12/16 must clear after removals.
func fatRootFill(fr *fatRun, fs filesystem.FileSystem, step func(fsdrive.Op) bool, reopen func(string) bool) {
	res := fr.res
	drv := fr.drv
	first := -1
	for cyc := 0; cyc < 3; cyc++ {
		n := 0
		full := false
		for i := 0; i < 5000; i++ {
			if !step(fsdrive.Op{Kind: "create", Path: fmt.Sprintf("R%07d.X", i)}) {
				return
			}
			if drv.History[len(drv.History)-1].Err != "" {
				full = true
				break
			}
			n++
		}
		if !full {
			res.Count("rootfill.no_limit_reached", 1)
			return
		}
		res.Mark("root directory exhausted")
		if first < 0 {
			first = n
		} else if n < first {
			drv.Fail("reuse", "root-directory-slots-not-reusable", "root directory accepted %d entries in cycle %d but %d in cycle 1", n, cyc+1, first)
			return
		}
		for _, p := range drv.Model.Files() {
			if !step(fsdrive.Op{Kind: "remove", Path: p}) {
				return
			}
		}
		if !reopen("cycle") {
			return
		}
	}
}


// writeWhole creates a file with the given content through the plain API.
func writeWhole(fs filesystem.FileSystem, p string, data []byte) error {
	f, err := fs.OpenFile(p, os.O_CREATE|os.O_RDWR)
	if err != nil {
		return err
	}
	if _, err := f.Write(data); err != nil {
		f.Close()
		return err
	}
	return f.Close()
}
