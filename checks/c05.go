package checks

import (
	"fmt"

	"verif/internal/core"
	"verif/internal/gen"
)

// c05ParamGrid enumerates Create parameter sets the API may accept.
func c05ParamGrid(r gen.R, n int) []Ext4Cfg {
	var out []Ext4Cfg
	sizes := []int64{6 << 20, 8 << 20, 16 << 20, 33<<20 + 4096, 64 << 20, 200 << 20, 1 << 30}
	featSets := [][2][]string{
		{nil, nil},
		{{"journal"}, nil},
		{{"64bit"}, nil},
		{{"flex_bg"}, nil},
		{{"metadata_csum"}, {"gdt_csum"}},
		{{"metadata_csum"}, nil},
		{nil, {"sparse_super2"}},
		{{"resize_inode"}, nil},
		{{"journal", "flex_bg"}, nil},
		{{"dir_index"}, nil},
		{{"huge_file"}, nil},
		{{"journal", "64bit", "metadata_csum"}, {"gdt_csum"}},
	}
	for i := 0; i < n; i++ {
		fsx := featSets[i%len(featSets)]
		c := Ext4Cfg{Size: sizes[(i/3)%len(sizes)], SPB: gen.Pick(r, []uint8{0, 2, 4, 8}), Off: fsx[0], On: fsx[1]}
		switch r.Intn(4) {
		case 0:
			c.BPG = gen.Pick(r, []uint32{256, 1024, 2048, 8192})
		}
		switch r.Intn(4) {
		case 0:
			c.InodeRatio = gen.Pick(r, []int64{4096, 8192, 65536})
		case 1:
			c.InodeCount = gen.Pick(r, []uint32{16, 128, 1000, 5000})
		}
		if r.Chance(0.2) {
			c.ReservedPct = uint8(gen.Pick(r, []int{0, 1, 5, 50}))
		}
		if r.Chance(0.2) {
			c.LogFlex = gen.Pick(r, []int{1, 2, 4})
		}
		if r.Chance(0.3) {
			c.Start = gen.Pick(r, []int64{1 << 20, 4096, 512})
		}
		if r.Chance(0.3) {
			c.Label = gen.Pick(r, []string{"verif", "a-long-label-16c", "x"})
		}
		out = append(out, c)
	}
	return out
}

func c05Cases(seed int64, tier string) []core.Case {
	r := gen.New(seed ^ 0xC05)
	nGrid, nHist, steps := 36, 12, 40
	if tier == "thorough" {
		nGrid, nHist, steps = 400, 200, 120
	}
	var cs []core.Case
	// the parameter grid is fixed (not seeded): the set of configuration-level findings on a given
	// tree is then the same for every VERIF_SEED; the thorough grid extends the quick one
	for i, cfg := range c05ParamGrid(gen.New(0xC05C05), nGrid) {
		cs = append(cs, core.MkCase(fmt.Sprintf("create-%d", i), "create", r.Int63(), ext4Case{Cfg: cfg, Mode: "create-only"}))
	}
	// default parameters over a ladder of group counts, around the multiples of the number of group descriptors a
	// block holds (16 with 1 KiB blocks and 64-byte descriptors, 32 with 32-byte ones)
	ladder := []int64{8, 16, 120, 128, 136, 248, 256, 264}
	if tier == "thorough" {
		ladder = append(ladder, 384, 392, 504, 512, 520, 1024)
	}
	for _, mib := range ladder {
		cs = append(cs, core.MkCase(fmt.Sprintf("create-groups-%d", mib/8), "create", r.Int63(), ext4Case{Cfg: Ext4Cfg{Size: mib << 20}, Mode: "create-only"}))
		if mib >= 120 && mib <= 264 {
			cs = append(cs, core.MkCase(fmt.Sprintf("create-groups-%d-no64bit-csum", mib/8), "create", r.Int63(), ext4Case{Cfg: Ext4Cfg{Size: mib << 20, On: []string{"metadata_csum"}}, Mode: "create-only"}))
		}
	}
	cfgs := ext4Configs()
	for i := 0; i < nHist; i++ {
		cfg := cfgs[i%len(cfgs)]
		ec := ext4Case{Cfg: cfg, Mode: "random", Steps: steps/2 + r.Intn(steps), Fsck: 1, Handles: i%4 == 0}
		cs = append(cs, core.MkCase(fmt.Sprintf("history-%d", i), "history", r.Int63(), ec))
	}
	cs = append(cs, core.MkCase("fill-0", "fill", seed, ext4Case{Cfg: Ext4Cfg{Size: 16 << 20}, Mode: "fill", Fsck: 25}))
	cs = append(cs, core.MkCase("dirgrow-0", "dirgrow", seed, ext4Case{Cfg: Ext4Cfg{Size: 16 << 20}, Mode: "dirgrow", Steps: 60, Fsck: 5}))
	cs = append(cs, core.MkCase("appendspan-0", "appendspan", seed, ext4Case{Cfg: Ext4Cfg{Size: 32 << 20, SPB: 2, BPG: 4096}, Mode: "appendspan", Steps: 330, Fsck: 60}))
	cs = append(cs, core.MkCase("inodeedge-0", "inodeedge", seed, ext4Case{Cfg: Ext4Cfg{Size: 16 << 20}, Mode: "inodeedge", Fsck: 500}))
	if tier == "thorough" {
		cs = append(cs, core.MkCase("inodeedge-1", "inodeedge", seed+1, ext4Case{Cfg: Ext4Cfg{Size: 40 << 20, SPB: 2, BPG: 8192}, Mode: "inodeedge", Fsck: 500}),
			core.MkCase("inodeedge-2", "inodeedge", seed+2, ext4Case{Cfg: Ext4Cfg{Size: 32 << 20, SPB: 8, Start: 1 << 20}, Mode: "inodeedge", Fsck: 500}))
	}
	for i, cfg := range []Ext4Cfg{{Size: 16 << 20}, {Size: 32 << 20, SPB: 8, Off: []string{"resize_inode"}, Start: 1 << 20}} {
		cs = append(cs, core.MkCase(fmt.Sprintf("stalegap-%d", i), "stalegap", seed+int64(i), ext4Case{Cfg: cfg, Mode: "stalegap", Fsck: 40}))
	}
	cs = append(cs, core.MkCase("bigwrite-0", "bigwrite", seed, ext4Case{Cfg: Ext4Cfg{Size: 32 << 20, SPB: 2, BPG: 2048}, Mode: "bigwrite", Fsck: 1}))
	nf := 3
	if tier == "thorough" {
		nf = 24
	}
	for i := 0; i < nf; i++ {
		cs = append(cs, core.MkCase(fmt.Sprintf("dirfrag-%d", i), "dirfrag", r.Int63(), ext4Case{Cfg: Ext4Cfg{Size: 16 << 20, SPB: []uint8{2, 8, 4}[i%3]}, Mode: "dirfrag", Fsck: []int{1, 4, 2}[i%3]}))
	}
	// a file that grows contiguously past 32768 blocks (the longest initialised extent): 4 MiB appends to 100 MiB
	cs = append(cs, core.MkCase("appendspan-long-0", "appendspan", seed, ext4Case{Cfg: Ext4Cfg{Size: 200 << 20}, Mode: "appendspan", Steps: 25, Chunk: 4096, Fsck: 5}))
	cs = append(cs, core.MkCase("appendspan-small-0", "appendspan", seed, ext4Case{Cfg: Ext4Cfg{Size: 32 << 20, SPB: 2, BPG: 4096}, Mode: "appendspan", Steps: 9000, Chunk: 2, Fsck: 4000}))
	if tier == "thorough" {
		cs = append(cs, core.MkCase("appendspan-1", "appendspan", seed+1, ext4Case{Cfg: Ext4Cfg{Size: 64 << 20, SPB: 2, BPG: 2048, Start: 1 << 20}, Mode: "appendspan", Steps: 800, Fsck: 100}),
			core.MkCase("appendspan-2", "appendspan", seed+2, ext4Case{Cfg: Ext4Cfg{Size: 48 << 20, SPB: 2, BPG: 8192, Off: []string{"flex_bg"}}, Mode: "appendspan", Steps: 500, Fsck: 100}))
		cs = append(cs, core.MkCase("dirgrow-1", "dirgrow", seed+1, ext4Case{Cfg: Ext4Cfg{Size: 64 << 20, SPB: 8, Start: 1 << 20}, Mode: "dirgrow", Steps: 400, Fsck: 20}),
			core.MkCase("dirgrow-2", "dirgrow", seed+2, ext4Case{Cfg: Ext4Cfg{Size: 32 << 20, SPB: 4}, Mode: "dirgrow", Steps: 200, Fsck: 1}))
	}
	if tier == "thorough" {
		cs = append(cs, core.MkCase("fill-1", "fill", seed+1, ext4Case{Cfg: Ext4Cfg{Size: 16 << 20, SPB: 8, Start: 1 << 20}, Mode: "fill", Fsck: 10}))
	}
	return cs
}

func init() {
	core.Register(&core.Check{
		ID:    "C05",
		Level: "exploration",
		Rule: "ext4.Create over a grid of parameter sets (block size 1/2/4 KiB or default, blocks per group 256..8192, inode ratio/count, reserved %, log flex groups, features journal/64bit/flex_bg/metadata_csum/gdt_csum/sparse_super2/resize_inode/dir_index/huge_file on or off, sizes 6 MiB..1 GiB sparse, start 0/512/4096/1 MiB), each image handed to the reference checker e2fsck -f -n (independent implementation); then C04 histories with e2fsck after EVERY call, accepted or refused (fill workload: every 25th call and every refused call; directory-growth workload - two directories of 150..240-character names growing block by block between file allocations until they span far more than four extents, then thinned and regrown - every 5th call; append workload - a file grown by 64-block appends, one grown by 4 MiB appends to 100 MiB (contiguous runs longer than the 32768 blocks one initialised extent can describe), and one grown by 9000 two-block appends that fill group tails exactly, across several 4096-block groups, so that extents span group boundaries, then removed, twice - every 60th call and explicitly after growing and after releasing; fragmented-directory workload - a directory built in 2-4 extents of chosen lengths with a data file right behind each, shrunk about half a block at a time with an allocation after every step - every 1st/2nd/4th call; inode-boundary workload - the inode table used up twice, the objects whose number lies within 4 of a multiple of inodes-per-group (read from the superblock on the image) being directories in the first round, symlinks and files in the second, e2fsck after every call there, after the no-inode refusal and after every removal of such an object), and debugfs extraction of every file compared byte-for-byte with what was written; a refusal by Create is an observation; the stalegap workload (writes behind the end of a file on free space that holds old non-zero data; debugfs must extract zeros for the gap) and the bigwrite workload (single writes larger than a block group, e2fsck after every call); non-trivial = image accepted by Create and checked; distinct = distinct (parameter set, executed history)",
		Assumptions: []string{"e2fsck/debugfs 1.47.0 from e2fsprogs are the reference implementation", "images are real sparse files under /dev/shm; e2fsck is given file?offset=N for volumes at a non-zero start"},
		MinSigs:   map[string]int{"quick": 20, "thorough": 300},
		NeedMarks: []string{"single writes larger than a block group", "writes behind the end of a file on free space holding old data", "ENOSPC reached", "directories grown block by block between other allocations", "file grown by appends across block groups and released", "fragmented directory shrunk block by block with allocations in between", "objects created and removed at the last and first inode numbers of block groups", "inode table used up"},
		CPUSec:    900,
		Cases:     c05Cases,
		Run:       func(c core.Case, env *core.Env) core.Result { return runExt4Case("C05", c, env) },
	})
}
