package checks

import (
	"bytes"
	"fmt"
	iofs "io/fs"
	"sort"
	"strings"

	"github.com/diskfs/go-diskfs/filesystem"
	"github.com/diskfs/go-diskfs/filesystem/iso9660"

	"verif/internal/core"
	"verif/internal/gen"
	"verif/internal/isock"
	"verif/internal/monstore"
)

type c06Case struct {
	Opts  ISOOpts `json:"opts"`
	Start int64   `json:"start"`
	Shape string  `json:"shape"`
	Tree  Tree    `json:"tree,omitempty"` // explicit tree (replay); otherwise generated from the seed
}

// obsNode is what an observer (library reader, independent reader) saw at one path.
type obsNode struct {
	Name  string
	Dir   bool
	Link  string
	IsLnk bool
	Hash  string
	Size  int
	Kids  []*obsNode
}

func (n *obsNode) canon() string {
	if !n.Dir {
		if n.IsLnk {
			return "L:" + n.Link
		}
		return "F:" + n.Hash
	}
	var parts []string
	for _, k := range n.Kids {
		parts = append(parts, k.canon())
	}
	sort.Strings(parts)
	return "D(" + strings.Join(parts, ",") + ")"
}

func treeToObs(t Tree) *obsNode {
	root := &obsNode{Dir: true}
	byPath := map[string]*obsNode{"": root}
	for _, n := range t.Sorted() {
		parent := ""
		name := n.Path
		if i := strings.LastIndex(n.Path, "/"); i >= 0 {
			parent, name = n.Path[:i], n.Path[i+1:]
		}
		o := &obsNode{Name: name, Dir: n.Dir, Link: n.Link, IsLnk: n.Link != ""}
		if !n.Dir && n.Link == "" {
			c := n.Content()
			o.Hash, o.Size = core.Hash(c), len(c)
		}
		p := byPath[parent]
		if p == nil {
			continue
		}
		p.Kids = append(p.Kids, o)
		byPath[n.Path] = o
	}
	return root
}

// walkLib reads the whole tree through the library's reader.
func walkLib(fs filesystem.FileSystem, dir string, depth int, budget *int) (*obsNode, error) {
	n := &obsNode{Dir: true}
	if depth > 40 {
		return n, fmt.Errorf("directory nesting deeper than 40 at %q", dir)
	}
	arg := dir
	if arg == "" {
		arg = "."
	}
	ents, err := fs.ReadDir(arg)
	if err != nil {
		return n, fmt.Errorf("ReadDir(%q): %w", arg, err)
	}
	for idx, e := range ents {
		*budget--
		if *budget < 0 {
			return n, fmt.Errorf("more than the expected number of entries")
		}
		p := e.Name()
		if dir != "" {
			p = dir + "/" + e.Name()
		}
		switch {
		case e.IsDir():
			k, err := walkLib(fs, p, depth+1, budget)
			k.Name = e.Name()
			n.Kids = append(n.Kids, k)
			if err != nil {
				return n, err
			}
		case e.Type()&iofs.ModeSymlink != 0:
			k := &obsNode{Name: e.Name(), IsLnk: true}
			if rl, ok := fs.(interface{ ReadLink(string) (string, error) }); ok {
				k.Link, _ = rl.ReadLink(p)
			} else if rl, ok := e.(interface{ ReadLink() (string, bool) }); ok {
				k.Link, _ = rl.ReadLink()
			} else if rl, ok := e.(interface{ Readlink() (string, error) }); ok {
				k.Link, _ = rl.Readlink()
			}
			n.Kids = append(n.Kids, k)
		default:
			info, _ := e.Info()
			want := 1 << 20
			if info != nil {
				want = int(info.Size())
			}
			if info != nil && info.Size() == 0 && len(ents) > 1500 && idx%40 != 0 {
				// a directory of thousands of empty files: every lookup by path costs a pass over the listing, so
				// only every 40th file is also opened and read; the others are taken with the size the listing gives
				n.Kids = append(n.Kids, &obsNode{Name: e.Name(), Hash: core.Hash([]byte{}), Size: 0})
				continue
			}
			data, rerr, _ := readAllFS(fs, p, want)
			if rerr != nil {
				return n, fmt.Errorf("reading %q: %w", p, rerr)
			}
			n.Kids = append(n.Kids, &obsNode{Name: e.Name(), Hash: core.Hash(data), Size: len(data)})
		}
	}
	return n, nil
}

// isoAllowed reports whether img is an acceptable plain-ISO name for src under the documented rule
// (upper case, other characters -> '_', base <= 8, extension <= 3; either the first or the last dot
// separates base and extension), or that rule's collision form (base tail replaced by digits).
func isoAllowed(src, img string, dir bool) bool {
	img = strings.TrimSuffix(img, ";1")
	img = strings.TrimSuffix(img, ".")
	mapc := func(s string) string {
		s = strings.ToUpper(s)
		out := []rune{}
		for _, c := range s { // one '_' per character, not per UTF-8 byte
			if (c >= 'A' && c <= 'Z') || (c >= '0' && c <= '9') || c == '_' {
				out = append(out, c)
			} else {
				out = append(out, '_')
			}
		}
		return string(out)
	}
	cands := map[string]bool{}
	for _, split := range []int{strings.Index(src, "."), strings.LastIndex(src, ".")} {
		base, ext := src, ""
		if split >= 0 {
			base, ext = src[:split], src[split+1:]
		}
		base, ext = mapc(base), mapc(ext)
		if len(base) > 8 {
			base = base[:8]
		}
		if len(ext) > 3 {
			ext = ext[:3]
		}
		name := base
		if ext != "" && !dir {
			name = base + "." + ext
		}
		cands[name] = true
		if dir {
			cands[base] = true
		}
	}
	if cands[img] {
		return true
	}
	// collision form: same extension, same length-8 base whose tail is digits
	for c := range cands {
		cb, ce := c, ""
		if i := strings.Index(c, "."); i >= 0 {
			cb, ce = c[:i], c[i:]
		}
		ib, ie := img, ""
		if i := strings.Index(img, "."); i >= 0 {
			ib, ie = img[:i], img[i:]
		}
		if ie != ce || len(ib) > 8 {
			continue
		}
		k := len(ib)
		for k > 0 && ib[k-1] >= '0' && ib[k-1] <= '9' {
			k--
		}
		if k < len(ib) && strings.HasPrefix(cb, ib[:min(k, len(cb))]) {
			return true
		}
	}
	return false
}

// matchTrees pairs want (source) and got (image) recursively by canonical form and checks names.
func matchTrees(want, got *obsNode, path string, exact bool, bad func(rule, detail string)) {
	// files by content
	wf := map[string][]*obsNode{}
	for _, k := range want.Kids {
		if !k.Dir {
			wf[k.canon()] = append(wf[k.canon()], k)
		}
	}
	gotNames := map[string]bool{}
	for _, k := range got.Kids {
		if gotNames[k.Name] {
			bad("duplicate-name", fmt.Sprintf("directory %q lists %q twice", path, k.Name))
		}
		gotNames[k.Name] = true
		if k.Dir {
			continue
		}
		c := k.canon()
		cands := wf[c]
		if len(cands) == 0 {
			bad("extra-or-wrong-file", fmt.Sprintf("directory %q: image file %q (%d bytes) matches no source file by content", path, k.Name, k.Size))
			continue
		}
		// prefer the candidate whose name matches
		idx := 0
		for i, w := range cands {
			if w.Name == k.Name || (!exact && isoAllowed(w.Name, k.Name, false)) {
				idx = i
				break
			}
		}
		w := cands[idx]
		wf[c] = append(cands[:idx:idx], cands[idx+1:]...)
		if exact {
			if w.Name != k.Name {
				bad("name-not-preserved", fmt.Sprintf("directory %q: source name %q appears as %q", path, w.Name, k.Name))
			}
		} else if !isoAllowed(w.Name, k.Name, false) {
			bad("name-not-by-8.3-rule", fmt.Sprintf("directory %q: source name %q appears as %q, which the documented 8.3 rule does not produce", path, w.Name, k.Name))
		}
	}
	for _, rest := range wf {
		for _, w := range rest {
			bad("missing-file", fmt.Sprintf("directory %q: source file %q (%d bytes) is not in the image", path, w.Name, w.Size))
		}
	}
	// directories by canonical form
	wd := map[string][]*obsNode{}
	for _, k := range want.Kids {
		if k.Dir {
			wd[k.canon()] = append(wd[k.canon()], k)
		}
	}
	for _, k := range got.Kids {
		if !k.Dir {
			continue
		}
		c := k.canon()
		cands := wd[c]
		if len(cands) == 0 {
			// no structural match: pair by name to descend and report inside
			var byName *obsNode
			for _, w := range want.Kids {
				if w.Dir && (w.Name == k.Name || (!exact && isoAllowed(w.Name, k.Name, true))) {
					byName = w
				}
			}
			if byName != nil {
				matchTrees(byName, k, path+"/"+k.Name, exact, bad)
				for c2, l := range wd {
					for i, w := range l {
						if w == byName {
							wd[c2] = append(l[:i:i], l[i+1:]...)
						}
					}
				}
			} else {
				bad("extra-or-wrong-directory", fmt.Sprintf("directory %q: image directory %q matches no source directory", path, k.Name))
			}
			continue
		}
		idx := 0
		for i, w := range cands {
			if w.Name == k.Name {
				idx = i
			}
		}
		w := cands[idx]
		wd[c] = append(cands[:idx:idx], cands[idx+1:]...)
		if exact && w.Name != k.Name {
			bad("name-not-preserved", fmt.Sprintf("directory %q: source directory %q appears as %q", path, w.Name, k.Name))
		} else if !exact && !isoAllowed(w.Name, k.Name, true) {
			bad("name-not-by-8.3-rule", fmt.Sprintf("directory %q: source directory %q appears as %q", path, w.Name, k.Name))
		}
		matchTrees(w, k, path+"/"+k.Name, exact, bad)
	}
	for _, rest := range wd {
		for _, w := range rest {
			bad("missing-directory", fmt.Sprintf("directory %q: source directory %q is not in the image", path, w.Name))
		}
	}
}

func isockToObs(v *isock.Volume, rd isock.Reader) *obsNode {
	root := &obsNode{Dir: true}
	byPath := map[string]*obsNode{"": root}
	for i := range v.Nodes {
		n := &v.Nodes[i]
		parent, name := "", n.Path
		if j := strings.LastIndex(n.Path, "/"); j >= 0 {
			parent, name = n.Path[:j], n.Path[j+1:]
		}
		o := &obsNode{Name: name, Dir: n.IsDir, IsLnk: n.IsSymlink, Link: n.LinkTarget}
		if !n.IsDir && !n.IsSymlink {
			data := v.ReadFile(rd, n)
			o.Hash, o.Size = core.Hash(data), len(data)
		}
		p := byPath[parent]
		if p == nil {
			continue
		}
		p.Kids = append(p.Kids, o)
		if n.IsDir {
			byPath[n.Path] = o
		}
	}
	return root
}

func c06Tree(r gen.R, shape string, o ISOOpts) Tree {
	unit := int(o.Block)
	if unit == 0 {
		unit = 2048
	}
	rr := o.RockRidge
	switch shape {
	case "flat-many":
		return genTree(r, TreeCfg{Dirs: 1, Files: 130 + r.Intn(200), Depth: 2, Unit: unit, MaxSize: 3000})
	case "collisions":
		var t Tree
		t = append(t, TNode{Path: "dir", Dir: true})
		n := 2 + r.Intn(40)
		for i := 0; i < n; i++ {
			t = append(t, TNode{Path: fmt.Sprintf("dir/this_is_a_long_name_%03d.extension", i), Size: 10 + i, Seed: uint64(i + 1)})
		}
		for i := 0; i < 5; i++ {
			t = append(t, TNode{Path: fmt.Sprintf("samebase%d.txt", i), Size: 100, Seed: uint64(100 + i)})
		}
		// groups that collide after truncation next to siblings that already own, by their natural names, the
		// short names a resolver would hand out (base cut to 7, 6, 5 characters + 1, 2, 3 digits, with and
		// without the extension): whatever numbering scheme is used, a generated name must not equal a sibling's
		for g, base := range []string{"filename", "abcdefgh", "zyxwvuts"} {
			d := fmt.Sprintf("grp%d", g)
			t = append(t, TNode{Path: d, Dir: true})
			k := 8 + r.Intn(7)
			for i := 0; i < k; i++ {
				t = append(t, TNode{Path: fmt.Sprintf("%s/%s_colliding_%c.dat", d, base, 'a'+rune(i)), Size: 20 + i, Seed: uint64(1000*g + i + 1)})
			}
			seed := uint64(1000*g + 500)
			nat := func(name string) {
				seed++
				t = append(t, TNode{Path: d + "/" + name, Size: 30, Seed: seed})
			}
			for _, dg := range r.Perm(10)[:1+r.Intn(3)] {
				nat(fmt.Sprintf("%s%d.dat", base[:7], dg))
			}
			for _, dg := range r.Perm(16)[:5] {
				nat(fmt.Sprintf("%s%02d.dat", base[:6], dg))
			}
			nat(fmt.Sprintf("%s%03d.dat", base[:5], r.Intn(12)))
			nat(fmt.Sprintf("%s~%d.dat", base[:6], 1+r.Intn(3)))
		}
		return t
	case "many-dirs":
		// 50-160 directories with names of 8-30 characters, flat and nested, each holding one file: path tables
		// (primary and Joliet, whose records are longer) of more than one block
		var t Tree
		nd := 50 + r.Intn(110)
		var dirs []string
		for i := 0; i < nd; i++ {
			name := fmt.Sprintf("Directory %03d %s", i, strings.Repeat(string(rune('a'+i%26)), r.Intn(16)))
			if i%3 == 0 {
				name = fmt.Sprintf("d%03d", i)
			}
			p := name
			if len(dirs) > 0 && r.Chance(0.35) {
				parent := gen.Pick(r, dirs)
				if strings.Count(parent, "/") < 4 {
					p = parent + "/" + name
				}
			}
			dirs = append(dirs, p)
			t = append(t, TNode{Path: p, Dir: true})
			t = append(t, TNode{Path: p + "/f.txt", Size: 20 + i, Seed: uint64(i + 1)})
		}
		return t
	case "same-names":
		// the same directory names under sibling parents, two and three levels down (en/docs, fr/docs, ...): a
		// reader that finds a directory by its name and level alone ends up in the neighbour's
		var t Tree
		tops := []string{"en", "fr", "de", "it", "pt"}[:2+r.Intn(4)]
		subs := []string{"docs", "img", "src"}[:1+r.Intn(3)]
		seed := uint64(1)
		for _, a := range tops {
			t = append(t, TNode{Path: a, Dir: true})
			for _, b := range subs {
				t = append(t, TNode{Path: a + "/" + b, Dir: true})
				seed++
				t = append(t, TNode{Path: a + "/" + b + "/readme.txt", Size: 40 + int(seed), Seed: seed})
				seed++
				t = append(t, TNode{Path: a + "/" + b + "/only_" + a + "_" + b + ".txt", Size: 15, Seed: seed})
				if r.Chance(0.6) {
					t = append(t, TNode{Path: a + "/" + b + "/deep", Dir: true})
					seed++
					t = append(t, TNode{Path: a + "/" + b + "/deep/data.bin", Size: unit + int(seed), Seed: seed})
				}
			}
		}
		return t
	case "deep":
		var t Tree
		p := ""
		depth := 7
		if o.Deep || rr {
			depth = 8 + r.Intn(4)
		}
		for i := 0; i < depth; i++ {
			if p == "" {
				p = fmt.Sprintf("l%d", i)
			} else {
				p = p + fmt.Sprintf("/l%d", i)
			}
			t = append(t, TNode{Path: p, Dir: true})
			t = append(t, TNode{Path: p + "/f.txt", Size: 10 + i*700, Seed: uint64(i + 1)})
		}
		return t
	case "sizes":
		var t Tree
		for i, sz := range []int{0, 0, 1, unit - 1, unit, unit + 1, 2 * unit, 3*unit + 17, 3 << 20} {
			t = append(t, TNode{Path: fmt.Sprintf("S%d.BIN", i), Size: sz, Seed: uint64(i + 1), Kind: []string{"prf", "text", "sparse"}[i%3]})
		}
		return t
	case "name-lengths":
		// one name of every length: a record's length depends on the name's length (and its parity), on the
		// Rock Ridge entries and on where the system use area has to be continued
		var t Tree
		maxL := 30
		if rr {
			maxL = 250
		}
		t = append(t, TNode{Path: "nl", Dir: true}, TNode{Path: "nd", Dir: true})
		mk := func(prefix string, l int, ext string) string {
			n := prefix
			for len(n) < l-len(ext) {
				n += string(rune('a' + (len(n)*7+l)%26))
			}
			return n + ext
		}
		for l := 1; l <= maxL; l++ {
			if l >= 8 {
				t = append(t, TNode{Path: "nl/" + mk(fmt.Sprintf("%03d", l), l, ".dat"), Size: 10 + l, Seed: uint64(3000 + l)})
			}
			if l < 8 || l%3 == 0 {
				t = append(t, TNode{Path: "nl/" + mk(fmt.Sprintf("n%03d", l)[:min(l, 4)], l, ""), Size: 5 + l, Seed: uint64(3300 + l)})
			}
			if l >= 4 && (l <= 30 || (l >= 110 && l <= 160)) {
				d := "nd/" + mk(fmt.Sprintf("d%03d", l), l, "")
				t = append(t, TNode{Path: d, Dir: true}, TNode{Path: d + "/in.txt", Size: l, Seed: uint64(3600 + l)})
			}
		}
		return t
	case "longnames":
		t := genTree(r, TreeCfg{Dirs: 4, Files: 25, Depth: 3, Unit: unit, MaxSize: 5000, LongNames: true, Unicode: rr || o.Joliet})
		if rr {
			for i := 0; i < 3; i++ {
				t = append(t, TNode{Path: strings.Repeat(string(rune('x'+i)), 180+35*i) + ".dat", Size: 50, Seed: uint64(500 + i)})
			}
		}
		return t
	}
	cfg := TreeCfg{Dirs: 2 + r.Intn(8), Files: 5 + r.Intn(40), Depth: 4, Unit: unit, MaxSize: 40000}
	if rr {
		cfg.Symlinks = r.Intn(4)
	}
	t := genTree(r, cfg)
	if rr || o.Joliet {
		// names that only exact preservation gets right
		t = append(t, TNode{Path: ".hidden", Size: 7, Seed: 901}, TNode{Path: "UPPER lower.Mixed", Size: 8, Seed: 902}, TNode{Path: "trailing.dot.", Size: 9, Seed: 903})
	}
	return t
}

// c06RecordSum reads the directory at (extent, size) of an image raw and returns the sum of its record lengths.
func c06RecordSum(rd isock.Reader, ext, size uint32, bs int64) (sum int64, nrec int) {
	for blk := int64(0); blk*bs < int64(size); blk++ {
		buf := rd(int64(ext)*bs+blk*bs, int(bs))
		for pos := int64(0); pos < int64(len(buf)); {
			l := int64(buf[pos])
			if l == 0 {
				break
			}
			sum += l
			nrec++
			pos += l
		}
	}
	return
}

// c06Steer grows and shrinks names of a small tree, re-building the image each time, until the records of
// the target directory (root or "sub" of the primary tree, or the Joliet root) add up to exactly one logical
// block: the boundary where a record either still fits or has to move to the next block. The feedback comes
// from reading the directory raw, so the boundary is reached whatever record sizes the code under test uses.
func c06Steer(o ISOOpts, target string, res *core.Result) (Tree, bool) {
	bs := o.Block
	if bs == 0 {
		bs = 2048
	}
	dir := ""
	if target == "primary-sub" {
		dir = "sub/"
	}
	extra := make([]int, 400) // extra name characters of adjustable file i
	nfiles := 4
	maxExtra := 6 // 8.3 names
	if o.RockRidge || target == "joliet-root" {
		maxExtra = 50
	}
	build := func() Tree {
		t := Tree{{Path: "sub", Dir: true}, {Path: "sub/inner.txt", Size: 100, Seed: 77}, {Path: "zlast.bin", Size: 300, Seed: 78}}
		if target != "primary-sub" && o.Joliet {
			t = Tree{{Path: "zlast.bin", Size: 300, Seed: 78}} // Joliet trees with a subdirectory are a known finding
		}
		for i := 0; i < nfiles; i++ {
			// with long names in play the 8.3 part is kept saturated, so that one more character changes
			// only the long-name part of the record
			fill := ""
			if maxExtra > 6 {
				fill = "qqqqqq"
			}
			t = append(t, TNode{Path: fmt.Sprintf("%s%c%c%s%s.d", dir, 'a'+rune(i/26), 'a'+rune(i%26), fill, strings.Repeat("x", extra[i])), Size: 10 + i, Seed: uint64(200 + i)})
		}
		return t
	}
	size := int64(8 << 20)
	for iter := 0; iter < 120; iter++ {
		t := build()
		st := monstore.NewMem(size)
		err, pi := guardErr(func() error { return buildISO(st, size, 0, o, t) })
		if err != nil || pi != nil {
			return t, false
		}
		rd := func(off int64, n int) []byte {
			if off >= size {
				return nil
			}
			return st.Peek(off, n)
		}
		img := isock.Parse(rd, size)
		vol := img.Primary
		if target == "joliet-root" {
			vol = img.Joliet
		}
		if vol == nil {
			return t, false
		}
		ext, dsz := vol.RootExtent, vol.RootSize
		if target == "primary-sub" {
			n := vol.Find("sub")
			if n == nil {
				n = vol.Find("SUB")
			}
			if n == nil {
				return t, false
			}
			ext, dsz = n.Extent, n.Size
		}
		sum, _ := c06RecordSum(rd, ext, dsz, bs)
		res.Count("steer.builds", 1)
		gap := bs - sum
		per := int64(1)
		if target == "joliet-root" {
			per = 2 // UCS-2
		}
		switch {
		case gap == 0:
			return t, true
		case gap < 0:
			need := (-gap + per - 1) / per
			done := false
			for i := nfiles - 1; i >= 0 && need > 0; i-- {
				if extra[i] > 0 {
					k := min(int64(extra[i]), need)
					extra[i] -= int(k)
					need -= k
					done = true
				}
			}
			if !done {
				if nfiles <= 1 {
					return t, false
				}
				nfiles--
			}
		default:
			room := int64(0)
			for i := 0; i < nfiles; i++ {
				room += int64(maxExtra - extra[i])
			}
			need := gap / per
			if need > room || need == 0 {
				if nfiles >= len(extra) {
					return t, false
				}
				nfiles += int(max(1, (need-room)/(60/per))) // a record is at least ~40 bytes: never overshoots by much
				nfiles = min(nfiles, len(extra))
				continue
			}
			for i := 0; i < nfiles && need > 0; i++ {
				k := min(int64(maxExtra-extra[i]), need)
				k -= k % 2 // even steps change a record's length by exactly the same amount
				if k == 0 && need == 1 {
					k = 1
				}
				extra[i] += int(k)
				need -= k
			}
		}
	}
	return build(), false
}

// c06Facts are the structural facts of a tree that the cause predicates refer to.
type c06Facts struct {
	maxDepth      int
	bigJolietDirs map[string]bool // directories whose Joliet records need more than one block
	nonASCIIDirs  map[string]bool // directories holding an entry with a non-ASCII name
	longNameDirs  map[string]bool // directories holding an entry whose Joliet record exceeds 127 bytes (name of 48+ characters)
}

func c06TreeFacts(t Tree, block int64) c06Facts {
	f := c06Facts{bigJolietDirs: map[string]bool{}, nonASCIIDirs: map[string]bool{}, longNameDirs: map[string]bool{}}
	bytesIn := map[string]int{}
	for _, n := range t {
		d := strings.Count(n.Path, "/") + 1
		if n.Dir && d > f.maxDepth {
			f.maxDepth = d
		}
		parent, name := "", n.Path
		if i := strings.LastIndex(n.Path, "/"); i >= 0 {
			parent, name = n.Path[:i], n.Path[i+1:]
		}
		rec := 33 + 2*len([]rune(name))
		if rec%2 == 1 {
			rec++
		}
		bytesIn[parent] += rec
		if nameHasNonASCII(name) {
			f.nonASCIIDirs[parent] = true
		}
		if len([]rune(name)) >= 48 {
			f.longNameDirs[parent] = true
		}
	}
	for d, b := range bytesIn {
		if int64(b+68) > 2048*9/10 { // beyond one 2048-byte sector (records do not straddle sectors, so a directory spills a little earlier)
			f.bigJolietDirs[d] = true
		}
	}
	return f
}

// c06Cause is the cause predicate of a tree-comparison finding.
func c06Cause(mode string, o ISOOpts, facts c06Facts, detail string) string {
	joliet := mode == "joliet"
	switch {
	case joliet && facts.maxDepth >= 1:
		// the Joliet tree's records for subdirectories point at the primary tree's directory
		// extents; it shows as failing lookups, truncated listings or foreign names
		return "joliet-tree-with-a-subdirectory"
	case o.RockRidge && !o.Deep && facts.maxDepth >= 8:
		return "rockridge-directory-relocated-from-depth-over-8"
	}
	return mode
}

func c06Run(c core.Case, env *core.Env) core.Result {
	var p c06Case
	c.Decode(&p)
	var res core.Result
	r := gen.New(c.Seed)
	t := p.Tree
	if t == nil && strings.HasPrefix(p.Shape, "sector-fit:") {
		var ok bool
		t, ok = c06Steer(p.Opts, strings.TrimPrefix(p.Shape, "sector-fit:"), &res)
		if ok {
			res.Mark("records of a directory add up to exactly one block (" + strings.TrimPrefix(p.Shape, "sector-fit:") + ")")
			res.Count("steer.reached", 1)
		} else {
			res.Count(fmt.Sprintf("steer.not_reached.%s.rr%v.j%v.b%d", strings.TrimPrefix(p.Shape, "sector-fit:"), p.Opts.RockRidge, p.Opts.Joliet, p.Opts.Block), 1)
		}
	}
	if t == nil {
		t = c06Tree(r, p.Shape, p.Opts)
	}
	mode := "plain"
	switch {
	case p.Opts.RockRidge && p.Opts.Joliet:
		mode = "rr+joliet"
	case p.Opts.RockRidge:
		mode = "rockridge"
	case p.Opts.Joliet:
		mode = "joliet"
	}
	replay := core.MkCase("tree-"+core.Hash(p.Opts, p.Start, t), c.Kind, c.Seed, c06Case{Opts: p.Opts, Start: p.Start, Shape: p.Shape, Tree: t})
	fail := func(rule, cause, f string, a ...any) {
		res.FailReplay(fmt.Sprintf("C06/iso9660/%s/%s", rule, cause), fmt.Sprintf(f, a...), map[string]any{"opts": p.Opts, "start": p.Start, "shape": p.Shape, "nodes": len(t)}, replay)
	}
	size := int64(24 << 20)
	// the storage is not blank: every byte holds a non-zero pattern, as a reused image file or a partition that
	// carried something else before; whatever Finalize does not write stays visible
	st := monstore.NewMemFilled(p.Start+size+1<<20, uint64(c.Seed)|1)
	err, pi := guardErr(func() error { return buildISO(st, size, p.Start, p.Opts, t) })
	if pi != nil {
		fail("finalize-panic", pi.Top+":"+pi.Class, "Finalize panicked: %s", pi.Msg)
		return res
	}
	if err != nil {
		// the statement covers option sets and trees that Finalize accepts
		res.Count("finalize.refused."+mode, 1)
		res.Mark("finalize refused: " + firstWords(err.Error(), 5))
		return res
	}
	res.Count("finalize.accepted."+mode, 1)
	want := treeToObs(t)
	blk := p.Opts.Block
	if blk == 0 {
		blk = 2048
	}
	// (a) the library's own reader
	var fs *iso9660.FileSystem
	if pi := core.Guard(func() { fs, err = iso9660.Read(fileNewRO(st), size, p.Start, blk) }); pi != nil {
		fail("read-panic", pi.Top+":"+pi.Class, "iso9660.Read panicked: %s", pi.Msg)
		return res
	}
	if err != nil {
		fail("reopen-error", fmt.Sprintf("%s/block-%d", mode, blk), "iso9660.Read of the finalized image failed: %v", err)
		return res
	}
	budget := len(t)*3 + 50
	var got *obsNode
	var werr error
	if pi := core.Guard(func() { got, werr = walkLib(fs, "", 0, &budget) }); pi != nil {
		fail("walk-panic", pi.Top+":"+pi.Class, "walking the image through the library panicked: %s", pi.Msg)
		return res
	}
	facts := c06TreeFacts(t, blk)
	if werr != nil {
		fail("walk-error", c06Cause(mode, p.Opts, facts, werr.Error()), "walking the image through the library failed: %v", werr)
		return res
	}
	exact := p.Opts.RockRidge || p.Opts.Joliet
	nbad := 0
	matchTrees(want, got, "", exact, func(rule, detail string) {
		nbad++
		if nbad <= 3 {
			if cause := c06Cause(mode, p.Opts, facts, detail); cause != mode {
				// a structural cause predicate holds: one finding per cause, whatever entry shows it first
				fail("library-reader-tree-differs", cause, "%s: %s", rule, detail)
			} else {
				fail("library-reader/"+rule, cause, "%s", detail)
			}
		}
	})
	res.Count("library.trees_compared", 1)
	// (b) the independent reader over the primary volume descriptor
	rd := func(off int64, n int) []byte {
		if off >= size {
			return nil
		}
		if off+int64(n) > size {
			n = int(size - off)
		}
		return st.Peek(p.Start+off, n)
	}
	img := isock.Parse(rd, size)
	for _, pr := range img.Problems {
		switch pr.Rule {
		case "no-pvd", "extent-outside-image":
			fail("independent-reader/"+pr.Rule, mode, "%s", pr.String())
		case "extent-overlap":
			involvesSymlink := false
			if img.Primary != nil {
				parts := strings.Split(pr.Detail, "\"")
				for i := 1; i < len(parts); i += 2 {
					if n := img.Primary.Find(parts[i]); n != nil && n.IsSymlink {
						involvesSymlink = true
					}
				}
			}
			if strings.Contains(pr.Detail, "[joliet]") || strings.Contains(pr.Detail, "primary-vs-joliet") || involvesSymlink {
				res.Count("isock.recorded_not_demanded.extent-overlap(joliet/symlink)", 1)
				continue
			}
			fail("independent-reader/extent-overlap", mode, "%s", pr.String())
		default:
			res.Count("isock.recorded_not_demanded."+pr.Rule, 1)
		}
	}
	if img.Primary != nil {
		iobs := isockToObs(img.Primary, rd)
		// the primary tree carries ISO names (or Rock Ridge names): symlinks are only meaningful with RR
		nb := 0
		matchTrees(want, iobs, "", p.Opts.RockRidge, func(rule, detail string) {
			nb++
			if nb <= 3 {
				fail("independent-reader/"+rule, c06Cause(mode, p.Opts, facts, detail), "%s", detail)
			}
		})
		res.Count("isock.trees_compared", 1)
		res.Count("isock.nodes", int64(len(img.Primary.Nodes)))
	}
	res.Sig(p.Opts, p.Start, core.Hash(t))
	res.Mark("mode " + mode)
	res.Mark("shape " + p.Shape)
	res.Mark(fmt.Sprintf("block %d", blk))
	if p.Start > 0 {
		res.Mark("image inside a partition")
	}
	res.Sample = map[string]any{"opts": p.Opts, "start": p.Start, "shape": p.Shape, "nodes": len(t)}
	return res
}

func init() {
	shapes := []string{"mixed", "flat-many", "collisions", "deep", "sizes", "longnames", "same-names", "many-dirs", "name-lengths"}
	core.Register(&core.Check{
		ID:          "C06",
		Level:       "exploration",
		Rule:        "generated workspace trees (mixed; one directory with 130-330 files; 2-40 names colliding after 8.3 truncation; depth 7-11; the same directory names under sibling parents two and three levels down; 50-160 directories with names of up to 30 characters (path tables of several blocks); sizes 0,1,block-1,block,block+1,...,3 MiB; long and Unicode names incl. Rock Ridge names needing continuation areas; symlinks under Rock Ridge; steered trees in which the records of the root, of a subdirectory or of the Joliet root add up to exactly one logical block - names are grown and shrunk with the raw directory re-read after every build until the sum is exact) x {plain, Rock Ridge, Joliet, both} x block size {2048, 4096, 8192} x DeepDirectories x start {0, 1 MiB}, always on storage pre-filled with a non-zero pattern (a reused image file or partition); every file carries unique content so image files are matched to source files by content; the finalized image is walked through iso9660.Read (structure, byte-identical contents, names exact under RR/Joliet, members of the documented 8.3 rule otherwise) and through the independent reader isock over the primary volume descriptor (same files by content, extents inside the image, no overlaps); a Finalize refusal is an observation; shape name-lengths: one file name of every length 1..250 (Rock Ridge; 1..30 otherwise) with and without extension and directory names of length 4..30 and 110..160, so that every record length, both parities of the identifier and every continuation point of the system use area occur; non-trivial = tree accepted by Finalize; distinct = distinct (options, start, tree)",
		Assumptions: []string{"isock (internal/isock) is an independent ECMA-119/SUSP/RRIP reader calibrated on hand-made images", "isock rules outside the statement (directory length not a block multiple, dot entries, path tables, record order, SUSP details, Joliet tree extents) are recorded, not reported", "symlinks are only put into Rock Ridge trees; Joliet names are BMP and at most 64 units"},
		MinSigs:     map[string]int{"quick": 25, "thorough": 500},
		NeedMarks:   []string{"shape name-lengths", "mode plain", "mode rockridge", "mode joliet", "mode rr+joliet", "image inside a partition", "block 4096", "shape collisions", "shape deep", "shape flat-many", "shape same-names", "shape many-dirs", "records of a directory add up to exactly one block (primary-root)", "records of a directory add up to exactly one block (primary-sub)", "records of a directory add up to exactly one block (joliet-root)"},
		CPUSec:      600,
		Cases: func(seed int64, tier string) []core.Case {
			r := gen.New(seed ^ 0xC06)
			// every shape meets every mode in every pass (the full product, so that no pairing is left out by two
			// cycles falling into step); block size and start offset rotate from pass to pass
			passes := 2
			if tier == "thorough" {
				passes = 48
			}
			var cs []core.Case
			i := 0
			for pass := 0; pass < passes; pass++ {
				for si, shape := range shapes {
					for m := 0; m < 4; m++ {
						o := ISOOpts{RockRidge: m == 1 || m == 3, Joliet: m >= 2, Block: []int64{2048, 4096, 2048, 8192}[(si+m+pass)%4], VolID: "VERIF"}
						if shape == "deep" && !o.RockRidge {
							o.Deep = (pass+m/2)%2 == 1
						}
						cs = append(cs, core.MkCase(fmt.Sprintf("tree-%d", i), "tree", r.Int63(), c06Case{Opts: o, Start: []int64{0, 0, 1 << 20}[(si+2*m+pass)%3], Shape: shape}))
						i++
					}
				}
			}
			// steered trees: the records of one directory add up to exactly one block
			for _, blk := range []int64{2048, 4096} {
				for _, m := range []ISOOpts{{}, {RockRidge: true}, {Joliet: true}, {RockRidge: true, Joliet: true}} {
					for _, tg := range []string{"primary-root", "primary-sub", "joliet-root"} {
						if (tg == "joliet-root") != m.Joliet && tg == "joliet-root" {
							continue
						}
						if tg == "primary-sub" && m.Joliet {
							continue
						}
						if blk == 4096 && tier != "thorough" && tg != "primary-root" {
							continue
						}
						o := m
						o.Block, o.VolID = blk, "VERIF"
						cs = append(cs, core.MkCase(fmt.Sprintf("fit-%s-%d-rr%v-j%v", tg, blk, m.RockRidge, m.Joliet), "tree", r.Int63(), c06Case{Opts: o, Shape: "sector-fit:" + tg}))
					}
				}
			}
			return cs
		},
		Run: c06Run,
	})
}

var _ = bytes.Equal
