package checks

import (
	"bytes"
	"fmt"
	"io"
	iofs "io/fs"
	"os"
	"os/exec"
	"path/filepath"
	"regexp"
	"strconv"
	"strings"
	"time"

	"github.com/diskfs/go-diskfs/filesystem"
	"github.com/diskfs/go-diskfs/filesystem/ext4"
	"github.com/diskfs/go-diskfs/filesystem/iso9660"
	"github.com/diskfs/go-diskfs/filesystem/squashfs"

	"verif/internal/core"
	"verif/internal/fsdrive"
	"verif/internal/gen"
	"verif/internal/monstore"
)

type c19Case struct {
	FS string `json:"fs"` // ext4 fat12 fat16 fat32 squashfs iso-rr
	N  int    `json:"n"`
	// Farm (squashfs): hundreds of symlinks with targets of 40..239 bytes (inodes of every size across the
	// metadata-block boundaries of the inode table) and thousands of files with pairwise different owners and
	// groups (an id table longer than one metadata block)
	Farm bool `json:"farm,omitempty"`
}

type c19Attr struct {
	Path                              string
	Dir                               bool
	Link                              string
	Mode                              uint32 // 12 bits
	UID                               int
	GID                               int
	MTime                             int64
	ATime                             int64
	CTime                             int64
	Hidden, System, ReadOnly, Archive bool
	size                              int
}

var c19IDs = []int{0, 1, 1000, 65534, 65535, 65536, 1 << 31, (1 << 32) - 1}

func c19Times(format string) []int64 {
	switch format {
	case "fat":
		return []int64{315532800, 315532802, 946684800, 1000000000, 1700000001, 2147483647, 2147483648, 4354819198} // 1980-01-01 .. 2107-12-31
	case "squashfs":
		return []int64{0, 1, 86399, 946684800, 2147483647, 2147483648, 4294967295}
	case "iso":
		return []int64{-2208988800 + 86400*366, -1, 0, 946684800, 2147483647, 2147483648, 4102444800, 5000000000}
	}
	// ext4: 1901 .. 2446
	return []int64{-2147483648, -86400, -1, 0, 1, 946684800, 2147483647, 2147483648, 4294967296, 15032385535}
}

func symTargets(r gen.R, maxLen int) []string {
	lens := []int{1, 2, 59, 60, 61, 100, 255, 1000, 4095}
	var out []string
	for _, l := range lens {
		if l > maxLen {
			continue
		}
		b := make([]byte, l)
		for i := range b {
			b[i] = "abcdefghijklmnopqrstuvwxyz0123456789/._-"[(i*11+l*3)%40]
		}
		if r.Chance(0.5) {
			b[0] = '/'
		} else if b[0] == '/' {
			b[0] = 'r'
		}
		for i := 1; i < len(b); i++ { // no empty path components: they would be normalised legitimately
			if b[i] == '/' && b[i-1] == '/' {
				b[i] = 'x'
			}
		}
		if b[len(b)-1] == '/' {
			b[len(b)-1] = 'e'
		}
		out = append(out, string(b))
	}
	return out
}

func fileModeOf(m uint32) os.FileMode { return fsdrive.UnixToFileMode(m) }

func c19Run(c core.Case, env *core.Env) core.Result {
	var p c19Case
	c.Decode(&p)
	var res core.Result
	r := gen.New(c.Seed)
	fail := func(rule, cause, f string, a ...any) {
		res.Fail(fmt.Sprintf("C19/%s/%s/%s", p.FS, rule, cause), fmt.Sprintf(f, a...), p)
	}
	switch p.FS {
	case "ext4":
		c19Ext4(&res, r, p, env, fail)
	case "fat12", "fat16", "fat32":
		c19FAT(&res, r, p, fail)
	case "squashfs", "iso-rr":
		c19Workspace(&res, r, p, env, fail)
	}
	res.Mark("format " + p.FS)
	res.Sample = p
	return res
}

// ---------------- ext4 ----------------

func c19Ext4(res *core.Result, r gen.R, p c19Case, env *core.Env, fail func(rule, cause, f string, a ...any)) {
	img := filepath.Join(env.Scratch, "c19-"+core.Hash(p, r.Int63())+".img")
	size := int64(16 << 20)
	st, err := monstore.NewFile(img, size)
	if err != nil {
		res.Inconclusive = err.Error()
		return
	}
	defer func() { st.Destroy(); os.Remove(img) }()
	fs, err := ext4.Create(fileNewRW(st), size, 0, 512, &ext4.Params{})
	if err != nil {
		res.Inconclusive = "create: " + err.Error()
		return
	}
	times := c19Times("ext4")
	var attrs []*c19Attr
	fs.Mkdir("d")
	attrs = append(attrs, &c19Attr{Path: "d", Dir: true})
	for i := 0; i < p.N; i++ {
		a := &c19Attr{Path: fmt.Sprintf("d/f%03d", i), size: r.Intn(3000)}
		if i%7 == 3 {
			a.Path = fmt.Sprintf("sub%03d", i)
			a.Dir = true
			if err := fs.Mkdir(a.Path); err != nil {
				fail("setup-error", "mkdir", "%v", err)
				return
			}
		} else {
			f, err := fs.OpenFile(a.Path, os.O_CREATE|os.O_RDWR)
			if err != nil {
				fail("setup-error", "create", "%v", err)
				return
			}
			f.Write(gen.PRFBytes(uint64(i), a.size))
			f.Close()
		}
		attrs = append(attrs, a)
	}
	for i, tgt := range symTargets(r, 1023) {
		a := &c19Attr{Path: fmt.Sprintf("link%02d", i), Link: tgt}
		if err := fs.Symlink(tgt, a.Path); err != nil {
			res.Count("symlink.refused", 1)
			continue
		}
		attrs = append(attrs, a)
	}
	// interleave attribute changes with content writes; each change touches ONE attribute of ONE path
	type state struct{ modeSet, ownSet, timeSet, crSet bool }
	// handles opened earlier and kept: a content write through one of them happens after attribute
	// changes made since it was opened
	type held struct {
		path string
		f    filesystem.File
	}
	var olds []held
	defer func() {
		for _, h := range olds {
			h.f.Close()
		}
	}()
	st8 := map[string]*state{}
	for _, a := range attrs {
		st8[a.Path] = &state{}
	}
	steps := p.N * 4
	for s := 0; s < steps; s++ {
		a := attrs[r.Intn(len(attrs))]
		if a.Link != "" {
			continue
		}
		switch r.Intn(4) {
		case 0:
			m := uint32(r.Intn(0o10000))
			if s%5 == 0 {
				m = []uint32{0, 0o7777, 0o4000, 0o2000, 0o1000, 0o4755, 0o1777}[r.Intn(7)]
			}
			if err := fs.Chmod(a.Path, fileModeOf(m)); err != nil {
				fail("attr-call-refused", "chmod", "Chmod(%s,%#o): %v", a.Path, m, err)
				return
			}
			a.Mode, st8[a.Path].modeSet = m, true
			res.Count("calls.chmod", 1)
		case 1:
			u, g := gen.Pick(r, c19IDs), gen.Pick(r, c19IDs)
			if err := fs.Chown(a.Path, u, g); err != nil {
				fail("attr-call-refused", "chown", "Chown(%s,%d,%d): %v", a.Path, u, g, err)
				return
			}
			a.UID, a.GID, st8[a.Path].ownSet = u, g, true
			res.Count("calls.chown", 1)
		case 2:
			ct, at, mt := gen.Pick(r, times), gen.Pick(r, times), gen.Pick(r, times)
			if err := fs.Chtimes(a.Path, time.Unix(ct, 0), time.Unix(at, 0), time.Unix(mt, 0)); err != nil {
				fail("attr-call-refused", "chtimes", "Chtimes(%s): %v", a.Path, err)
				return
			}
			a.CTime, a.ATime, a.MTime, st8[a.Path].timeSet, st8[a.Path].crSet = ct, at, mt, true, true
			res.Count("calls.chtimes", 1)
		case 3:
			// sometimes: open a handle now and keep it; sometimes: write through a handle opened earlier,
			// growing the file or overwriting inside it
			if s%3 == 0 {
				b := attrs[r.Intn(len(attrs))]
				if !b.Dir && b.Link == "" && len(olds) < 12 {
					if f, err := fs.OpenFile(b.Path, os.O_RDWR); err == nil {
						olds = append(olds, held{b.Path, f})
						res.Count("calls.handle_opened_and_kept", 1)
					}
				}
				continue
			}
			if s%3 == 1 && len(olds) > 0 {
				h := olds[r.Intn(len(olds))]
				var werr error
				if r.Intn(2) == 0 {
					_, werr = h.f.Seek(0, io.SeekEnd)
					if werr == nil {
						_, werr = h.f.Write(gen.PRFBytes(uint64(s), 1+r.Intn(5000)))
					}
					res.Count("calls.growing_write_through_older_handle", 1)
				} else {
					_, werr = h.f.Seek(0, io.SeekStart)
					if werr == nil {
						_, werr = h.f.Write([]byte("x"))
					}
					res.Count("calls.overwrite_through_older_handle", 1)
				}
				if werr != nil {
					res.Count("calls.older_handle_write_refused", 1)
				}
				st8[h.path].timeSet = false
				res.Mark("content write through a handle opened before an attribute change")
				continue
			}
			// a content write to another file must not disturb anyone's attributes (its own times excepted)
			b := attrs[r.Intn(len(attrs))]
			if b.Dir || b.Link != "" {
				continue
			}
			f, err := fs.OpenFile(b.Path, os.O_RDWR)
			if err == nil {
				f.Write([]byte("more"))
				f.Close()
				st8[b.Path].timeSet = false
				res.Count("calls.content_write", 1)
			}
		}
	}
	verify := func(x filesystem.FileSystem, route string) bool {
		for _, a := range attrs {
			var fi iofs.FileInfo
			var err error
			if a.Link != "" {
				rl := x.(interface{ ReadLink(string) (string, error) })
				tgt, e := rl.ReadLink(a.Path)
				if e != nil {
					fail("readlink-error", linkLenClass(len(a.Link)), "ReadLink(%s) (%s): %v", a.Path, route, e)
					return false
				}
				if tgt != a.Link {
					fail("link-target", linkLenClass(len(a.Link)), "symlink %s: %d-byte target reads back as %d bytes (%s)", a.Path, len(a.Link), len(tgt), route)
					return false
				}
				res.Count("verified.link_targets", 1)
				continue
			}
			if pi := core.Guard(func() { fi, err = x.Stat(a.Path) }); pi != nil {
				fail("stat-panic", pi.Top, "Stat(%s) panicked: %s", a.Path, pi.Msg)
				return false
			}
			if err != nil {
				fail("stat-error", route, "Stat(%s): %v", a.Path, err)
				return false
			}
			if fi.IsDir() != a.Dir || fi.Mode().IsDir() != a.Dir || fi.Mode()&os.ModeSymlink != 0 {
				fail("kind-confused", route, "%s: created as dir=%v, reported IsDir=%v mode=%v", a.Path, a.Dir, fi.IsDir(), fi.Mode())
				return false
			}
			s := st8[a.Path]
			if s.modeSet && modeBits(fi.Mode()) != a.Mode {
				fail("mode", route+"/"+modeClass(a.Mode), "%s: mode %#o reads back as %#o (%s)", a.Path, a.Mode, modeBits(fi.Mode()), route)
				return false
			}
			if sys, ok := fi.Sys().(*ext4.StatT); ok {
				if s.ownSet && (int64(sys.UID) != int64(a.UID) || int64(sys.GID) != int64(a.GID)) {
					fail("owner", route+"/"+idClass(int64(a.UID), int64(a.GID)), "%s: owner %d:%d reads back as %d:%d (%s)", a.Path, a.UID, a.GID, sys.UID, sys.GID, route)
					return false
				}
				if s.crSet && sys.CreateTime.Unix() != a.CTime {
					fail("creation-time", route+"/"+timeClass(a.CTime), "%s: creation time %d reads back as %d (%s)", a.Path, a.CTime, sys.CreateTime.Unix(), route)
					return false
				}
				if s.timeSet && sys.AccessTime.Unix() != a.ATime {
					fail("atime", route+"/"+timeClass(a.ATime), "%s: atime %d reads back as %d (%s)", a.Path, a.ATime, sys.AccessTime.Unix(), route)
					return false
				}
			}
			if s.timeSet && fi.ModTime().Unix() != a.MTime {
				fail("mtime", route+"/"+timeClass(a.MTime), "%s: mtime %d (%s) reads back as %d (%s) (%s)", a.Path, a.MTime, time.Unix(a.MTime, 0).UTC().Format("2006-01-02"), fi.ModTime().Unix(), fi.ModTime().UTC().Format("2006-01-02"), route)
				return false
			}
			res.Count("verified.paths", 1)
		}
		return true
	}
	if !verify(fs, "live") {
		return
	}
	fs2, err := ext4.Read(fileNewRO(st), size, 0, 512)
	if err != nil {
		fail("reopen-error", "ext4", "%v", err)
		return
	}
	if !verify(fs2, "reopened") {
		return
	}
	// second opinion: debugfs stat
	for i, a := range attrs {
		if i%4 != 0 || a.Link != "" {
			continue
		}
		s := st8[a.Path]
		out, _ := exec.Command("debugfs", "-R", "stat /"+a.Path, img).Output()
		mode, uid, gid, mtime, ok := parseDebugfsStat(string(out))
		if !ok {
			res.Count("debugfs.unparsed", 1)
			continue
		}
		if s.modeSet && mode&0o7777 != a.Mode {
			fail("debugfs-mode", modeClass(a.Mode), "%s: debugfs shows mode %#o, set %#o", a.Path, mode&0o7777, a.Mode)
		}
		if s.ownSet && (uid != int64(a.UID) || gid != int64(a.GID)) {
			fail("debugfs-owner", idClass(int64(a.UID), int64(a.GID)), "%s: debugfs shows owner %d:%d, set %d:%d", a.Path, uid, gid, a.UID, a.GID)
		}
		if s.timeSet && mtime != a.MTime {
			fail("debugfs-mtime", timeClass(a.MTime), "%s: debugfs shows mtime %d, set %d", a.Path, mtime, a.MTime)
		}
		res.Count("debugfs.stats_compared", 1)
	}
	res.Sig("ext4", core.Hash(attrs))
}

var (
	reMode = regexp.MustCompile(`Mode:\s+0?([0-7]+)`)
	reUser = regexp.MustCompile(`User:\s+(\d+)\s+Group:\s+(\d+)`)
	reMT   = regexp.MustCompile(`mtime: 0x([0-9a-f]+):([0-9a-f]+)`)
	reMT2  = regexp.MustCompile(`mtime: 0x([0-9a-f]+) `)
)

func parseDebugfsStat(s string) (mode uint32, uid, gid, mtime int64, ok bool) {
	m := reMode.FindStringSubmatch(s)
	u := reUser.FindStringSubmatch(s)
	if m == nil || u == nil {
		return
	}
	mv, _ := strconv.ParseUint(m[1], 8, 32)
	mode = uint32(mv)
	uid, _ = strconv.ParseInt(u[1], 10, 64)
	gid, _ = strconv.ParseInt(u[2], 10, 64)
	if t := reMT.FindStringSubmatch(s); t != nil {
		lo, _ := strconv.ParseUint(t[1], 16, 64)
		extra, _ := strconv.ParseUint(t[2], 16, 64)
		sec := int64(int32(uint32(lo))) + int64(extra&3)<<32
		mtime = sec
		ok = true
	} else if t := reMT2.FindStringSubmatch(s); t != nil {
		lo, _ := strconv.ParseUint(t[1], 16, 64)
		mtime = int64(int32(uint32(lo)))
		ok = true
	}
	return
}

func linkLenClass(n int) string {
	switch {
	case n < 60:
		return "target<60"
	case n == 60:
		return "target=60"
	case n <= 255:
		return "target-61..255"
	}
	return "target>255"
}

// ---------------- FAT ----------------

func c19FAT(res *core.Result, r gen.R, p c19Case, fail func(rule, cause, f string, a ...any)) {
	v := FatVol{Type: p.FS, Size: map[string]int64{"fat12": 1474560, "fat16": 16 << 20, "fat32": 33 << 20}[p.FS], Sector: 512, Start: 1 << 20}
	st := monstore.NewMem(v.DevSize())
	fs, err := fatCreate(st, v)
	if err != nil {
		res.Inconclusive = err.Error()
		return
	}
	times := c19Times("fat")
	type flagger interface {
		SetHidden(bool) error
		SetSystem(bool) error
		SetReadOnly(bool) error
		IsHidden() bool
		IsSystem() bool
		IsReadOnly() bool
	}
	type archiver interface {
		SetArchiveBit(string, bool) error
		GetArchiveBit(string) (bool, error)
	}
	var attrs []*c19Attr
	timeSet := map[string]bool{}
	flagSet := map[string]bool{}
	fs.Mkdir("DIR")
	for i := 0; i < p.N; i++ {
		a := &c19Attr{Path: fmt.Sprintf("DIR/F%03d.DAT", i)}
		if i%2 == 0 {
			a.Path = fmt.Sprintf("long file name %03d.data", i)
		}
		f, err := fs.OpenFile(a.Path, os.O_CREATE|os.O_RDWR)
		if err != nil {
			fail("setup-error", "create", "%v", err)
			return
		}
		f.Write(gen.PRFBytes(uint64(i), r.Intn(2000)))
		f.Close()
		attrs = append(attrs, a)
	}
	for s := 0; s < p.N*4; s++ {
		a := attrs[r.Intn(len(attrs))]
		switch r.Intn(4) {
		case 0:
			ct, at, mt := gen.Pick(r, times), gen.Pick(r, times), gen.Pick(r, times)
			if err := fs.Chtimes(a.Path, time.Unix(ct, 0).UTC(), time.Unix(at, 0).UTC(), time.Unix(mt, 0).UTC()); err != nil {
				fail("attr-call-refused", "chtimes", "Chtimes(%s): %v", a.Path, err)
				return
			}
			a.CTime, a.ATime, a.MTime = ct, at, mt
			timeSet[a.Path] = true
			res.Count("calls.chtimes", 1)
		case 1:
			f, err := fs.OpenFile(a.Path, os.O_RDWR)
			if err != nil {
				fail("setup-error", "open", "%v", err)
				return
			}
			fl, ok := f.(flagger)
			if !ok {
				f.Close()
				continue
			}
			h, sy, ro := r.Chance(0.5), r.Chance(0.5), r.Chance(0.5)
			var e error
			switch r.Intn(3) {
			case 0:
				e = fl.SetHidden(h)
				a.Hidden = h
			case 1:
				e = fl.SetSystem(sy)
				a.System = sy
			case 2:
				e = fl.SetReadOnly(ro)
				a.ReadOnly = ro
			}
			f.Close()
			if e != nil {
				fail("attr-call-refused", "set-flag", "setting a flag on %s: %v", a.Path, e)
				return
			}
			flagSet[a.Path] = true
			res.Count("calls.set_flag", 1)
		case 2:
			if ar, ok := fs.(archiver); ok {
				on := r.Chance(0.5)
				if err := ar.SetArchiveBit(a.Path, on); err != nil {
					fail("attr-call-refused", "archive", "SetArchiveBit(%s): %v", a.Path, err)
					return
				}
				a.Archive = on
				flagSet[a.Path] = true
				res.Count("calls.set_archive", 1)
			}
		case 3:
			b := attrs[r.Intn(len(attrs))]
			f, err := fs.OpenFile(b.Path, os.O_RDWR|os.O_APPEND)
			if err == nil {
				f.Write([]byte("x"))
				f.Close()
				res.Count("calls.content_write", 1)
			}
		}
	}
	verify := func(x filesystem.FileSystem, route string) bool {
		for _, a := range attrs {
			fi, err := x.Stat(a.Path)
			if err != nil {
				fail("stat-error", route, "Stat(%s): %v", a.Path, err)
				return false
			}
			if fi.IsDir() {
				fail("kind-confused", route, "%s is a file but reported as a directory", a.Path)
				return false
			}
			if timeSet[a.Path] {
				want := a.MTime &^ 1 // 2-second resolution
				if fi.ModTime().Unix() != want {
					fail("mtime", route+"/"+fatTimeClass(a.MTime), "%s: mtime %d (%s) reads back as %d (%s) (%s)", a.Path, a.MTime, time.Unix(a.MTime, 0).UTC().Format(time.RFC3339), fi.ModTime().Unix(), fi.ModTime().UTC().Format(time.RFC3339), route)
					return false
				}
			}
			f, err := x.OpenFile(a.Path, os.O_RDONLY)
			if err != nil {
				fail("open-error", route, "%v", err)
				return false
			}
			if fl, ok := f.(flagger); ok && flagSet[a.Path] {
				if fl.IsHidden() != a.Hidden || fl.IsSystem() != a.System || fl.IsReadOnly() != a.ReadOnly {
					fail("flags", route, "%s: hidden/system/readonly set %v/%v/%v, read back %v/%v/%v (%s)", a.Path, a.Hidden, a.System, a.ReadOnly, fl.IsHidden(), fl.IsSystem(), fl.IsReadOnly(), route)
					f.Close()
					return false
				}
			}
			f.Close()
			if ar, ok := x.(archiver); ok && flagSet[a.Path] {
				got, err := ar.GetArchiveBit(a.Path)
				if err == nil && got != a.Archive {
					fail("archive-bit", route, "%s: archive bit set %v, read back %v (%s)", a.Path, a.Archive, got, route)
					return false
				}
			}
			res.Count("verified.paths", 1)
		}
		return true
	}
	if !verify(fs, "live") {
		return
	}
	fs2, err := fatRead(st, v, true)
	if err != nil {
		fail("reopen-error", p.FS, "%v", err)
		return
	}
	verify(fs2, "reopened")
	res.Sig(p.FS, core.Hash(attrs))
}

func fatTimeClass(t int64) string {
	switch {
	case t&1 == 1:
		return "odd-second"
	case t >= 4354732800:
		return "year-2107"
	case t < 315619200:
		return "1980-01-01"
	}
	return "even-second"
}

// ---------------- squashfs / ISO Rock Ridge: attributes come from the workspace files ----------------

func c19Workspace(res *core.Result, r gen.R, p c19Case, env *core.Env, fail func(rule, cause, f string, a ...any)) {
	format := "squashfs"
	if p.FS == "iso-rr" {
		format = "iso"
	}
	times := c19Times(format)
	var t Tree
	t = append(t, TNode{Path: "dir", Dir: true, Mode: 0o1777, UID: 7, GID: 8, MTime: gen.Pick(r, times)})
	for i := 0; i < p.N; i++ {
		m := uint32(r.Intn(0o10000))
		if i < 8 {
			m = []uint32{0o4751, 0o2755, 0o1777, 0o7777, 0o644, 0o4000, 0o2000, 0o1000}[i]
		}
		if m == 0 {
			m = 0o600
		}
		// (uid_t)-1 means "leave unchanged" to chown(2): the largest id a workspace file can carry is 2^32-2
		wsIDs := []int{0, 1, 1000, 65534, 65535, 65536, 1 << 31, (1 << 32) - 2}
		n := TNode{Path: fmt.Sprintf("dir/f%03d", i), Size: r.Intn(5000), Seed: uint64(i + 1), Mode: m, UID: gen.Pick(r, wsIDs), GID: gen.Pick(r, wsIDs), MTime: gen.Pick(r, times)}
		if i%9 == 4 {
			n.Dir = true
			n.Size = 0
			n.Path = fmt.Sprintf("sub%03d", i)
		}
		t = append(t, n)
	}
	for i, tgt := range symTargets(r, 4095) {
		t = append(t, TNode{Path: fmt.Sprintf("link%02d", i), Link: tgt})
	}
	if p.Farm && format == "iso" {
		// entries whose Rock Ridge fields need no, one or several continuation areas, next to each other in one
		// directory: long names (the name alone leaves the record), long targets, both
		t = append(t, TNode{Path: "ce", Dir: true})
		tl := []int{30, 150, 700, 1800, 1950, 2100, 3000, 4000}
		for i := 0; i < 24; i++ {
			l := tl[(i*5+r.Intn(2))%len(tl)]
			var sb strings.Builder
			for sb.Len() < l {
				fmt.Fprintf(&sb, "c%02d%s/", i, strings.Repeat(string(rune('a'+(i+sb.Len())%26)), 10+r.Intn(60)))
			}
			tgt := strings.TrimSuffix(sb.String()[:l], "/") + "e"
			tgt = strings.ReplaceAll(tgt, "//", "/x")
			name := fmt.Sprintf("ce/k%02d", i)
			if i%3 != 2 {
				name += "_" + strings.Repeat(string(rune('A'+i%26)), 120+r.Intn(100))
			}
			if i%5 == 3 {
				t = append(t, TNode{Path: name, Size: 100 + i, Seed: uint64(9000 + i), Mode: 0o640, UID: 5 + i, GID: 6 + i, MTime: times[i%len(times)]})
			} else {
				t = append(t, TNode{Path: name, Link: tgt})
			}
		}
		res.Mark("iso directory of entries with no, one and several continuation areas")
	}
	if p.Farm && format == "squashfs" {
		t = append(t, TNode{Path: "links", Dir: true}, TNode{Path: "owners", Dir: true})
		for i := 0; i < 400; i++ {
			l := 40 + r.Intn(200)
			tgt := strings.Repeat("p/", l/2)[:l-4] + fmt.Sprintf("%04d", i)
			if i%2 == 0 {
				tgt = "/" + tgt[1:]
			}
			t = append(t, TNode{Path: fmt.Sprintf("links/l%04d", i), Link: tgt})
		}
		for i := 0; i < 1300; i++ {
			t = append(t, TNode{Path: fmt.Sprintf("owners/o%04d", i), Size: 0, Mode: 0o640, UID: 70000 + 3*i, GID: 200000 + 7*i, MTime: times[i%len(times)]})
		}
		res.Mark("squashfs symlink and owner farm")
	}
	os.Chdir(env.Scratch)
	st := monstore.NewMem(64 << 20)
	var err error
	var pi *core.PanicInfo
	if format == "squashfs" {
		err, pi = guardErr(func() error { return buildSquash(st, 48<<20, 0, SqOpts{Comp: "gzip"}, t) })
	} else {
		err, pi = guardErr(func() error { return buildISO(st, 48<<20, 0, ISOOpts{RockRidge: true}, t) })
	}
	if pi != nil {
		fail("finalize-panic", pi.Top+":"+pi.Class, "Finalize panicked: %s", pi.Msg)
		return
	}
	if err != nil {
		fail("finalize-error", firstWords(err.Error(), 5), "Finalize failed: %v", err)
		return
	}
	var x filesystem.FileSystem
	if format == "squashfs" {
		x, err = squashfs.Read(fileNewRO(st), 48<<20, 0, 4096)
	} else {
		x, err = iso9660.Read(fileNewRO(st), 48<<20, 0, 2048)
	}
	if err != nil {
		fail("reopen-error", format, "%v", err)
		return
	}
	for _, n := range t {
		var fi iofs.FileInfo
		var serr error
		if pi := core.Guard(func() { fi, serr = x.Stat(n.Path) }); pi != nil {
			fail("stat-panic", pi.Top+":"+pi.Class, "Stat(%s) panicked: %s", n.Path, pi.Msg)
			return
		}
		if serr != nil {
			fail("stat-error", kindOf(n), "Stat(%s): %v", n.Path, serr)
			return
		}
		gotLink := fi.Mode()&os.ModeSymlink != 0
		if fi.IsDir() != n.Dir || gotLink != (n.Link != "") {
			fail("kind-confused", kindOf(n), "%s: source is %s, reported mode %v", n.Path, kindOf(n), fi.Mode())
			return
		}
		if n.Link != "" {
			tgt := ""
			switch e := fi.(type) {
			case interface{ Readlink() (string, error) }:
				tgt, _ = e.Readlink()
			case interface{ ReadLink() (string, bool) }:
				tgt, _ = e.ReadLink()
			}
			if tgt != n.Link {
				fail("link-target", linkLenClass(len(n.Link)), "symlink %s: %d-byte target %q reads back as %d bytes %q", n.Path, len(n.Link), trunc60(n.Link), len(tgt), trunc60(tgt))
				return
			}
			res.Count("verified.link_targets", 1)
			continue
		}
		if n.Mode != 0 && modeBits(fi.Mode()) != n.Mode {
			fail("mode", modeClass(n.Mode), "%s: workspace mode %#o is reported as %#o", n.Path, n.Mode, modeBits(fi.Mode()))
			return
		}
		var uid, gid int64 = -1, -1
		switch s := fi.Sys().(type) {
		case *squashfs.StatT:
			uid, gid = int64(s.UID), int64(s.GID)
		case *iso9660.StatT:
			uid, gid = int64(s.UID), int64(s.GID)
		}
		if uid >= 0 && (uid != int64(n.UID) || gid != int64(n.GID)) {
			fail("owner", idClass(int64(n.UID), int64(n.GID)), "%s: owner %d:%d is reported as %d:%d", n.Path, n.UID, n.GID, uid, gid)
			return
		}
		if n.MTime != 0 && fi.ModTime().Unix() != n.MTime {
			fail("mtime", timeClass(n.MTime), "%s: workspace mtime %d (%s) is reported as %d (%s)", n.Path, n.MTime, time.Unix(n.MTime, 0).UTC().Format("2006-01-02"), fi.ModTime().Unix(), fi.ModTime().UTC().Format("2006-01-02"))
			return
		}
		res.Count("verified.paths", 1)
	}
	res.Sig(p.FS, core.Hash(t))
}

func kindOf(n TNode) string {
	switch {
	case n.Dir:
		return "directory"
	case n.Link != "":
		return "symlink"
	}
	return "regular-file"
}

func trunc60(s string) string {
	if len(s) > 60 {
		return s[:60] + "..."
	}
	return s
}

var _ = bytes.Equal
var _ = strings.TrimSpace

func init() {
	core.Register(&core.Check{
		ID:          "C19",
		Level:       "exploration",
		Rule:        "ext4: files, directories and symlinks (targets 1,2,59,60,61,100,255,1000 bytes, relative and absolute) receive seeded sequences of Chmod (all 12 bits incl. setuid/setgid/sticky), Chown (ids 0..2^32-1), Chtimes (creation, access and modification time, 1901..2446) interleaved with content writes through fresh handles and through handles that were opened before later attribute changes (growing the file and overwriting inside it); every path is re-verified live, after ext4.Read of the image, and against `debugfs stat` as a second opinion. FAT12/16/32: Chtimes (1980..2107, odd seconds) and SetHidden/SetSystem/SetReadOnly/SetArchiveBit interleaved with content writes, verified live and after re-open. squashfs also with a farm of 400 symlinks (targets 40..239 bytes) and 1300 files with pairwise different owners and groups (inode and id tables spanning several metadata blocks); squashfs and Rock Ridge ISO: workspace files with modes over all 12 bits, owners over the 16/32-bit range, mtimes across each format's range and symlink targets up to 4095 bytes are finalized (ISO also with a directory of 24 links and files whose names of up to 220 bytes and targets of 30..4000 bytes need no, one or several continuation areas, side by side) and every path is verified through Stat/Sys/Readlink on the re-opened image: attributes unchanged, changing one attribute changes nothing else, kinds never confused. Non-trivial = a case whose attributes were verified; distinct = distinct attribute assignment",
		Assumptions: []string{"times are compared at each format's resolution (FAT 2 s)", "the sandbox runs as root, so arbitrary owners can be put on workspace files"},
		MinSigs:     map[string]int{"quick": 12, "thorough": 300},
		NeedMarks:   []string{"format ext4", "content write through a handle opened before an attribute change", "squashfs symlink and owner farm", "format fat12", "format fat32", "format squashfs", "format iso-rr", "iso directory of entries with no, one and several continuation areas"},
		CPUSec:      600,
		Cases: func(seed int64, tier string) []core.Case {
			r := gen.New(seed ^ 0xC19)
			reps, n := 3, 40
			if tier == "thorough" {
				reps, n = 60, 120
			}
			var cs []core.Case
			for rep := 0; rep < reps; rep++ {
				for _, f := range []string{"ext4", "fat12", "fat16", "fat32", "squashfs", "iso-rr"} {
					cs = append(cs, core.MkCase(fmt.Sprintf("%s-%d", f, rep), "attrs-"+f, r.Int63(), c19Case{FS: f, N: n}))
				}
				if rep == 0 || rep%20 == 19 {
					cs = append(cs, core.MkCase(fmt.Sprintf("squashfs-farm-%d", rep), "attrs-squashfs", r.Int63(), c19Case{FS: "squashfs", N: 10, Farm: true}))
					cs = append(cs, core.MkCase(fmt.Sprintf("iso-ce-farm-%d", rep), "attrs-iso-rr", r.Int63(), c19Case{FS: "iso-rr", N: 6, Farm: true}))
				}
			}
			return cs
		},
		Run: c19Run,
	})
}
