package checks

import (
	"bytes"
	"fmt"
	"io"
	"log"

	"github.com/diskfs/go-diskfs/backend/file"
	"github.com/diskfs/go-diskfs/disk"
	"github.com/diskfs/go-diskfs/partition/gpt"
	"github.com/diskfs/go-diskfs/partition/mbr"
	fsync "github.com/diskfs/go-diskfs/sync"

	"verif/internal/core"
	"verif/internal/gen"
	"verif/internal/monstore"
)

type c13Geom struct {
	Kind    string `json:"kind"`
	LSS     int    `json:"lss"`
	PSS     int    `json:"pss"`
	DevSize int64  `json:"dev_size"`
	Start   uint64 `json:"start"`   // sectors
	Sectors uint64 `json:"sectors"` // sectors
	Start2  uint64 `json:"start2,omitempty"`
	Sect2   uint64 `json:"sectors2,omitempty"`
	Op      string `json:"op"`               // write | read | copy
	RLen    int64  `json:"rlen"`             // bytes the reader supplies (write)
	Chunk   string `json:"chunk,omitempty"`  // odd | eofwith | one | full
	Class   string `json:"class"`
	Idx     int    `json:"idx,omitempty"`  // GPT entry number of the partition under test (0 = 1)
	Idx2    int    `json:"idx2,omitempty"` // GPT entry number of the second partition (0 = 2)
	Rev     bool   `json:"rev,omitempty"`  // the second partition comes first in the table value's slice
}

func (g c13Geom) idx() int {
	if g.Idx > 0 && g.Kind == "gpt" {
		return g.Idx
	}
	return 1
}

func (g c13Geom) idx2() int {
	if g.Idx2 > 0 && g.Kind == "gpt" {
		return g.Idx2
	}
	return 2
}

// prfStream is an io.Reader delivering PRF bytes in configurable pieces.
type prfStream struct {
	zeros   bool // the payload has 8 KiB runs of zero bytes at every 16 KiB (whole sectors of zeroes, as any filesystem image has)
	seed    uint64
	total   int64
	pos     int64
	mode    string
	step    int
	buf     []byte
	bufBase int64
}

var oddSizes = []int{1, 7, 513, 4095, 3, 511, 512, 1000, 2, 4096, 129}

func prfAt(seed uint64, pos int64, n int) []byte {
	// 8-byte aligned PRF stream
	base := pos &^ 7
	raw := make([]byte, int(pos-base)+n+8)
	for i := 0; i < len(raw); i += 8 {
		x := seed ^ uint64(base+int64(i))*0x9E3779B97F4A7C15
		x = (x ^ (x >> 30)) * 0xBF58476D1CE4E5B9
		x = (x ^ (x >> 27)) * 0x94D049BB133111EB
		x ^= x >> 31
		for j := 0; j < 8 && i+j < len(raw); j++ {
			raw[i+j] = byte(x>>(8*uint(j))) | 1
		}
	}
	return raw[pos-base : int(pos-base)+n]
}

// payloadAt: the supplied bytes; with zeros, [k*16384, k*16384+8192) is zero for every k.
func payloadAt(seed uint64, pos int64, n int, zeros bool) []byte {
	b := prfAt(seed, pos, n)
	if zeros {
		for i := range b {
			if (pos+int64(i))%16384 < 8192 {
				b[i] = 0
			}
		}
	}
	return b
}

func (p *prfStream) Read(b []byte) (int, error) {
	if p.pos >= p.total {
		return 0, io.EOF
	}
	n := len(b)
	switch p.mode {
	case "odd", "eofwith":
		k := oddSizes[p.step%len(oddSizes)]
		p.step++
		if k < n {
			n = k
		}
	case "one":
		n = 1
	case "half":
		n = (n + 1) / 2
	}
	if int64(n) > p.total-p.pos {
		n = int(p.total - p.pos)
	}
	copy(b, payloadAt(p.seed, p.pos, n, p.zeros))
	p.pos += int64(n)
	if p.mode == "eofwith" && p.pos >= p.total {
		return n, io.EOF
	}
	return n, nil
}

// cmpWriter compares what it is given with the device bytes expected at that stream position.
type cmpWriter struct {
	st      *monstore.Store
	base    int64
	n       int64
	bad     int64
	firstBad int64
}

func (w *cmpWriter) Write(b []byte) (int, error) {
	exp := w.st.Peek(w.base+w.n, len(b))
	if !bytes.Equal(exp, b) {
		if w.bad == 0 {
			w.firstBad = w.n
			for i := range b {
				if i >= len(exp) || exp[i] != b[i] {
					w.firstBad = w.n + int64(i)
					break
				}
			}
		}
		w.bad++
	}
	w.n += int64(len(b))
	return len(b), nil
}

func c13Cases(seed int64, tier string) []core.Case {
	r := gen.New(seed)
	var cs []core.Case
	add := func(g c13Geom) {
		// GPT entries need not be numbered 1..n nor listed in order: the partition under test sits in entry
		// 1, 3, 7 or 128 (entries below it unused), the second one before or behind it
		if g.Kind == "gpt" {
			switch len(cs) % 4 {
			case 1:
				g.Idx, g.Idx2 = 3, 9
			case 2:
				g.Idx, g.Idx2, g.Rev = 7, 2, true
			case 3:
				g.Idx, g.Idx2 = 128, 5
			}
		}
		cs = append(cs, core.MkCase(fmt.Sprintf("%s-%d", g.Op, len(cs)), "stream-"+g.Kind, r.Int63(), g))
	}
	n := 12
	if tier == "thorough" {
		n = 300
	}
	for i := 0; i < n; i++ {
		for _, kind := range []string{"gpt", "mbr"} {
			lss := gen.Pick(r, []int{512, 512, 4096})
			pss := lss
			if r.Chance(0.5) {
				pss = gen.Pick(r, []int{512, 4096})
				if kind == "mbr" && pss < lss {
					pss = lss
				}
			}
			g := c13Geom{Kind: kind, LSS: lss, PSS: pss, DevSize: 1 << 40}
			four := uint64(1<<32) / uint64(lss)
			switch i % 6 {
			case 0:
				g.Class = "low"
				g.Start = uint64(r.Range(40, 5000))
			case 1:
				g.Class = "start>=4GiB"
				g.Start = four + uint64(r.Range(0, 100000))
			case 2:
				g.Class = "straddles-4GiB"
				g.Start = four - uint64(r.Range(1, 8))
			case 3:
				g.Class = "start>=4GiB"
				g.Start = four*uint64(r.Range(2, 50)) + uint64(r.Range(0, 7))
			case 4:
				g.Class = "just-below-4GiB"
				g.Start = four - uint64(r.Range(20, 4000))
			case 5:
				g.Class = "low"
				g.Start = 34 + uint64(r.Range(6, 60))
			}
			if kind == "mbr" && g.Start > 0xFFFFFFFF {
				g.Start = 0xFFFFFFFF - uint64(r.Range(100, 5000))
			}
			g.Sectors = uint64(gen.Pick(r, []int{1, 2, 3, 7, 8, 9, 15, 16, 17, 64, 100, 257}))
			if g.Class == "straddles-4GiB" {
				g.Sectors = 16 + uint64(r.Range(0, 5))
			}
			size := int64(g.Sectors) * int64(lss)
			// write with each reader-length class
			for _, rl := range []int64{size, size - 1, size + 1, 0, 2 * size, size - int64(lss), size + int64(pss)} {
				if rl < 0 {
					continue
				}
				gw := g
				gw.Op, gw.RLen, gw.Chunk = "write", rl, gen.Pick(r, []string{"odd", "eofwith", "one", "full"})
				if gw.Chunk == "one" && rl > 8192 {
					gw.Chunk = "odd"
				}
				add(gw)
			}
			gr := g
			gr.Op = "read"
			add(gr)
			gc := g
			gc.Op = "copy"
			gc.Start2 = g.Start + g.Sectors + uint64(r.Range(0, 300))
			gc.Sect2 = g.Sectors
			if r.Chance(0.5) {
				gc.Sect2 += uint64(r.Range(1, 40))
			}
			if r.Chance(0.3) { // target above 4 GiB
				gc.Start2 = four*3 + uint64(r.Range(0, 1000))
			}
			if kind == "mbr" && gc.Start2+gc.Sect2 > 0xFFFFFFFF {
				gc.Start2 = g.Start - 2*gc.Sect2 - 5
			}
			add(gc)
		}
	}
	// partitions whose byte size is >= 2^32: wrapped-size detection is cheap (the wrong code stops
	// early); the full stream is driven once per kind (4096-byte physical sectors keep it short).
	big := 1
	if tier == "thorough" {
		big = 2
	}
	for i := 0; i < big; i++ {
		for _, kind := range []string{"gpt", "mbr"} {
			lss := 512
			sectors := uint64(1<<32)/uint64(lss) + uint64(r.Range(1, 3))
			g := c13Geom{Kind: kind, LSS: lss, PSS: 4096, DevSize: 1 << 40, Start: 2048, Sectors: sectors, Class: "size>=4GiB"}
			size := int64(sectors) * int64(lss)
			gw := g
			gw.Op, gw.RLen, gw.Chunk = "write", size%(1<<32), "full"
			add(gw)
			gr := g
			gr.Op = "read"
			c := core.MkCase(fmt.Sprintf("read-big-%s-%d", kind, i), "stream-"+kind, r.Int63(), gr)
			c.CPUSec = 600
			cs = append(cs, c)
			if tier == "thorough" {
				gw2 := g
				gw2.Op, gw2.RLen, gw2.Chunk = "write", size, "full"
				c := core.MkCase(fmt.Sprintf("write-big-%s-%d", kind, i), "stream-"+kind, r.Int63(), gw2)
				c.CPUSec = 900
				cs = append(cs, c)
			}
		}
	}
	return cs
}

func c13Disk(st *monstore.Store, g c13Geom) (*disk.Disk, error) {
	w, _ := file.New(st, false).Writable()
	if g.Kind == "gpt" {
		t := &gpt.Table{LogicalSectorSize: g.LSS, PhysicalSectorSize: g.PSS, ProtectiveMBR: true}
		t.Partitions = append(t.Partitions, &gpt.Partition{Index: g.idx(), Start: g.Start, End: g.Start + g.Sectors - 1, Type: gpt.LinuxFilesystem})
		if g.Sect2 > 0 {
			t.Partitions = append(t.Partitions, &gpt.Partition{Index: g.idx2(), Start: g.Start2, End: g.Start2 + g.Sect2 - 1, Type: gpt.LinuxFilesystem})
		}
		if g.Rev && len(t.Partitions) == 2 {
			t.Partitions[0], t.Partitions[1] = t.Partitions[1], t.Partitions[0]
		}
		if err := t.Write(w, g.DevSize); err != nil {
			return nil, err
		}
	} else {
		t := &mbr.Table{LogicalSectorSize: g.LSS, PhysicalSectorSize: g.PSS}
		t.Partitions = append(t.Partitions, &mbr.Partition{Index: 1, Type: mbr.Linux, Start: uint32(g.Start), Size: uint32(g.Sectors)})
		if g.Sect2 > 0 {
			t.Partitions = append(t.Partitions, &mbr.Partition{Index: 2, Type: mbr.Linux, Start: uint32(g.Start2), Size: uint32(g.Sect2)})
		}
		if err := t.Write(w, g.DevSize); err != nil {
			return nil, err
		}
	}
	d := &disk.Disk{Backend: file.New(st, false), Size: g.DevSize, LogicalBlocksize: int64(g.LSS), PhysicalBlocksize: int64(g.PSS)}
	if _, err := d.GetPartitionTable(); err != nil {
		return nil, err
	}
	return d, nil
}

func wrapCause(want, got int64) string {
	if want != got && (want-got)%(1<<32) == 0 {
		return "wrapped-mod-2^32"
	}
	return "other"
}

func c13Run(c core.Case, env *core.Env) core.Result {
	var g c13Geom
	c.Decode(&g)
	var res core.Result
	log.SetOutput(io.Discard)
	st := monstore.NewMemFilled(g.DevSize, uint64(c.Seed)|1)
	d, err := c13Disk(st, g)
	if err != nil {
		res.Inconclusive = "could not set up the partitioned disk: " + err.Error()
		return res
	}
	pStart := int64(g.Start) * int64(g.LSS)
	pSize := int64(g.Sectors) * int64(g.LSS)
	fail := func(rule, cause, f string, a ...any) {
		res.Fail(fmt.Sprintf("C13/%s/%s/%s", g.Kind, rule, cause), fmt.Sprintf(f, a...), g)
	}
	sizeClass := "size<4GiB"
	if pSize >= 1<<32 {
		sizeClass = "size>=4GiB"
	}
	physClass := "size-multiple-of-physical-sector"
	if pSize%int64(g.PSS) != 0 {
		physClass = "size-not-multiple-of-physical-sector"
	}
	res.Mark(g.Class)
	if g.Kind == "gpt" && g.idx() != 1 {
		res.Mark("partition under test in a GPT entry other than the first, entries below it unused")
	}
	res.Mark(fmt.Sprintf("%s lss=%d pss=%d", g.Kind, g.LSS, g.PSS))
	res.Mark("op " + g.Op)
	switch g.Op {
	case "write":
		st.ResetCounters()
		st.SetAllowed(monstore.Range{Off: pStart, End: pStart + pSize})
		st.SetLog(true)
		rd := &prfStream{seed: uint64(c.Seed) * 77, total: g.RLen, mode: g.Chunk, zeros: c.Seed%2 == 0}
		if rd.zeros {
			res.Mark("payload with whole sectors of zeroes onto a partition holding other data")
		}
		var n int64
		var werr error
		if pi := core.Guard(func() { n, werr = d.WritePartitionContents(g.idx(), rd) }); pi != nil {
			fail("write-panic", pi.Top+":"+pi.Class, "WritePartitionContents panicked: %s", pi.Msg)
			return res
		}
		res.Count("write.calls", 1)
		res.Count("store.write_events", st.WriteCalls.Load())
		// every write must lie in the partition
		if len(st.OORs) > 0 {
			o := st.OORs[0]
			cause := "other"
			if st.MinW >= 0 {
				cause = wrapCause(pStart, st.MinW)
			}
			if o.Off >= pStart+pSize || o.Off+o.Len > pStart+pSize {
				if cause == "other" {
					cause = "past-partition-end"
				}
			}
			fail("write-outside-partition", cause, "write of %d bytes at device offset %d changed bytes outside the partition [%d,%d) (reader supplied %d bytes); stack: %s", o.Len, o.Off, pStart, pStart+pSize, g.RLen, o.Stack)
		}
		switch {
		case g.RLen == pSize:
			res.Mark("reader == size")
			if werr != nil {
				fail("write-exact-refused", sizeClass, "reader supplied exactly %d bytes but WritePartitionContents failed: %v", pSize, werr)
				break
			}
			if n != pSize {
				fail("write-count", sizeClass, "wrote %d, partition is %d", n, pSize)
			}
			// content check
			bad := int64(-1)
			for off := int64(0); off < pSize; off += 1 << 20 {
				k := int64(1 << 20)
				if pSize-off < k {
					k = pSize - off
				}
				if !bytes.Equal(st.Peek(pStart+off, int(k)), payloadAt(rd.seed, off, int(k), rd.zeros)) {
					bad = off
					break
				}
			}
			if bad >= 0 {
				cause := "other"
				if st.MinW >= 0 {
					cause = wrapCause(pStart, st.MinW)
				}
				fail("write-content", cause, "partition bytes differ from the reader's bytes from offset ~%d; first device write at %d, partition starts at %d", bad, st.MinW, pStart)
			}
			res.Sig("write", g.Kind, g.LSS, g.PSS, g.Class, g.Sectors, g.Chunk)
		case g.RLen < pSize:
			res.Mark("reader < size")
			if werr == nil {
				fail("write-short-accepted", wrapCause(pSize, g.RLen)+"/"+sizeClass, "reader supplied %d bytes for a partition of %d bytes and WritePartitionContents reported success", g.RLen, pSize)
			}
			res.Sig("write-short", g.Kind, g.LSS, g.PSS, g.Class, g.Sectors, g.RLen, g.Chunk)
		default:
			res.Mark("reader > size")
			if werr == nil {
				fail("write-long-accepted", sizeClass, "reader supplied %d bytes for a partition of %d bytes and WritePartitionContents reported success", g.RLen, pSize)
			}
			res.Sig("write-long", g.Kind, g.LSS, g.PSS, g.Class, g.Sectors, g.RLen, g.Chunk)
		}
	case "read":
		st.ResetCounters()
		w := &cmpWriter{st: st, base: pStart}
		var n int64
		var rerr error
		if pi := core.Guard(func() { n, rerr = d.ReadPartitionContents(g.idx(), w) }); pi != nil {
			fail("read-panic", pi.Top+":"+pi.Class, "ReadPartitionContents panicked: %s", pi.Msg)
			return res
		}
		res.Count("read.calls", 1)
		res.Count("store.read_events", st.ReadCalls.Load())
		if rerr != nil {
			fail("read-error", sizeClass, "ReadPartitionContents failed: %v", rerr)
			break
		}
		if w.n != pSize || n != pSize {
			cause := physClass
			if wrapCause(pSize, w.n) != "other" {
				cause = "wrapped-mod-2^32"
			}
			fail("read-length", cause, "partition is %d bytes, ReadPartitionContents delivered %d bytes and returned %d (logical %d, physical %d)", pSize, w.n, n, g.LSS, g.PSS)
		}
		if w.bad > 0 {
			first := st.Log
			_ = first
			fail("read-content", wrapCause(pStart, pStart-w.firstBad)+"/"+g.Class, "bytes delivered differ from the partition's bytes from stream offset %d", w.firstBad)
		}
		res.Sig("read", g.Kind, g.LSS, g.PSS, g.Class, g.Sectors)
	case "copy":
		tStart := int64(g.Start2) * int64(g.LSS)
		tSize := int64(g.Sect2) * int64(g.LSS)
		if c.Seed%2 == 0 && pSize <= 64<<20 {
			// the source holds whole sectors of zeroes (as any filesystem image does); the target holds other data
			for off := int64(0); off < pSize; off += 1 << 20 {
				k := min(int64(1<<20), pSize-off)
				st.Poke(payloadAt(uint64(c.Seed)*131, off, int(k), true), pStart+off)
			}
			res.Mark("copy of a partition with whole sectors of zeroes onto a partition holding other data")
		}
		st.SetAllowed(monstore.Range{Off: tStart, End: tStart + tSize})
		var cerr error
		if pi := core.Guard(func() { cerr = fsync.CopyPartitionRaw(d, g.idx(), g.idx2()) }); pi != nil {
			fail("copy-panic", pi.Top+":"+pi.Class, "CopyPartitionRaw panicked: %s", pi.Msg)
			return res
		}
		res.Count("copy.calls", 1)
		if len(st.OORs) > 0 {
			o := st.OORs[0]
			fail("copy-outside-target", wrapCause(tStart, st.MinW), "copy wrote %d bytes at %d outside the target partition [%d,%d)", o.Len, o.Off, tStart, tStart+tSize)
		}
		if cerr != nil {
			fail("copy-error", g.Class, "CopyPartitionRaw(1,2) with target >= source failed: %v", cerr)
			break
		}
		if !bytes.Equal(st.Peek(pStart, int(pSize)), st.Peek(tStart, int(pSize))) {
			fail("copy-content", g.Class, "target's leading %d bytes differ from the source partition", pSize)
		}
		res.Sig("copy", g.Kind, g.LSS, g.PSS, g.Class, g.Sectors, g.Sect2)
	}
	res.Sample = g
	return res
}

func init() {
	core.Register(&core.Check{
		ID:    "C13",
		Level: "exploration",
		Rule: "partition geometries (start below/straddling/above 4 GiB, byte size below and above 2^32, sizes that are and are not multiples of the physical sector) x GPT/MBR x logical 512/4096 x physical 512/4096 x reader lengths {size, size-1, size+1, 0, 2*size, size-sector, size+sector} x readers delivering odd-sized pieces or data together with io.EOF x payloads that are all non-zero or carry 8 KiB runs of zero bytes (every second case; the device always holds other, non-zero data beforehand); each case runs the real WritePartitionContents/ReadPartitionContents/CopyPartitionRaw on a PRF-filled sparse store with a range guard on the partition; a case is non-trivial when the call ran to a verdict; distinct = distinct (op, geometry class, sizes, chunking); on GPT the partition under test sits in entry 1, 3, 7 or 128 with the entries below it unused and the second partition in an entry before or behind it, listed in either order in the table value",
		Assumptions: []string{"the store is a sparse 1 TiB device whose unwritten bytes are a PRF of the offset, so misplaced reads and writes are visible", "CopyPartitionRaw is driven only with a target at least as large as the source"},
		MinSigs:   map[string]int{"quick": 100, "thorough": 2000},
		NeedMarks: []string{"partition under test in a GPT entry other than the first, entries below it unused", "start>=4GiB", "straddles-4GiB", "size>=4GiB", "reader == size", "reader < size", "reader > size", "op read", "op copy", "payload with whole sectors of zeroes onto a partition holding other data", "copy of a partition with whole sectors of zeroes onto a partition holding other data"},
		CPUSec:    300,
		Cases:     c13Cases,
		Run:       c13Run,
	})
}
