package checks

import (
	"fmt"
	"os"

	diskfs "github.com/diskfs/go-diskfs"
	"github.com/diskfs/go-diskfs/backend/file"
	"github.com/diskfs/go-diskfs/disk"
	"github.com/diskfs/go-diskfs/filesystem"
	"github.com/diskfs/go-diskfs/filesystem/iso9660"
	"github.com/diskfs/go-diskfs/filesystem/squashfs"
	"github.com/diskfs/go-diskfs/partition/gpt"
	"github.com/diskfs/go-diskfs/partition/mbr"

	"verif/internal/core"
	"verif/internal/gen"
	"verif/internal/monstore"
)

// c03Cause explains where an out-of-range write landed relative to the range.
func c03Cause(o monstore.OOR, start, size int64) string {
	end := start + size
	switch {
	case start > 0 && o.FirstChanged+start >= start && o.FirstChanged+start < end && o.FirstChanged < start:
		return "start-not-added"
	case start > 0 && o.FirstChanged-start >= start && o.FirstChanged-start < end:
		return "start-added-twice"
	case o.FirstChanged >= end:
		return "past-end-of-range"
	}
	return "before-start-of-range"
}

// c03Report turns recorded out-of-range writes into findings; returns false when any was found.
func c03Report(res *core.Result, st *monstore.Store, comp string, start, size int64, during string, fail func(key, detail string)) bool {
	res.Count("store.write_events", 0)
	if len(st.OORs) == 0 {
		return true
	}
	o := st.OORs[0]
	top := monstore.TopRepoFunc(o.Stack)
	key := fmt.Sprintf("C03/%s/write-outside-range/%s", comp, c03Cause(o, start, size))
	fail(key, fmt.Sprintf("during %s a write of %d bytes at device offset %d changed %d byte(s) outside the range [%d,%d) (first at %d) in %s; stack: %s", during, o.Len, o.Off, o.ChangedOutside, start, start+size, o.FirstChanged, top, o.Stack))
	st.OORs = nil
	return false
}

// c03Final is the independent confirmation: every touched page is compared with its fill value.
func c03Final(res *core.Result, st *monstore.Store, comp string, start, size int64, fail func(key, detail string)) {
	n, first := st.ChangedOutside(monstore.Range{Off: start, End: start + size})
	res.Count("guard.pages_scanned", int64(st.Pages()))
	res.Count("store.write_events", st.WriteCalls.Load())
	res.Count("store.benign_rewrites_outside", st.Benign)
	if st.MaxW >= 0 {
		res.Count("store.max_written_end_minus_range_end", 0)
		if st.MaxW == start+size {
			res.Mark("last byte of the range written")
		}
	}
	if n > 0 && len(res.Findings) == 0 {
		fail(fmt.Sprintf("C03/%s/guard-bytes-changed/unattributed", comp), fmt.Sprintf("%d guard byte(s) outside [%d,%d) differ from their fill value afterwards (first at %d) although no write event was flagged", n, start, start+size, first))
	}
}

type c03Image struct {
	Kind  string   `json:"kind"` // iso | squashfs
	Start int64    `json:"start"`
	Size  int64    `json:"size"`
	Files int      `json:"files"`
	FSize int      `json:"fsize"`
	ISO   ISOOpts  `json:"iso,omitempty"`
	Sq    SqOpts   `json:"sq,omitempty"`
}

// c03Disk: disk.CreateFilesystem in partition 1 of a partitioned disk whose partition 2 follows directly.
type c03Disk struct {
	Table   string  `json:"table"` // mbr | gpt
	Sector  int     `json:"sector"`
	Sectors []int64 `json:"sectors"` // sizes of partition 1 to drive, one fresh disk each
	Types   []string `json:"types"`
}

func c03RunDisk(c core.Case, env *core.Env) core.Result {
	var p c03Disk
	c.Decode(&p)
	var res core.Result
	lss := int64(p.Sector)
	for i, n := range p.Sectors {
		typ := p.Types[i%len(p.Types)]
		start := int64(2048*512) / lss * lss
		size := n * lss
		dev := start + size + (1 << 20) + 64*lss
		dev = dev / lss * lss
		st := monstore.NewMemFilled(dev, uint64(c.Seed)+uint64(i)|1)
		q := p
		q.Sectors, q.Types = []int64{n}, []string{typ}
		fail := func(key, detail string) {
			res.FailReplay(key, detail, q, core.MkCase("w-"+core.Hash(q), c.Kind, c.Seed, q))
		}
		d, err := diskfs.OpenBackend(fileNewRW(st), sectorOpt(p.Sector))
		if err != nil {
			res.Inconclusive = err.Error()
			return res
		}
		s0 := start / lss
		if p.Table == "gpt" {
			err = d.Partition(&gpt.Table{LogicalSectorSize: p.Sector, PhysicalSectorSize: p.Sector, ProtectiveMBR: true, Partitions: []*gpt.Partition{
				{Index: 1, Start: uint64(s0), End: uint64(s0 + n - 1), Type: gpt.LinuxFilesystem, Name: "one"},
				{Index: 2, Start: uint64(s0 + n), End: uint64(s0 + n + 99), Type: gpt.LinuxFilesystem, Name: "two"}}})
		} else {
			err = d.Partition(&mbr.Table{LogicalSectorSize: p.Sector, PhysicalSectorSize: p.Sector, Partitions: []*mbr.Partition{
				{Index: 1, Type: mbr.Linux, Start: uint32(s0), Size: uint32(n)}, {Index: 2, Type: mbr.Linux, Start: uint32(s0 + n), Size: 100}}})
		}
		if err != nil {
			res.Count("disk.partition_refused", 1)
			continue
		}
		rng := monstore.Range{Off: start, End: start + size}
		before := st.Clone()
		st.SetAllowed(rng)
		var fs filesystem.FileSystem
		var cerr error
		pi := core.Guard(func() {
			fs, cerr = d.CreateFilesystem(disk.FilesystemSpec{Partition: 1, FSType: fsTypeOf[typ], VolumeLabel: "C03"})
			if cerr == nil {
				if f, e := fs.OpenFile("A.TXT", os.O_CREATE|os.O_RDWR); e == nil {
					f.Write(gen.PRFBytes(uint64(n), 3000))
					f.Close()
				}
				switch x := fs.(type) {
				case *iso9660.FileSystem:
					x.Finalize(iso9660.FinalizeOptions{})
				case *squashfs.FileSystem:
					x.Finalize(squashfs.FinalizeOptions{})
				}
			}
		})
		res.Evals++
		if pi != nil {
			res.Count(fmt.Sprintf("disk.create_panicked.%s.%d-sectors-of-%d:%s", typ, n, lss, pi.Top), 1)
		} else if cerr != nil {
			res.Count("disk.create_refused."+typ, 1)
		} else {
			res.Count("disk.create_accepted."+typ, 1)
		}
		if len(st.OORs) > 0 {
			o := st.OORs[0]
			fail(fmt.Sprintf("C03/%s/disk-createfilesystem-writes-outside-partition/%s", typ, c03Cause(o, start, size)), fmt.Sprintf("Disk.CreateFilesystem(%s) in partition 1 = [%d,%d) (%d sectors of %d, %s; result: %v): a write of %d bytes at %d changed %d byte(s) outside the partition, first at %d (partition 2 begins at %d); stack: %s", typ, start, start+size, n, lss, p.Table, cerr, o.Len, o.Off, o.ChangedOutside, o.FirstChanged, start+size, o.Stack))
		} else if a, b := before.HashRange(0, start), st.HashRange(0, start); a != b {
			fail(fmt.Sprintf("C03/%s/guard-bytes-changed/before-partition", typ), "bytes before the partition differ after CreateFilesystem although no write event was flagged")
		} else if a, b := before.HashRange(start+size, dev), st.HashRange(start+size, dev); a != b {
			fail(fmt.Sprintf("C03/%s/guard-bytes-changed/after-partition", typ), "bytes after the partition differ after CreateFilesystem although no write event was flagged")
		}
		res.Sig("disk", p.Table, p.Sector, n, typ)
	}
	res.Mark("Disk.CreateFilesystem in a partition followed directly by another")
	res.Sample = map[string]any{"table": p.Table, "sector": p.Sector, "sizes": len(p.Sectors)}
	return res
}

type c03Table struct {
	Spec *TableSpec `json:"spec"`
}

func c03Cases(seed int64, tier string) []core.Case {
	r := gen.New(seed ^ 0xC03)
	var cs []core.Case
	starts := []int64{0, 512, 1 << 20, 4<<30 + 4096}
	// FAT: random history, fill with small files, one growing file, directory growth
	fatSizes := map[string][]int64{"fat12": {1474560, 2<<20 + 1536}, "fat16": {16<<20 + 512, 17 << 20}, "fat32": {4 << 20, 33<<20 + 1024, 64<<20 + 512}}
	n := 0
	for _, t := range []string{"fat12", "fat16", "fat32"} {
		for si, sz := range fatSizes[t] {
			for sti, stt := range starts {
				if tier != "thorough" && (si+sti)%2 == 1 {
					continue
				}
				v := FatVol{Type: t, Size: sz, Start: stt, Sector: 512}
				cs = append(cs, core.MkCase(fmt.Sprintf("fat-random-%d", n), "fs-"+t, r.Int63(), fatCase{Vol: v, Mode: "random", Steps: 60, Handles: true}))
				if sz <= 17<<20 {
					cs = append(cs, core.MkCase(fmt.Sprintf("fat-refill-%d", n), "fs-"+t, r.Int63(), fatCase{Vol: v, Mode: "refill", Steps: 2}))
				}
				n++
			}
		}
	}
	// ext4
	for i, cfg := range []Ext4Cfg{{Size: 8 << 20, Off: []string{"resize_inode"}}, {Size: 9<<20 + 1536, Start: 512}, {Size: 16 << 20, Start: 1 << 20}, {Size: 32<<20 + 4096, SPB: 8, Off: []string{"resize_inode"}, Start: 4<<30 + 4096}, {Size: 12<<20 + 512, Start: 4096}} {
		cs = append(cs, core.MkCase(fmt.Sprintf("ext4-random-%d", i), "fs-ext4", r.Int63(), ext4Case{Cfg: cfg, Mode: "random", Steps: 70, Handles: true}))
		if i < 3 || tier == "thorough" {
			cs = append(cs, core.MkCase(fmt.Sprintf("ext4-fill-%d", i), "fs-ext4", r.Int63(), ext4Case{Cfg: cfg, Mode: "fill"}))
		}
	}
	// iso9660 / squashfs: trees smaller than, about equal to and larger than the range
	for i, stt := range []int64{0, 1 << 20, 4<<30 + 4096} {
		for j, shape := range [][2]int{{5, 3000}, {40, 30000}, {60, 60000}} {
			if tier != "thorough" && (i+j)%2 == 1 {
				continue
			}
			cs = append(cs, core.MkCase(fmt.Sprintf("iso-%d-%d", i, j), "fs-iso9660", r.Int63(), c03Image{Kind: "iso", Start: stt, Size: 2 << 20, Files: shape[0], FSize: shape[1], ISO: ISOOpts{RockRidge: j%2 == 0}}))
			cs = append(cs, core.MkCase(fmt.Sprintf("squashfs-%d-%d", i, j), "fs-squashfs", r.Int63(), c03Image{Kind: "squashfs", Start: stt, Size: 2 << 20, Files: shape[0], FSize: shape[1], Sq: SqOpts{Comp: "none"}}))
		}
	}
	// Disk.CreateFilesystem in partition 1, every size from 1 sector up (also the tiny ones where mkfs is
	// refused: whatever is done before the refusal must stay inside the partition too), then sparser
	types := []string{"fat12", "ext4", "fat16", "iso9660", "fat32", "squashfs"}
	var small, sparse []int64
	for n := int64(1); n <= 300; n++ {
		small = append(small, n)
	}
	for n := int64(301); n < 70000; n += 1 + n/9 {
		sparse = append(sparse, n, n+1)
	}
	for k := 0; k < 6; k++ {
		rot := append(append([]string{}, types[k:]...), types[:k]...)
		if tier != "thorough" && k >= 2 {
			break
		}
		cs = append(cs, core.MkCase(fmt.Sprintf("disk-mbr-small-%d", k), "disk-create", r.Int63(), c03Disk{Table: "mbr", Sector: 512, Sectors: small, Types: rot}))
		cs = append(cs, core.MkCase(fmt.Sprintf("disk-gpt-sparse-%d", k), "disk-create", r.Int63(), c03Disk{Table: "gpt", Sector: 512, Sectors: sparse, Types: rot}))
	}
	cs = append(cs, core.MkCase("disk-gpt-4096", "disk-create", r.Int63(), c03Disk{Table: "gpt", Sector: 4096, Sectors: small[:80], Types: []string{"fat32", "iso9660", "squashfs"}}))
	// partition tables
	nt := 40
	if tier == "thorough" {
		nt = 600
	}
	for i, t := range c02Tables(seed*17+5, nt) {
		cs = append(cs, core.MkCase(fmt.Sprintf("table-%d", i), "table-"+t.Kind, r.Int63(), c03Table{Spec: t}))
	}
	// tables with more entries than the format has room for (5..9 MBR partitions; GPT indices beyond 128): if
	// Write accepts them it must still stay inside the table's own sectors
	for i := 0; i < 6; i++ {
		lss := []int{512, 512, 4096}[i%3]
		t := genMBR(r, lss, 64<<20)
		for len(t.MBR) < 5+i%5 {
			t.MBR = append(t.MBR, MBRPartSpec{Type: 0x83, Start: uint32(2048 + 1000*len(t.MBR)), Size: 900})
		}
		cs = append(cs, core.MkCase(fmt.Sprintf("table-mbr-over-%d", i), "table-mbr", r.Int63(), c03Table{Spec: t}))
		g := genGPT(r, lss, 64<<20)
		g.GPT = append(g.GPT, GPTPartSpec{Index: 129 + i*40, Start: 3000, End: 3999, Type: "0FC63DAF-8483-4772-8E79-3D69D8477DE4", Name: "beyond"})
		cs = append(cs, core.MkCase(fmt.Sprintf("table-gpt-over-%d", i), "table-gpt", r.Int63(), c03Table{Spec: g}))
	}
	// writing partition contents: partition 1 is followed directly by partition 2 and then by the backup table;
	// geometries where the partition size is / is not a multiple of the physical sector, readers of every shape
	geoms := [][2]int{{512, 512}, {512, 4096}, {4096, 4096}, {4096, 512}}
	np := 0
	for _, kind := range []string{"gpt", "mbr"} {
		for _, ge := range geoms {
			if kind == "mbr" && ge[1] < ge[0] {
				continue
			}
			secs := []uint64{1, 7, 9, 17, 100, 257, 1001}
			if tier != "thorough" {
				secs = []uint64{uint64(gen.Pick(r, []int{1, 3, 7})), uint64(gen.Pick(r, []int{9, 17, 100})), uint64(gen.Pick(r, []int{257, 1001, 1003}))}
			}
			for si, sc := range secs {
				startS := uint64(r.Range(40, 3000))
				if si == 1 {
					startS = uint64(1<<32)/uint64(ge[0]) + uint64(r.Range(0, 9000))
				}
				size := int64(sc) * int64(ge[0])
				for ri, rl := range []int64{size, size - 1, size + 1, size + int64(ge[1]), size / 2} {
					if rl < 0 || (tier != "thorough" && ri >= 2 && (si+ri+np)%3 != 0) {
						continue
					}
					g := c13Geom{Kind: kind, LSS: ge[0], PSS: ge[1], DevSize: 1 << 36, Start: startS, Sectors: sc, Start2: startS + sc, Sect2: 8, Op: "write", RLen: rl, Class: "contents"}
					g.Chunk = []string{"full", "odd", "eofwith", "half"}[(np+ri)%4]
					cs = append(cs, core.MkCase(fmt.Sprintf("contents-%d", np), "part-contents", r.Int63(), g))
					np++
				}
			}
		}
	}
	return cs
}

// c03RunContents: Disk.WritePartitionContents into partition 1; partition 2 starts at the next sector.
func c03RunContents(c core.Case, env *core.Env) core.Result {
	var g c13Geom
	c.Decode(&g)
	var res core.Result
	st := monstore.NewMemFilled(g.DevSize, uint64(c.Seed)|1)
	d, err := c13Disk(st, g)
	if err != nil {
		res.Inconclusive = "could not set up the partitioned disk: " + err.Error()
		return res
	}
	pStart, pSize := int64(g.Start)*int64(g.LSS), int64(g.Sectors)*int64(g.LSS)
	fail := func(key, detail string) { res.Fail(key, detail, g) }
	before := st.Clone()
	st.ResetCounters()
	st.SetAllowed(monstore.Range{Off: pStart, End: pStart + pSize})
	st.SetLog(true)
	rd := &prfStream{seed: uint64(c.Seed) * 77, total: g.RLen, mode: g.Chunk, zeros: c.Seed%2 == 0}
	var werr error
	if pi := core.Guard(func() { _, werr = d.WritePartitionContents(1, rd) }); pi != nil {
		fail("C03/partition-contents/panic/"+pi.Top+":"+pi.Class, "WritePartitionContents panicked: "+pi.Msg)
		return res
	}
	comp := "partition-contents-" + g.Kind
	res.Mark("partition contents written with the next partition directly behind")
	res.Mark(fmt.Sprintf("contents %s lss=%d pss=%d", g.Kind, g.LSS, g.PSS))
	if pSize%int64(g.PSS) != 0 {
		res.Mark("partition size not a multiple of the physical sector")
	}
	if werr != nil {
		res.Count("contents.refused", 1)
	} else {
		res.Count("contents.accepted", 1)
	}
	c03Report(&res, st, comp, pStart, pSize, fmt.Sprintf("WritePartitionContents (reader %d bytes, pieces %q, result %v)", g.RLen, g.Chunk, werr), fail)
	res.Count("store.write_events", st.WriteCalls.Load())
	if len(res.Findings) == 0 {
		// the touched pages of the device before and after, with the partition itself blanked in both, must agree
		after := st.Clone()
		blank := make([]byte, pSize)
		before.Poke(blank, pStart)
		after.Poke(blank, pStart)
		ha, _ := before.TouchedHash()
		hb, nb := after.TouchedHash()
		res.Count("guard.pages_compared", int64(nb))
		if ha != hb {
			fail(fmt.Sprintf("C03/%s/guard-bytes-changed/unattributed", comp), "bytes outside the partition differ after WritePartitionContents although no write event was flagged")
		}
	}
	res.Sig("contents", g.Kind, g.LSS, g.PSS, g.Sectors, g.RLen-pSize, g.Chunk)
	return res
}

func c03RunImage(c core.Case, env *core.Env) core.Result {
	var p c03Image
	c.Decode(&p)
	var res core.Result
	comp := map[string]string{"iso": "iso9660", "squashfs": "squashfs"}[p.Kind]
	st := monstore.NewMemFilled(p.Start+p.Size+2<<20, uint64(c.Seed)|1, monstore.Range{Off: p.Start, End: p.Start + p.Size})
	st.SetAllowed(monstore.Range{Off: p.Start, End: p.Start + p.Size})
	r := gen.New(c.Seed)
	t := genTree(r, TreeCfg{Dirs: 3, Files: p.Files, Depth: 3, Unit: 2048, MaxSize: p.FSize})
	for i := range t {
		if !t[i].Dir && t[i].Link == "" {
			t[i].Size = p.FSize/2 + r.Intn(p.FSize/2+1)
		}
	}
	var total int64
	for _, n := range t {
		total += int64(n.Size)
	}
	fail := func(key, detail string) {
		res.FailReplay(key, detail, p, core.MkCase("w-"+core.Hash(p), c.Kind, c.Seed, p))
	}
	var err error
	var pi *core.PanicInfo
	if p.Kind == "iso" {
		err, pi = guardErr(func() error { return buildISO(st, p.Size, p.Start, p.ISO, t) })
	} else {
		err, pi = guardErr(func() error { return buildSquash(st, p.Size, p.Start, p.Sq, t) })
	}
	if pi != nil {
		res.Count("finalize.panicked", 1)
	}
	fits := "tree-fits"
	if total > p.Size*9/10 {
		fits = "tree-larger-than-range"
		res.Mark(comp + " tree larger than the range")
	}
	if err != nil {
		res.Count("finalize.refused."+comp, 1)
	} else {
		res.Count("finalize.accepted."+comp, 1)
	}
	if len(st.OORs) > 0 {
		o := st.OORs[0]
		cause := c03Cause(o, p.Start, p.Size)
		if cause == "past-end-of-range" {
			cause += "/" + fits
		}
		fail(fmt.Sprintf("C03/%s/write-outside-range/%s", comp, cause), fmt.Sprintf("Create+Finalize of a %d-byte tree for range [%d,%d) (finalize error: %v): write of %d bytes at %d changed %d byte(s) outside the range, first at %d; stack: %s", total, p.Start, p.Start+p.Size, err, o.Len, o.Off, o.ChangedOutside, o.FirstChanged, o.Stack))
	}
	c03Final(&res, st, comp, p.Start, p.Size, fail)
	res.Sig(p)
	res.Mark(comp)
	if p.Start > 0 {
		res.Mark(comp + " at non-zero start")
	}
	res.Sample = p
	return res
}

func c03RunTable(c core.Case, env *core.Env) core.Result {
	var p c03Table
	c.Decode(&p)
	var res core.Result
	t := p.Spec
	st := monstore.NewMemFilled(t.DevSize, uint64(c.Seed)|1)
	l := int64(t.LSS)
	var allowed []monstore.Range
	if t.Kind == "mbr" {
		allowed = []monstore.Range{{Off: 446, End: 512}}
	} else {
		arr := int64(128 * 128)
		allowed = []monstore.Range{{Off: 446, End: 512}, {Off: l, End: 2*l + arr}, {Off: t.DevSize/l*l - l - arr, End: t.DevSize / l * l}}
	}
	if t.Prior != nil {
		writeTable(st, t.Prior) // unguarded: sets up existing content
	}
	st.SetAllowed(allowed...)
	st.ResetCounters()
	err, pi := writeTable(st, t)
	fail := func(key, detail string) {
		res.FailReplay(key, detail, p, core.MkCase("w-"+core.Hash(p), c.Kind, c.Seed, p))
	}
	if pi != nil || err != nil {
		res.Count("write.refused", 1)
	} else {
		res.Count("write.accepted."+t.Kind, 1)
	}
	if len(st.OORs) > 0 {
		o := st.OORs[0]
		where := "partition-data"
		switch {
		case o.FirstChanged < 446:
			where = "boot-code"
		case o.FirstChanged < l:
			where = "sector-0-tail"
		}
		fail(fmt.Sprintf("C03/%s/table-write-outside-table-sectors/%s", t.Kind, where), fmt.Sprintf("writing the %s table changed %d byte(s) outside the table's own sectors, first at %d; stack: %s", t.Kind, o.ChangedOutside, o.FirstChanged, o.Stack))
	}
	if n, first := st.ChangedOutside(allowed...); n > 0 && len(res.Findings) == 0 && t.Prior == nil {
		fail(fmt.Sprintf("C03/%s/guard-bytes-changed/unattributed", t.Kind), fmt.Sprintf("%d guard bytes changed, first at %d", n, first))
	}
	res.Count("store.write_events", st.WriteCalls.Load())
	res.Count("store.benign_rewrites_outside", st.Benign)
	res.Sig(t)
	res.Mark("table " + t.Kind)
	return res
}

var _ = file.New
var _ = gpt.Unused

func init() {
	core.Register(&core.Check{
		ID:    "C03",
		Level: "exploration",
		Rule: "every WriteAt reaching the instrumented store is range-checked online (a write outside the allowed ranges counts only if it changes a byte: identical rewrites are recorded as benign) and the guard bytes (PRF fill outside the range) are re-verified afterwards page by page. Workloads: FAT12/16/32 and ext4 volumes at start 0/512/4096/1 MiB/4 GiB+ with sizes that are not multiples of the cluster/block size under random histories, fill-to-no-space with many files, release and refill; iso9660 and squashfs Create+Finalize with trees smaller and larger than the range at start 0/1 MiB/4 GiB+; Disk.CreateFilesystem of every type in partition 1 of MBR/GPT disks whose partition 2 follows directly, for every partition size from 1 to 300 sectors and a geometric ladder up to 70000 (refused or accepted: nothing outside partition 1 may change); Disk.WritePartitionContents into partition 1 with partition 2 on the next sector, GPT/MBR x logical/physical 512/4096 incl. partition sizes that are not a multiple of the physical sector, below and above 4 GiB, readers supplying size, size-1, size+1, size+sector, size/2 bytes in full, odd-sized, data-with-EOF and halved pieces; GPT/MBR table writes (allowed: MBR bytes 446-511, GPT header and array sectors of both copies) over PRF-filled devices incl. rewrite over another table and tables with more entries than the format holds (5-9 MBR partitions, GPT indices beyond 128); non-trivial = a workload that issued at least one write; distinct = distinct (component, geometry, workload)",
		Assumptions: []string{"the store's unwritten bytes outside the range are a non-zero PRF of the offset, so any write of different bytes there is visible", "C13 decides where and how much partition-content streaming stores; here only its staying inside the partition is decided"},
		MinSigs:   map[string]int{"quick": 60, "thorough": 500},
		NeedMarks: []string{"fat12", "fat16", "fat32", "ENOSPC reached", "iso9660", "squashfs", "table gpt", "table mbr", "volume beyond 4 GiB", "Disk.CreateFilesystem in a partition followed directly by another", "partition contents written with the next partition directly behind", "partition size not a multiple of the physical sector"},
		CPUSec:    900,
		Cases:     c03Cases,
		Run: func(c core.Case, env *core.Env) core.Result {
			switch {
			case c.Kind == "fs-ext4":
				return runExt4Case("C03", c, env)
			case c.Kind == "fs-iso9660" || c.Kind == "fs-squashfs":
				return c03RunImage(c, env)
			case c.Kind == "table-gpt" || c.Kind == "table-mbr":
				return c03RunTable(c, env)
			case c.Kind == "disk-create":
				return c03RunDisk(c, env)
			case c.Kind == "part-contents":
				return c03RunContents(c, env)
			}
			return runFatCase("C03", c, env)
		},
	})
}
