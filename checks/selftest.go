package checks

import (
	"os"
	"time"

	"verif/internal/core"
)

// SELFTEST exercises the harness's own watchdogs; it is registered only when VERIF_SELFTEST=1 and is not
// part of the manifest.
func init() {
	if os.Getenv("VERIF_SELFTEST") != "1" {
		return
	}
	core.Register(&core.Check{
		ID: "SELFTEST", Level: "exploration", Rule: "watchdog self-test",
		Cases: func(seed int64, tier string) []core.Case {
			return []core.Case{core.MkCase("spins", "self", 1, map[string]string{"how": "spin"}), core.MkCase("sleeps", "self", 2, map[string]string{"how": "sleep"})}
		},
		BatchMax: 1,
		Run: func(c core.Case, env *core.Env) core.Result {
			var p map[string]string
			c.Decode(&p)
			var res core.Result
			if p["how"] == "sleep" {
				// stuck, with the odd bit of background CPU use
				for {
					time.Sleep(2 * time.Second)
					x := 0
					for i := 0; i < 2000000; i++ {
						x += i
					}
					_ = x
				}
			} else {
				t0 := time.Now()
				x := 0
				for time.Since(t0) < 40*time.Second {
					x++
				}
				_ = x
			}
			res.Sig(p["how"])
			return res
		},
	})
}
