package main

import (
	"fmt"
	"os"
	"strconv"
	_ "time/tzdata" // C14 runs child processes in other time zones: do not depend on the host's zoneinfo

	_ "verif/checks"
	"verif/internal/core"
)

func usage() {
	fmt.Fprintln(os.Stderr, "usage: vcheck check <ID> <quick|thorough> | vcheck replay <ID> <file> | vcheck worker <ID> <batch> <journal> | vcheck list")
	os.Exit(4)
}

func main() {
	if len(os.Args) < 2 {
		usage()
	}
	if core.SubMain(os.Args[1:]) {
		return
	}
	switch os.Args[1] {
	case "list":
		for _, id := range core.IDs() {
			fmt.Println(id)
		}
	case "worker":
		if len(os.Args) != 5 {
			usage()
		}
		os.Exit(core.WorkerMain(os.Args[2], os.Args[3], os.Args[4]))
	case "check":
		if len(os.Args) != 4 {
			usage()
		}
		seed := int64(1)
		if s := os.Getenv("VERIF_SEED"); s != "" {
			if v, err := strconv.ParseInt(s, 10, 64); err == nil {
				seed = v
			}
		}
		os.Exit(core.RunCheck(os.Args[2], os.Args[3], seed, ""))
	case "replay":
		if len(os.Args) != 4 {
			usage()
		}
		os.Exit(core.RunCheck(os.Args[2], "quick", 1, os.Args[3]))
	default:
		usage()
	}
}
