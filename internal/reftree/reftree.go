// Package reftree is the in-memory reference tree: the executable specification that the
// filesystem implementations are compared with.
package reftree

import (
	"errors"
	"sort"
	"strings"
	"time"
)

type Attr struct {
	Mode          uint32 // permission + setuid/setgid/sticky bits
	UID, GID      int64
	Atime, Mtime, Ctime time.Time
	ModeSet, OwnerSet, TimesSet bool
	Hidden, System, ReadOnly, Archive bool
}

type Node struct {
	Name     string // spelling given at creation / rename
	Dir      bool
	Link     string // symlink target ("" when not a symlink)
	IsLink   bool
	Data     []byte
	Children map[string]*Node
	Attr     Attr
}

type Tree struct {
	Root     *Node
	FoldCase bool // names compare case-insensitively (FAT)
}

func New(foldCase bool) *Tree {
	return &Tree{Root: &Node{Dir: true, Children: map[string]*Node{}}, FoldCase: foldCase}
}

func (t *Tree) key(name string) string {
	if t.FoldCase {
		return strings.ToLower(name)
	}
	return name
}

func Split(p string) []string {
	p = strings.Trim(p, "/")
	if p == "" || p == "." {
		return nil
	}
	return strings.Split(p, "/")
}

var (
	ErrNotExist = errors.New("reftree: does not exist")
	ErrExist    = errors.New("reftree: exists")
	ErrNotDir   = errors.New("reftree: not a directory")
	ErrIsDir    = errors.New("reftree: is a directory")
	ErrNotEmpty = errors.New("reftree: directory not empty")
)

func (t *Tree) Lookup(p string) *Node {
	n := t.Root
	for _, part := range Split(p) {
		if n == nil || !n.Dir {
			return nil
		}
		n = n.Children[t.key(part)]
	}
	return n
}

func (t *Tree) parent(p string) (*Node, string, error) {
	parts := Split(p)
	if len(parts) == 0 {
		return nil, "", ErrExist
	}
	n := t.Root
	for _, part := range parts[:len(parts)-1] {
		c := n.Children[t.key(part)]
		if c == nil {
			return nil, "", ErrNotExist
		}
		if !c.Dir {
			return nil, "", ErrNotDir
		}
		n = c
	}
	return n, parts[len(parts)-1], nil
}

// MkdirAll is mkdir -p; a no-op on existing directories.
func (t *Tree) MkdirAll(p string) error {
	n := t.Root
	for _, part := range Split(p) {
		c := n.Children[t.key(part)]
		if c == nil {
			c = &Node{Name: part, Dir: true, Children: map[string]*Node{}}
			n.Children[t.key(part)] = c
		} else if !c.Dir {
			return ErrNotDir
		}
		n = c
	}
	return nil
}

// Mkdir makes exactly one directory; parent must exist.
func (t *Tree) Mkdir(p string) error {
	par, name, err := t.parent(p)
	if err != nil {
		return err
	}
	if par.Children[t.key(name)] != nil {
		return ErrExist
	}
	par.Children[t.key(name)] = &Node{Name: name, Dir: true, Children: map[string]*Node{}}
	return nil
}

// Create makes an empty file if absent and returns the node.
func (t *Tree) Create(p string) (*Node, error) {
	par, name, err := t.parent(p)
	if err != nil {
		return nil, err
	}
	if c := par.Children[t.key(name)]; c != nil {
		if c.Dir {
			return nil, ErrIsDir
		}
		return c, nil
	}
	c := &Node{Name: name}
	par.Children[t.key(name)] = c
	return c, nil
}

func (t *Tree) Symlink(target, p string) error {
	par, name, err := t.parent(p)
	if err != nil {
		return err
	}
	if par.Children[t.key(name)] != nil {
		return ErrExist
	}
	par.Children[t.key(name)] = &Node{Name: name, IsLink: true, Link: target}
	return nil
}

// WriteAt overwrites/extends; a gap reads as zeros.
func (n *Node) WriteAt(off int64, data []byte) {
	if len(data) == 0 {
		return // writing nothing changes nothing, wherever the cursor is
	}
	end := off + int64(len(data))
	if int64(len(n.Data)) < end {
		n.Data = append(n.Data, make([]byte, end-int64(len(n.Data)))...)
	}
	copy(n.Data[off:], data)
}

func (t *Tree) Remove(p string) error {
	par, name, err := t.parent(p)
	if err != nil {
		return err
	}
	c := par.Children[t.key(name)]
	if c == nil {
		return ErrNotExist
	}
	if c.Dir && len(c.Children) > 0 {
		return ErrNotEmpty
	}
	delete(par.Children, t.key(name))
	return nil
}

// Rename inside one directory: move, replacing an existing file.
func (t *Tree) Rename(oldp, newp string) error {
	op, oname, err := t.parent(oldp)
	if err != nil {
		return err
	}
	np, nname, err := t.parent(newp)
	if err != nil {
		return err
	}
	c := op.Children[t.key(oname)]
	if c == nil {
		return ErrNotExist
	}
	if d := np.Children[t.key(nname)]; d != nil && d != c {
		if d.Dir {
			return ErrIsDir
		}
	}
	delete(op.Children, t.key(oname))
	c.Name = nname
	np.Children[t.key(nname)] = c
	return nil
}

// Paths returns every path in the tree (sorted), directories first in each level.
func (t *Tree) Paths() []string {
	var out []string
	var walk func(prefix string, n *Node)
	walk = func(prefix string, n *Node) {
		keys := make([]string, 0, len(n.Children))
		for k := range n.Children {
			keys = append(keys, k)
		}
		sort.Strings(keys)
		for _, k := range keys {
			c := n.Children[k]
			p := c.Name
			if prefix != "" {
				p = prefix + "/" + c.Name
			}
			out = append(out, p)
			if c.Dir {
				walk(p, c)
			}
		}
	}
	walk("", t.Root)
	return out
}

// Dirs returns every directory path including "" for the root.
func (t *Tree) Dirs() []string {
	out := []string{""}
	for _, p := range t.Paths() {
		if n := t.Lookup(p); n != nil && n.Dir {
			out = append(out, p)
		}
	}
	return out
}

func (t *Tree) Files() []string {
	var out []string
	for _, p := range t.Paths() {
		if n := t.Lookup(p); n != nil && !n.Dir && !n.IsLink {
			out = append(out, p)
		}
	}
	return out
}

// Clone deep-copies the tree.
func (t *Tree) Clone() *Tree {
	var cp func(n *Node) *Node
	cp = func(n *Node) *Node {
		c := *n
		c.Data = append([]byte(nil), n.Data...)
		if n.Children != nil {
			c.Children = map[string]*Node{}
			for k, v := range n.Children {
				c.Children[k] = cp(v)
			}
		}
		return &c
	}
	return &Tree{Root: cp(t.Root), FoldCase: t.FoldCase}
}
