// Package monstore is the instrumented backing store: every ReadAt / WriteAt / Sync the library
// issues is observed here. It is handed to the library through backend/file.New(store, readOnly).
package monstore

import (
	"crypto/sha256"
	"encoding/hex"
	"errors"
	"fmt"
	"io"
	"io/fs"
	"os"
	"runtime"
	"sort"
	"strings"
	"sync"
	"sync/atomic"
	"time"
)

const PageSize = 4096

// Range is a half-open byte interval [Off, End).
type Range struct{ Off, End int64 }

func (r Range) Len() int64 { return r.End - r.Off }

type data interface {
	readAt(p []byte, off int64)
	writeAt(p []byte, off int64)
	close() error
}

// memData: sparse page map; unwritten pages read through fill().
type memData struct {
	pages map[int64]*[PageSize]byte
	st    *Store
}

func (m *memData) readAt(p []byte, off int64) {
	for len(p) > 0 {
		pg := off / PageSize
		in := int(off % PageSize)
		n := PageSize - in
		if n > len(p) {
			n = len(p)
		}
		if page, ok := m.pages[pg]; ok {
			copy(p[:n], page[in:in+n])
		} else {
			m.st.fill(p[:n], off)
		}
		p = p[n:]
		off += int64(n)
	}
}

func (m *memData) writeAt(p []byte, off int64) {
	for len(p) > 0 {
		pg := off / PageSize
		in := int(off % PageSize)
		n := PageSize - in
		if n > len(p) {
			n = len(p)
		}
		page, ok := m.pages[pg]
		if !ok {
			page = new([PageSize]byte)
			m.st.fill(page[:], pg*PageSize)
			m.pages[pg] = page
		}
		copy(page[in:in+n], p[:n])
		p = p[n:]
		off += int64(n)
	}
}
func (m *memData) close() error { return nil }

type fileData struct{ f *os.File }

func (d *fileData) readAt(p []byte, off int64) {
	n, _ := d.f.ReadAt(p, off)
	for i := n; i < len(p); i++ {
		p[i] = 0
	}
}
func (d *fileData) writeAt(p []byte, off int64) { _, _ = d.f.WriteAt(p, off) }
func (d *fileData) close() error               { return d.f.Close() }

// JEvent is one entry of the write journal (writes carry their payload and pre-image).
type JEvent struct {
	Kind byte // 'W' or 'S'
	Off  int64
	Data []byte
	Pre  []byte
}

// OOR is a write that changed bytes outside the allowed ranges.
type OOR struct {
	Off, Len      int64
	FirstChanged  int64 // absolute offset of the first changed byte outside the allowed ranges
	ChangedOutside int64
	Stack         string
}

type Event struct {
	Kind byte
	Off  int64
	Len  int64
}

type Store struct {
	mu   sync.Mutex
	size int64
	d    data
	pos  int64
	name string

	// virtual fill
	fillOn   bool
	fillSeed uint64
	zero     []Range // ranges that read as zero when never written (only meaningful with fillOn)

	// guards
	guardOn bool
	allowed []Range
	OORs    []OOR
	Benign  int64 // out-of-range writes that changed no byte

	roSentinel bool
	ROWrites   []OOR

	journalOn bool
	Journal   []JEvent

	logOn bool
	Log   []Event

	ReadCalls, ReadBytes, WriteCalls, WriteBytes, Syncs atomic.Int64
	MinW, MaxW                                          int64 // min written offset / max written end (-1 when none)

	// budgets: when >0 and exceeded, further reads fail and Exceeded is set
	MaxReadCalls int64
	MaxReadBytes int64
	Exceeded     atomic.Bool

	// ReadHook is called (outside the store mutex) before each ReadAt; used for yields/delays.
	ReadHook func(off int64, n int)

	// Short transfer mode: ReadAt returns at most ShortRead bytes per call when >0 (with nil error) -- not used by default.
	closed bool
}

func newStore(size int64) *Store {
	return &Store{size: size, MinW: -1, MaxW: -1, name: "monstore"}
}

// NewMem makes a sparse in-memory device of the given size reading as zeros.
func NewMem(size int64) *Store {
	s := newStore(size)
	s.d = &memData{pages: map[int64]*[PageSize]byte{}, st: s}
	return s
}

// NewMemFilled makes a sparse device whose never-written bytes read as PRF(seed, offset), except
// inside the given zero ranges.
func NewMemFilled(size int64, seed uint64, zero ...Range) *Store {
	s := NewMem(size)
	s.fillOn = true
	s.fillSeed = seed
	s.zero = zero
	return s
}

// NewFile makes a store over a real (sparse) file, for images external tools must open.
func NewFile(path string, size int64) (*Store, error) {
	f, err := os.OpenFile(path, os.O_RDWR|os.O_CREATE|os.O_TRUNC, 0o600)
	if err != nil {
		return nil, err
	}
	if err := f.Truncate(size); err != nil {
		f.Close()
		return nil, err
	}
	s := newStore(size)
	s.d = &fileData{f: f}
	return s, nil
}

// OpenFile wraps an existing file.
func OpenFile(path string) (*Store, error) {
	f, err := os.OpenFile(path, os.O_RDWR, 0o600)
	if err != nil {
		return nil, err
	}
	fi, err := f.Stat()
	if err != nil {
		f.Close()
		return nil, err
	}
	s := newStore(fi.Size())
	s.d = &fileData{f: f}
	return s, nil
}

// FromBytes makes an in-memory device holding b.
func FromBytes(b []byte) *Store {
	s := NewMem(int64(len(b)))
	s.d.writeAt(b, 0)
	return s
}

func splitmix(x uint64) uint64 {
	x += 0x9E3779B97F4A7C15
	x = (x ^ (x >> 30)) * 0xBF58476D1CE4E5B9
	x = (x ^ (x >> 27)) * 0x94D049BB133111EB
	return x ^ (x >> 31)
}

// FillByte is the PRF value of the device byte at off (before zero ranges are applied).
func FillByte(seed uint64, off int64) byte {
	w := splitmix(seed ^ uint64(off>>3)*0x2545F4914F6CDD1D)
	b := byte(w >> (8 * uint(off&7)))
	if b == 0 {
		b = 0xA5 // never zero, so that "zeroed" is always a change
	}
	return b
}

func (s *Store) fill(p []byte, off int64) {
	if !s.fillOn {
		for i := range p {
			p[i] = 0
		}
		return
	}
	// fast path: completely inside one zero range
	for _, z := range s.zero {
		if off >= z.Off && off+int64(len(p)) <= z.End {
			for i := range p {
				p[i] = 0
			}
			return
		}
	}
	for i := range p {
		o := off + int64(i)
		inZero := false
		for _, z := range s.zero {
			if o >= z.Off && o < z.End {
				inZero = true
				break
			}
		}
		if inZero {
			p[i] = 0
		} else {
			p[i] = FillByte(s.fillSeed, o)
		}
	}
}

func (s *Store) Size() int64 { return s.size }

// SetAllowed turns the range guard on: writes that change bytes outside these ranges are recorded.
func (s *Store) SetAllowed(rs ...Range) {
	s.mu.Lock()
	defer s.mu.Unlock()
	s.guardOn = true
	s.allowed = append([]Range(nil), rs...)
	sort.Slice(s.allowed, func(i, j int) bool { return s.allowed[i].Off < s.allowed[j].Off })
}
func (s *Store) ClearAllowed() {
	s.mu.Lock()
	defer s.mu.Unlock()
	s.guardOn = false
	s.allowed = nil
}

// SetReadOnlySentinel: every WriteAt while on is recorded in ROWrites (the write is still refused).
func (s *Store) SetReadOnlySentinel(on bool) { s.mu.Lock(); s.roSentinel = on; s.mu.Unlock() }
func (s *Store) SetJournal(on bool)          { s.mu.Lock(); s.journalOn = on; s.mu.Unlock() }
func (s *Store) SetLog(on bool)              { s.mu.Lock(); s.logOn = on; s.mu.Unlock() }
func (s *Store) ResetJournal()               { s.mu.Lock(); s.Journal = nil; s.mu.Unlock() }
func (s *Store) ResetLog()                   { s.mu.Lock(); s.Log = nil; s.mu.Unlock() }
func (s *Store) ResetCounters() {
	s.ReadCalls.Store(0)
	s.ReadBytes.Store(0)
	s.WriteCalls.Store(0)
	s.WriteBytes.Store(0)
	s.Syncs.Store(0)
	s.Exceeded.Store(false)
	s.mu.Lock()
	s.MinW, s.MaxW = -1, -1
	s.mu.Unlock()
}

func repoStack() string {
	pcs := make([]uintptr, 40)
	n := runtime.Callers(3, pcs)
	fr := runtime.CallersFrames(pcs[:n])
	var sb strings.Builder
	for {
		f, more := fr.Next()
		if strings.Contains(f.Function, "go-diskfs") {
			fn := f.Function
			if i := strings.Index(fn, "go-diskfs/"); i >= 0 {
				fn = fn[i+len("go-diskfs/"):]
			}
			file := f.File
			if i := strings.LastIndex(file, "/"); i >= 0 {
				file = file[i+1:]
			}
			fmt.Fprintf(&sb, "%s (%s:%d); ", fn, file, f.Line)
		}
		if !more {
			break
		}
	}
	return sb.String()
}

// TopRepoFunc returns the innermost go-diskfs function on a stack string produced by repoStack.
func TopRepoFunc(stack string) string {
	if i := strings.Index(stack, " ("); i >= 0 {
		return stack[:i]
	}
	return stack
}

// ---- fs.File / backend interfaces ----

type info struct {
	name string
	size int64
}

func (i info) Name() string       { return i.name }
func (i info) Size() int64        { return i.size }
func (i info) Mode() fs.FileMode  { return 0o644 }
func (i info) ModTime() time.Time { return time.Unix(0, 0) }
func (i info) IsDir() bool        { return false }
func (i info) Sys() any           { return nil }

func (s *Store) Stat() (fs.FileInfo, error) { return info{s.name, s.size}, nil }

func (s *Store) Close() error { return nil } // the harness owns the store; library Close is a no-op

// Destroy releases the real file if any.
func (s *Store) Destroy() error { return s.d.close() }

func (s *Store) Read(p []byte) (int, error) {
	s.mu.Lock()
	pos := s.pos
	s.mu.Unlock()
	n, err := s.ReadAt(p, pos)
	s.mu.Lock()
	s.pos = pos + int64(n)
	s.mu.Unlock()
	return n, err
}

func (s *Store) Seek(off int64, whence int) (int64, error) {
	s.mu.Lock()
	defer s.mu.Unlock()
	var np int64
	switch whence {
	case io.SeekStart:
		np = off
	case io.SeekCurrent:
		np = s.pos + off
	case io.SeekEnd:
		np = s.size + off
	default:
		return 0, errors.New("monstore: bad whence")
	}
	if np < 0 {
		return 0, errors.New("monstore: negative position")
	}
	s.pos = np
	return np, nil
}

var ErrBudget = errors.New("monstore: read budget exceeded")

func (s *Store) ReadAt(p []byte, off int64) (int, error) {
	if h := s.ReadHook; h != nil {
		h(off, len(p))
	}
	calls := s.ReadCalls.Add(1)
	if s.MaxReadCalls > 0 && calls > s.MaxReadCalls {
		s.Exceeded.Store(true)
		return 0, ErrBudget
	}
	if off < 0 {
		return 0, errors.New("monstore: negative offset")
	}
	if off >= s.size {
		return 0, io.EOF
	}
	n := len(p)
	var err error
	if off+int64(n) > s.size {
		n = int(s.size - off)
		err = io.EOF
	}
	bytes := s.ReadBytes.Add(int64(n))
	if s.MaxReadBytes > 0 && bytes > s.MaxReadBytes {
		s.Exceeded.Store(true)
		return 0, ErrBudget
	}
	s.mu.Lock()
	s.d.readAt(p[:n], off)
	if s.logOn {
		s.Log = append(s.Log, Event{'R', off, int64(n)})
	}
	s.mu.Unlock()
	return n, err
}

// outside returns the sub-ranges of [off,end) not covered by allowed.
func (s *Store) outside(off, end int64) []Range {
	var out []Range
	cur := off
	for _, a := range s.allowed {
		if a.End <= cur {
			continue
		}
		if a.Off >= end {
			break
		}
		if a.Off > cur {
			out = append(out, Range{cur, a.Off})
		}
		if a.End > cur {
			cur = a.End
		}
		if cur >= end {
			break
		}
	}
	if cur < end {
		out = append(out, Range{cur, end})
	}
	return out
}

func (s *Store) WriteAt(p []byte, off int64) (int, error) {
	s.WriteCalls.Add(1)
	if off < 0 {
		return 0, errors.New("monstore: negative offset")
	}
	s.mu.Lock()
	defer s.mu.Unlock()
	if s.roSentinel {
		s.ROWrites = append(s.ROWrites, OOR{Off: off, Len: int64(len(p)), Stack: repoStack()})
		return 0, errors.New("monstore: device is read-only")
	}
	n := len(p)
	var err error
	if off+int64(n) > s.size {
		// a device does not grow: writing past its end is an error (short write)
		if off >= s.size {
			return 0, fmt.Errorf("monstore: write at %d past end of device %d", off, s.size)
		}
		n = int(s.size - off)
		err = io.ErrShortWrite
	}
	if s.guardOn {
		outs := s.outside(off, off+int64(n))
		var changed int64
		first := int64(-1)
		for _, r := range outs {
			cur := make([]byte, r.Len())
			s.d.readAt(cur, r.Off)
			for i := range cur {
				if cur[i] != p[r.Off-off+int64(i)] {
					changed++
					if first < 0 {
						first = r.Off + int64(i)
					}
				}
			}
		}
		if changed > 0 {
			if len(s.OORs) < 64 {
				s.OORs = append(s.OORs, OOR{Off: off, Len: int64(n), FirstChanged: first, ChangedOutside: changed, Stack: repoStack()})
			}
		} else if len(outs) > 0 {
			s.Benign++
		}
	}
	if s.journalOn {
		pre := make([]byte, n)
		s.d.readAt(pre, off)
		s.Journal = append(s.Journal, JEvent{Kind: 'W', Off: off, Data: append([]byte(nil), p[:n]...), Pre: pre})
	}
	if s.logOn {
		s.Log = append(s.Log, Event{'W', off, int64(n)})
	}
	s.d.writeAt(p[:n], off)
	s.WriteBytes.Add(int64(n))
	if s.MinW < 0 || off < s.MinW {
		s.MinW = off
	}
	if off+int64(n) > s.MaxW {
		s.MaxW = off + int64(n)
	}
	return n, err
}

func (s *Store) Sync() error {
	s.Syncs.Add(1)
	s.mu.Lock()
	if s.journalOn {
		s.Journal = append(s.Journal, JEvent{Kind: 'S'})
	}
	if s.logOn {
		s.Log = append(s.Log, Event{'S', 0, 0})
	}
	s.mu.Unlock()
	return nil
}

// ---- harness-side access (not counted, not guarded) ----

// Peek reads device bytes without touching counters.
func (s *Store) Peek(off int64, n int) []byte {
	p := make([]byte, n)
	s.mu.Lock()
	defer s.mu.Unlock()
	if off+int64(n) > s.size {
		n = int(s.size - off)
		if n < 0 {
			n = 0
		}
	}
	s.d.readAt(p[:n], off)
	return p[:n]
}

// Poke writes device bytes bypassing guards and journal.
func (s *Store) Poke(p []byte, off int64) {
	s.mu.Lock()
	defer s.mu.Unlock()
	s.d.writeAt(p, off)
}

// Bytes returns the whole device (small devices only).
func (s *Store) Bytes() []byte { return s.Peek(0, int(s.size)) }

// HashRange hashes [off,end) of the device; for mem stores untouched pages hash through fill.
func (s *Store) HashRange(off, end int64) string {
	h := sha256.New()
	buf := make([]byte, 1<<20)
	for off < end {
		n := int64(len(buf))
		if end-off < n {
			n = end - off
		}
		b := s.Peek(off, int(n))
		h.Write(b)
		off += n
		_ = buf
	}
	return hex.EncodeToString(h.Sum(nil))
}

// TouchedHash hashes only written pages (page number + content) -- cheap for huge sparse devices.
func (s *Store) TouchedHash() (string, int) {
	m, ok := s.d.(*memData)
	if !ok {
		return s.HashRange(0, s.size), -1
	}
	s.mu.Lock()
	defer s.mu.Unlock()
	keys := make([]int64, 0, len(m.pages))
	for k := range m.pages {
		keys = append(keys, k)
	}
	sort.Slice(keys, func(i, j int) bool { return keys[i] < keys[j] })
	h := sha256.New()
	var z [PageSize]byte
	cnt := 0
	for _, k := range keys {
		pg := m.pages[k]
		// a page equal to its fill value does not count as touched
		s.fill(z[:], k*PageSize)
		if *pg == z {
			continue
		}
		fmt.Fprintf(h, "%d:", k)
		h.Write(pg[:])
		cnt++
	}
	return hex.EncodeToString(h.Sum(nil)), cnt
}

// ChangedOutside scans all touched pages and reports bytes that differ from their fill value
// outside the given ranges (independent confirmation of the online guard). mem stores only.
func (s *Store) ChangedOutside(allowed ...Range) (count int64, first int64) {
	first = -1
	m, ok := s.d.(*memData)
	if !ok {
		return 0, -1
	}
	s.mu.Lock()
	defer s.mu.Unlock()
	keys := make([]int64, 0, len(m.pages))
	for k := range m.pages {
		keys = append(keys, k)
	}
	sort.Slice(keys, func(i, j int) bool { return keys[i] < keys[j] })
	var z [PageSize]byte
	for _, k := range keys {
		pg := m.pages[k]
		base := k * PageSize
		s.fill(z[:], base)
		if *pg == z {
			continue
		}
		for i := 0; i < PageSize; i++ {
			if pg[i] == z[i] {
				continue
			}
			o := base + int64(i)
			in := false
			for _, a := range allowed {
				if o >= a.Off && o < a.End {
					in = true
					break
				}
			}
			if !in {
				count++
				if first < 0 {
					first = o
				}
			}
		}
	}
	return
}

// Clone copies a mem store (pages deep-copied), without monitors.
func (s *Store) Clone() *Store {
	m, ok := s.d.(*memData)
	if !ok {
		panic("Clone: mem stores only")
	}
	c := NewMem(s.size)
	c.fillOn, c.fillSeed, c.zero = s.fillOn, s.fillSeed, s.zero
	cm := c.d.(*memData)
	s.mu.Lock()
	for k, v := range m.pages {
		cp := *v
		cm.pages[k] = &cp
	}
	s.mu.Unlock()
	return c
}

// Pages returns the number of materialised pages (mem stores).
func (s *Store) Pages() int {
	if m, ok := s.d.(*memData); ok {
		s.mu.Lock()
		defer s.mu.Unlock()
		return len(m.pages)
	}
	return -1
}

// Overlay is a copy-on-write view over a base byte slice: cheap per-case corrupted images.
type Overlay struct {
	*Store
}

// NewOverlay makes a mem store whose never-written bytes read from base.
func NewOverlay(base []byte) *Store {
	s := newStore(int64(len(base)))
	s.d = &overlayData{base: base, pages: map[int64]*[PageSize]byte{}}
	return s
}

type overlayData struct {
	base  []byte
	pages map[int64]*[PageSize]byte
}

func (m *overlayData) readAt(p []byte, off int64) {
	for len(p) > 0 {
		pg := off / PageSize
		in := int(off % PageSize)
		n := PageSize - in
		if n > len(p) {
			n = len(p)
		}
		if page, ok := m.pages[pg]; ok {
			copy(p[:n], page[in:in+n])
		} else {
			c := 0
			if off < int64(len(m.base)) {
				c = copy(p[:n], m.base[off:])
			}
			for i := c; i < n; i++ {
				p[i] = 0
			}
		}
		p = p[n:]
		off += int64(n)
	}
}
func (m *overlayData) writeAt(p []byte, off int64) {
	for len(p) > 0 {
		pg := off / PageSize
		in := int(off % PageSize)
		n := PageSize - in
		if n > len(p) {
			n = len(p)
		}
		page, ok := m.pages[pg]
		if !ok {
			page = new([PageSize]byte)
			b := pg * PageSize
			if b < int64(len(m.base)) {
				copy(page[:], m.base[b:])
			}
			m.pages[pg] = page
		}
		copy(page[in:in+n], p[:n])
		p = p[n:]
		off += int64(n)
	}
}
func (m *overlayData) close() error { return nil }
