package isock

import (
	"bytes"
	"encoding/binary"
	"fmt"
	"math/rand"
	"os"
	"path/filepath"
	"sort"
	"strings"
	"testing"
	"time"
	"unicode/utf16"

	"github.com/diskfs/go-diskfs/backend/file"
	"github.com/diskfs/go-diskfs/filesystem/iso9660"
)

// ---------------------------------------------------------------------------------------------
// A tiny hand-written ISO9660 writer, only for the calibration images of this test.

const tbs = 2048

func b32(v uint32) []byte {
	b := make([]byte, 8)
	binary.LittleEndian.PutUint32(b, v)
	binary.BigEndian.PutUint32(b[4:], v)
	return b
}

func b16(v uint16) []byte {
	b := make([]byte, 4)
	binary.LittleEndian.PutUint16(b, v)
	binary.BigEndian.PutUint16(b[2:], v)
	return b
}

var recDate = []byte{120, 5, 17, 10, 30, 15, 8} // 2020-05-17 10:30:15 at GMT+2h => 08:30:15 UTC

func dirRec(name []byte, ext, size uint32, flags byte, su []byte) []byte {
	nl := len(name)
	r := make([]byte, 33)
	r = append(r, name...)
	if nl%2 == 0 {
		r = append(r, 0)
	}
	r = append(r, su...)
	if len(r)%2 == 1 {
		r = append(r, 0)
	}
	r[0] = byte(len(r))
	copy(r[2:], b32(ext))
	copy(r[10:], b32(size))
	copy(r[18:], recDate)
	r[25] = flags
	copy(r[28:], b16(1))
	r[32] = byte(nl)
	return r
}

func ucs2be(s string) []byte {
	u := utf16.Encode([]rune(s))
	b := make([]byte, 2*len(u))
	for i, c := range u {
		binary.BigEndian.PutUint16(b[2*i:], c)
	}
	return b
}

func padStr(s string, n int) []byte {
	b := bytes.Repeat([]byte{' '}, n)
	copy(b, s)
	return b
}

func volDesc(typ byte, volID string, space, ptSize, lpt, mpt, rootExt, rootSize uint32, joliet bool) []byte {
	d := make([]byte, 2048)
	d[0] = typ
	copy(d[1:], "CD001")
	d[6] = 1
	if joliet {
		copy(d[8:40], bytes.Repeat([]byte{0, ' '}, 16))
		v := bytes.Repeat([]byte{0, ' '}, 16)
		copy(v, ucs2be(volID))
		copy(d[40:72], v)
		copy(d[88:], []byte{0x25, 0x2F, 0x45})
	} else {
		copy(d[8:40], padStr("LINUX", 32))
		copy(d[40:72], padStr(volID, 32))
	}
	copy(d[80:], b32(space))
	copy(d[120:], b16(1))
	copy(d[124:], b16(1))
	copy(d[128:], b16(tbs))
	copy(d[132:], b32(ptSize))
	binary.LittleEndian.PutUint32(d[140:], lpt)
	binary.BigEndian.PutUint32(d[148:], mpt)
	copy(d[156:], dirRec([]byte{0}, rootExt, rootSize, 2, nil))
	d[881] = 1
	return d
}

func terminator() []byte {
	d := make([]byte, 2048)
	d[0] = 255
	copy(d[1:], "CD001")
	d[6] = 1
	return d
}

type ptE struct {
	name   []byte
	ext    uint32
	parent uint16
}

func pathTable(big bool, es ...ptE) []byte {
	var out []byte
	for _, e := range es {
		b := make([]byte, 8)
		b[0] = byte(len(e.name))
		if big {
			binary.BigEndian.PutUint32(b[2:], e.ext)
			binary.BigEndian.PutUint16(b[6:], e.parent)
		} else {
			binary.LittleEndian.PutUint32(b[2:], e.ext)
			binary.LittleEndian.PutUint16(b[6:], e.parent)
		}
		b = append(b, e.name...)
		if len(e.name)%2 == 1 {
			b = append(b, 0)
		}
		out = append(out, b...)
	}
	return out
}

type timg struct{ b []byte }

func newImg(blocks int) *timg { return &timg{b: make([]byte, blocks*tbs)} }
func (m *timg) put(block int, data ...[]byte) {
	o := block * tbs
	for _, d := range data {
		copy(m.b[o:], d)
		o += len(d)
	}
}
func (m *timg) reader() Reader {
	return func(off int64, n int) []byte {
		if off >= int64(len(m.b)) || off < 0 {
			return nil
		}
		e := off + int64(n)
		if e > int64(len(m.b)) {
			e = int64(len(m.b))
		}
		return m.b[off:e]
	}
}
func (m *timg) clone() *timg  { return &timg{b: append([]byte(nil), m.b...)} }
func (m *timg) parse() *Image { return Parse(m.reader(), int64(len(m.b))) }

// SUSP entry builders
func suSP() []byte { return []byte{'S', 'P', 7, 1, 0xBE, 0xEF, 0} }
func suER() []byte {
	id, desc, src := "RRIP_1991A", "ROCK RIDGE", "SPEC"
	b := []byte{'E', 'R', 0, 1, byte(len(id)), byte(len(desc)), byte(len(src)), 1}
	b = append(b, id+desc+src...)
	b[2] = byte(len(b))
	return b
}
func suPX(mode, nlink, uid, gid uint32) []byte {
	b := []byte{'P', 'X', 36, 1}
	b = append(b, b32(mode)...)
	b = append(b, b32(nlink)...)
	b = append(b, b32(uid)...)
	b = append(b, b32(gid)...)
	return b
}
func suNM(flags byte, name string) []byte {
	b := []byte{'N', 'M', byte(5 + len(name)), 1, flags}
	return append(b, name...)
}
func suTF(stamps ...[]byte) []byte { // modify, access, attributes, 7-byte form
	b := []byte{'T', 'F', 0, 1, 0x0E}
	for _, s := range stamps {
		b = append(b, s...)
	}
	b[2] = byte(len(b))
	return b
}
func suTFLong(modify string) []byte {
	b := []byte{'T', 'F', 0, 1, 0x82}
	b = append(b, modify...)
	b = append(b, 0)
	b[2] = byte(len(b))
	return b
}
func suSL(comps ...[]byte) []byte {
	b := []byte{'S', 'L', 0, 1, 0}
	for _, c := range comps {
		b = append(b, c...)
	}
	b[2] = byte(len(b))
	return b
}
func slc(flags byte, s string) []byte { return append([]byte{flags, byte(len(s))}, s...) }
func suCE(block, off, l uint32) []byte {
	b := []byte{'C', 'E', 28, 1}
	b = append(b, b32(block)...)
	b = append(b, b32(off)...)
	b = append(b, b32(l)...)
	return b
}
func suLoc(sig string, block uint32) []byte {
	return append([]byte{sig[0], sig[1], 12, 1}, b32(block)...)
}
func cat(bs ...[]byte) []byte { return bytes.Join(bs, nil) }

var helloData = []byte("hello, world\n")
var innerData = bytes.Repeat([]byte("0123456789abcdef"), 200) // 3200 bytes: two blocks

// Layout: 16 PVD, 17 terminator, 18 L table, 19 M table, 20 root, 21 SUB, 22 HELLO.TXT, 23-24 INNER.TXT, 25 spare
func plainImage() *timg {
	m := newImg(26)
	lpt := pathTable(false, ptE{[]byte{0}, 20, 1}, ptE{[]byte("SUB"), 21, 1})
	mpt := pathTable(true, ptE{[]byte{0}, 20, 1}, ptE{[]byte("SUB"), 21, 1})
	m.put(16, volDesc(1, "HANDMADE", 26, uint32(len(lpt)), 18, 19, 20, tbs, false))
	m.put(17, terminator())
	m.put(18, lpt)
	m.put(19, mpt)
	m.put(20,
		dirRec([]byte{0}, 20, tbs, 2, nil),
		dirRec([]byte{1}, 20, tbs, 2, nil),
		dirRec([]byte("EMPTY.;1"), 0, 0, 0, nil),
		dirRec([]byte("HELLO.TXT;1"), 22, uint32(len(helloData)), 0, nil),
		dirRec([]byte("SUB"), 21, tbs, 2, nil))
	m.put(21,
		dirRec([]byte{0}, 21, tbs, 2, nil),
		dirRec([]byte{1}, 20, tbs, 2, nil),
		dirRec([]byte("INNER.TXT;1"), 23, uint32(len(innerData)), 0, nil))
	m.put(22, helloData)
	m.put(23, innerData)
	return m
}

func logProblems(t *testing.T, label string, img *Image) {
	t.Helper()
	for _, p := range img.Problems {
		t.Logf("%s: PROBLEM %s", label, p)
	}
}

func rules(img *Image) map[string]int {
	m := map[string]int{}
	for _, p := range img.Problems {
		m[p.Rule]++
	}
	return m
}

func TestHandmadePlain(t *testing.T) {
	m := plainImage()
	img := m.parse()
	logProblems(t, "plain", img)
	if len(img.Problems) != 0 {
		t.Fatalf("clean hand-made image reports %d problems", len(img.Problems))
	}
	v := img.Primary
	if v == nil || img.Joliet != nil {
		t.Fatalf("primary %v joliet %v", v, img.Joliet)
	}
	if v.BlockSize != 2048 || v.VolumeSpace != 26 || v.VolumeID != "HANDMADE" || v.SystemID != "LINUX" || v.RootExtent != 20 || v.LPathTable != 18 || v.MPathTable != 19 || v.PathTableSize != 22 {
		t.Fatalf("descriptor fields wrong: %+v", v)
	}
	var paths []string
	for _, n := range v.Nodes {
		paths = append(paths, n.Path)
	}
	if got, want := strings.Join(paths, ","), "EMPTY,HELLO.TXT,SUB,SUB/INNER.TXT"; got != want {
		t.Fatalf("nodes %q want %q", got, want)
	}
	h := v.Find("HELLO.TXT")
	if h == nil || h.ISOName != "HELLO.TXT;1" || h.IsDir || h.Extent != 22 || !bytes.Equal(v.ReadFile(m.reader(), h), helloData) {
		t.Fatalf("HELLO.TXT wrong: %+v", h)
	}
	if want := time.Date(2020, 5, 17, 8, 30, 15, 0, time.UTC); !h.RecTime.Equal(want) {
		t.Fatalf("RecTime %v want %v", h.RecTime, want)
	}
	in := v.Find("SUB/INNER.TXT")
	if in == nil || !bytes.Equal(v.ReadFile(m.reader(), in), innerData) {
		t.Fatalf("INNER.TXT wrong: %+v", in)
	}
	if s := v.Find("SUB"); s == nil || !s.IsDir {
		t.Fatalf("SUB wrong")
	}
	if e := v.Find("EMPTY"); e == nil || len(v.ReadFile(m.reader(), e)) != 0 {
		t.Fatalf("EMPTY wrong")
	}
	if v.Find("NOPE") != nil {
		t.Fatalf("Find invented a node")
	}
}

func TestHandmadeBroken(t *testing.T) {
	type tc struct {
		name string
		mut  func(m *timg)
		want string
	}
	rootRec := func(m *timg, idx int) []byte { // idx-th record in the root directory
		o := 20 * tbs
		for i := 0; i < idx; i++ {
			o += int(m.b[o])
		}
		return m.b[o : o+int(m.b[o])]
	}
	cases := []tc{
		{"overlap", func(m *timg) { copy(rootRec(m, 3)[2:], b32(23)) }, "extent-overlap"},
		{"hardlink-same-extent", func(m *timg) {
			// INNER.TXT in SUB gets HELLO's extent and size
			o := 21*tbs + 34 + 34
			copy(m.b[o+2:], b32(22))
			copy(m.b[o+10:], b32(uint32(len(helloData))))
		}, "extent-overlap"},
		{"file-over-directory", func(m *timg) { copy(rootRec(m, 3)[2:], b32(21)) }, "extent-overlap"},
		{"outside-volume", func(m *timg) { copy(rootRec(m, 3)[2:], b32(1000)) }, "extent-outside-image"},
		{"outside-by-size", func(m *timg) { copy(rootRec(m, 3)[10:], b32(10*tbs)) }, "extent-outside-image"},
		{"volume-larger-than-image", func(m *timg) { copy(m.b[16*tbs+80:], b32(4000)) }, "extent-outside-image"},
		{"mismatch-datalen", func(m *timg) { rootRec(m, 3)[17] ^= 0x01 }, "both-endian-mismatch"},
		{"mismatch-extent", func(m *timg) { rootRec(m, 3)[9] ^= 0x01 }, "both-endian-mismatch"},
		{"mismatch-volseq", func(m *timg) { rootRec(m, 3)[31] ^= 0x01 }, "both-endian-mismatch"},
		{"mismatch-space", func(m *timg) { m.b[16*tbs+87] ^= 1 }, "both-endian-mismatch"},
		{"mismatch-blocksize", func(m *timg) { m.b[16*tbs+131] ^= 1 }, "both-endian-mismatch"},
		{"mismatch-ptsize", func(m *timg) { m.b[16*tbs+139] ^= 1 }, "both-endian-mismatch"},
		{"no-terminator", func(m *timg) { m.b[17*tbs] = 3 }, "no-pvd"},
		{"bad-magic", func(m *timg) { m.b[16*tbs+1] = 'X' }, "no-pvd"},
		{"no-primary", func(m *timg) { m.b[16*tbs] = 3 }, "no-pvd"},
		{"dot-wrong", func(m *timg) { copy(m.b[21*tbs+2:], b32(20)) }, "dot-entries"},
		{"dotdot-wrong", func(m *timg) { copy(m.b[21*tbs+34+2:], b32(21)) }, "dot-entries"},
		{"dot-missing", func(m *timg) { m.b[21*tbs+33] = 'A' }, "dot-entries"},
		{"short-record", func(m *timg) { rootRec(m, 3)[0] = 20 }, "record-straddles-sector"},
		{"straddle", func(m *timg) {
			// move SUB's file record to the last 20 bytes of the block so that it crosses into the next one
			rec := append([]byte(nil), m.b[21*tbs+68:21*tbs+68+44]...)
			for i := 68; i < tbs; i++ {
				m.b[21*tbs+i] = 0
			}
			// fill the gap with a long dummy record chain: keep it simple, use records of 34+ bytes
			o := 21*tbs + 68
			for o+250 < 21*tbs+tbs-20 {
				d := dirRec(bytes.Repeat([]byte("A"), 200), 0, 0, 0, nil)
				copy(m.b[o:], d)
				o += len(d)
			}
			rest := 21*tbs + tbs - 20 - o
			d := dirRec([]byte("B"), 0, 0, 0, make([]byte, rest-34))
			copy(m.b[o:], d)
			o += len(d)
			copy(m.b[o:], rec)
		}, "record-straddles-sector"},
		{"past-dir-size", func(m *timg) {
			copy(rootRec(m, 4)[10:], b32(100))
			copy(m.b[21*tbs+10:], b32(100))
		}, "record-straddles-sector"},
		{"dir-size", func(m *timg) {
			copy(rootRec(m, 4)[10:], b32(1000))
			copy(m.b[21*tbs+10:], b32(1000))
		}, "dir-size"},
		{"bad-pad", func(m *timg) { rootRec(m, 2)[33+8] = 'x' }, "record-straddles-sector"},
		{"pt-wrong-extent", func(m *timg) { m.b[18*tbs+10+2] = 99 }, "path-table"},
		{"pt-wrong-parent", func(m *timg) { m.b[18*tbs+10+6] = 2 }, "path-table"},
		{"ptM-wrong-extent", func(m *timg) { m.b[19*tbs+10+5] = 99 }, "path-table"},
		{"pt-missing-dir", func(m *timg) {
			copy(m.b[16*tbs+132:], b32(10))
		}, "path-table"},
		{"pt-size", func(m *timg) { copy(m.b[16*tbs+132:], b32(30)) }, "path-table"},
		{"dir-order", func(m *timg) {
			a := append([]byte(nil), rootRec(m, 2)...)
			b := append([]byte(nil), rootRec(m, 3)...)
			o := 20*tbs + 68
			copy(m.b[o:], b)
			copy(m.b[o+len(b):], a)
		}, "dir-order"},
		{"dup-identifier", func(m *timg) {
			copy(rootRec(m, 2)[33:], "HELLO.TX")
			r := rootRec(m, 2)
			_ = r
			// EMPTY.;1 (8 bytes) cannot become HELLO.TXT;1; make HELLO.TXT;1 -> SUB-like dup instead
		}, ""},
		{"dir-loop", func(m *timg) {
			// SUB/INNER.TXT becomes a directory record pointing back at the root
			o := 21*tbs + 68
			copy(m.b[o+2:], b32(20))
			copy(m.b[o+10:], b32(tbs))
			m.b[o+25] = 2
		}, "extent-overlap"},
	}
	for _, c := range cases {
		m := plainImage()
		c.mut(m)
		img := m.parse()
		r := rules(img)
		if c.want == "" {
			continue
		}
		if r[c.want] == 0 {
			logProblems(t, c.name, img)
			t.Errorf("%s: rule %s did not fire (got %v)", c.name, c.want, r)
		}
		if r["checker-internal"] != 0 {
			logProblems(t, c.name, img)
			t.Errorf("%s: checker-internal", c.name)
		}
	}
	// duplicate identifier
	m := plainImage()
	m.put(20,
		dirRec([]byte{0}, 20, tbs, 2, nil),
		dirRec([]byte{1}, 20, tbs, 2, nil),
		dirRec([]byte("HELLO.TXT;1"), 22, uint32(len(helloData)), 0, nil),
		dirRec([]byte("HELLO.TXT;1"), 23, 100, 0, nil),
		dirRec([]byte("SUB"), 21, tbs, 2, nil))
	if r := rules(m.parse()); r["dup-identifier"] == 0 {
		t.Errorf("dup-identifier did not fire: %v", r)
	}
}

func rrImage() *timg {
	// Layout as plainImage plus block 25: continuation area
	m := newImg(27)
	lpt := pathTable(false, ptE{[]byte{0}, 20, 1}, ptE{[]byte("SUB"), 21, 1})
	mpt := pathTable(true, ptE{[]byte{0}, 20, 1}, ptE{[]byte("SUB"), 21, 1})
	m.put(16, volDesc(1, "HANDMADE_RR", 27, uint32(len(lpt)), 18, 19, 20, tbs, false))
	m.put(17, terminator())
	m.put(18, lpt)
	m.put(19, mpt)
	dpx := suPX(040755, 2, 0, 0)
	t1 := []byte{121, 1, 2, 3, 4, 5, 0}   // 2021-01-02 03:04:05 UTC
	t2 := []byte{121, 1, 2, 3, 4, 6, 4}   // +1h => 02:04:06 UTC
	t3 := []byte{121, 1, 2, 3, 4, 7, 252} // -1h => 04:04:07 UTC
	longName := "a-rather-long-rock-ridge-name.with.dots.txt"
	ceArea := cat(suNM(0, longName[10:]), suTF(t1, t2, t3))
	m.put(25, make([]byte, 100), ceArea) // continuation area at offset 100 of block 25
	m.put(20,
		dirRec([]byte{0}, 20, tbs, 2, cat(suSP(), dpx, suER())),
		dirRec([]byte{1}, 20, tbs, 2, dpx),
		dirRec([]byte("A_RATHER.TXT;1"), 22, uint32(len(helloData)), 0,
			cat(suPX(0100644, 1, 1000, 1001), suNM(1, longName[:10]), suCE(25, 100, uint32(len(ceArea))))),
		dirRec([]byte("LINK.;1"), 0, 0, 0,
			cat(suPX(0120777, 1, 0, 0), suNM(0, "link"), suSL(slc(8, ""), slc(0, "usr"), slc(4, ""), slc(2, ""), slc(1, "sp"), slc(0, "lit")))),
		dirRec([]byte("REL.;1"), 0, 0, 0,
			cat(suPX(0120777, 1, 0, 0), suNM(0, "rel"), suSL(slc(4, ""), slc(0, "x")))),
		dirRec([]byte("SUB"), 21, tbs, 2, cat(suPX(040700, 2, 5, 6), suNM(0, "sub"), suTFLong("2022030405060750"))))
	m.put(21,
		dirRec([]byte{0}, 21, tbs, 2, dpx),
		dirRec([]byte{1}, 20, tbs, 2, dpx),
		dirRec([]byte("INNER.TXT;1"), 23, uint32(len(innerData)), 0, cat(suPX(0100600, 1, 7, 8), suNM(0, "inner.txt"))))
	m.put(22, helloData)
	m.put(23, innerData)
	return m
}

func TestHandmadeRockRidge(t *testing.T) {
	m := rrImage()
	img := m.parse()
	logProblems(t, "rr", img)
	if len(img.Problems) != 0 {
		t.Fatalf("clean hand-made RR image reports %d problems", len(img.Problems))
	}
	v := img.Primary
	if !v.HasRockRidge || len(v.EREntries) != 1 || v.EREntries[0] != "RRIP_1991A" {
		t.Fatalf("RR not detected: %+v", v)
	}
	long := "a-rather-long-rock-ridge-name.with.dots.txt"
	n := v.Find(long)
	if n == nil {
		t.Fatalf("long name not found; nodes: %+v", v.Nodes)
	}
	if n.ISOName != "A_RATHER.TXT;1" || n.RRName != long || !n.HasPX || n.Mode != 0100644 || n.Nlink != 1 || n.UID != 1000 || n.GID != 1001 {
		t.Fatalf("PX/NM wrong: %+v", n)
	}
	if !n.HasTF || !n.MTime.Equal(time.Date(2021, 1, 2, 3, 4, 5, 0, time.UTC)) || !n.ATime.Equal(time.Date(2021, 1, 2, 2, 4, 6, 0, time.UTC)) || !n.CTime.Equal(time.Date(2021, 1, 2, 4, 4, 7, 0, time.UTC)) {
		t.Fatalf("TF wrong: %v %v %v", n.MTime, n.ATime, n.CTime)
	}
	if !bytes.Equal(v.ReadFile(m.reader(), n), helloData) {
		t.Fatalf("content wrong")
	}
	l := v.Find("link")
	if l == nil || !l.IsSymlink || l.LinkTarget != "/usr/.././split" {
		t.Fatalf("symlink wrong: %+v", l)
	}
	if r := v.Find("rel"); r == nil || r.LinkTarget != "../x" {
		t.Fatalf("relative symlink wrong: %+v", r)
	}
	s := v.Find("sub")
	if s == nil || !s.IsDir || s.Mode != 040700 || s.UID != 5 || !s.MTime.Equal(time.Date(2022, 3, 4, 5, 6, 7, 500000000, time.UTC)) {
		t.Fatalf("sub wrong: %+v", s)
	}
	if in := v.Find("sub/inner.txt"); in == nil || !bytes.Equal(v.ReadFile(m.reader(), in), innerData) {
		t.Fatalf("inner wrong")
	}

	// broken RR variants
	type tc struct {
		name string
		mut  func(m *timg)
		want string
	}
	find := func(m *timg, block int, sig string, nth int) int {
		b := m.b[block*tbs : (block+1)*tbs]
		o := 0
		for k := 0; ; k++ {
			i := bytes.Index(b[o:], []byte(sig))
			if i < 0 {
				panic("sig not found " + sig)
			}
			if k == nth {
				return block*tbs + o + i
			}
			o += i + 2
		}
	}
	cases := []tc{
		{"missing-px", func(m *timg) { o := find(m, 21, "PX", 2); m.b[o], m.b[o+1] = 'Z', 'Z' }, "rr-missing-px"},
		{"entry-too-short", func(m *timg) { m.b[find(m, 21, "NM", 0)+2] = 3 }, "susp"},
		{"entry-too-long", func(m *timg) { m.b[find(m, 21, "NM", 0)+2] = 200 }, "susp"},
		{"ce-outside", func(m *timg) { copy(m.b[find(m, 20, "CE", 0)+4:], b32(5000)) }, "susp"},
		{"nm-empty", func(m *timg) {
			o := find(m, 21, "NM", 0)
			m.b[o+2] = 5
			copy(m.b[o+5:], []byte{'Z', 'Z', 9, 1, 0, 0, 0, 0, 0}) // turn the rest into an unknown entry
		}, "susp"},
		{"sl-bad-component", func(m *timg) { m.b[find(m, 20, "SL", 0)+5+1] = 200 }, "susp"},
		{"px-mismatch", func(m *timg) { m.b[find(m, 21, "PX", 2)+11] ^= 1 }, "both-endian-mismatch"},
		{"ce-overlaps-file", func(m *timg) { copy(m.b[find(m, 20, "CE", 0)+4:], b32(23)) }, "extent-overlap"},
	}
	for _, c := range cases {
		mm := rrImage()
		c.mut(mm)
		img := mm.parse()
		r := rules(img)
		if r[c.want] == 0 || r["checker-internal"] != 0 {
			logProblems(t, c.name, img)
			t.Errorf("%s: rule %s did not fire (got %v)", c.name, c.want, r)
		}
	}
}

// Relocated directory: /DEEP is a CL placeholder in the root, the real directory lives in /RR_MOVED with RE.
func TestHandmadeRelocation(t *testing.T) {
	m := newImg(30)
	// blocks: 20 root, 21 RR_MOVED, 22 DEEP (relocated), 23 file
	es := []ptE{{[]byte{0}, 20, 1}, {[]byte("RR_MOVED"), 21, 1}, {[]byte("DEEP"), 22, 2}}
	lpt, mpt := pathTable(false, es...), pathTable(true, es...)
	m.put(16, volDesc(1, "RELOC", 30, uint32(len(lpt)), 18, 19, 20, tbs, false))
	m.put(17, terminator())
	m.put(18, lpt)
	m.put(19, mpt)
	dpx := suPX(040755, 2, 0, 0)
	m.put(20,
		dirRec([]byte{0}, 20, tbs, 2, cat(suSP(), dpx, suER())),
		dirRec([]byte{1}, 20, tbs, 2, dpx),
		dirRec([]byte("DEEP.;1"), 0, 0, 0, cat(suPX(040755, 2, 0, 0), suNM(0, "deep"), suLoc("CL", 22))),
		dirRec([]byte("RR_MOVED"), 21, tbs, 2, cat(dpx, suNM(0, "rr_moved"))))
	m.put(21,
		dirRec([]byte{0}, 21, tbs, 2, dpx),
		dirRec([]byte{1}, 20, tbs, 2, dpx),
		dirRec([]byte("DEEP"), 22, tbs, 2, cat(dpx, suNM(0, "deep"), []byte{'R', 'E', 4, 1})))
	m.put(22,
		dirRec([]byte{0}, 22, tbs, 2, cat(suPX(040711, 2, 3, 4))),
		dirRec([]byte{1}, 21, tbs, 2, cat(dpx, suLoc("PL", 20))),
		dirRec([]byte("F.TXT;1"), 23, uint32(len(helloData)), 0, cat(suPX(0100644, 1, 0, 0), suNM(0, "f.txt"))))
	m.put(23, helloData)
	img := m.parse()
	logProblems(t, "reloc", img)
	if len(img.Problems) != 0 {
		t.Fatalf("clean relocation image reports problems")
	}
	v := img.Primary
	var paths []string
	for _, n := range v.Nodes {
		paths = append(paths, n.Path)
	}
	if got, want := strings.Join(paths, ","), "deep,deep/f.txt,rr_moved"; got != want {
		t.Fatalf("nodes %q want %q", got, want)
	}
	d := v.Find("deep")
	if !d.IsDir || !d.Relocated || d.Extent != 22 || d.Size != tbs {
		t.Fatalf("deep wrong: %+v", d)
	}
	if f := v.Find("deep/f.txt"); f == nil || !bytes.Equal(v.ReadFile(m.reader(), f), helloData) {
		t.Fatalf("deep/f.txt wrong")
	}
	for name, mut := range map[string]func(mm *timg){
		"pl-missing": func(mm *timg) { o := bytes.Index(mm.b[22*tbs:], []byte("PL")) + 22*tbs; mm.b[o], mm.b[o+1] = 'Z', 'Z' },
		"pl-wrong":   func(mm *timg) { o := bytes.Index(mm.b[22*tbs:], []byte("PL")) + 22*tbs; copy(mm.b[o+4:], b32(21)) },
		"re-missing": func(mm *timg) { o := bytes.Index(mm.b[21*tbs:], []byte("RE")) + 21*tbs; mm.b[o], mm.b[o+1] = 'Z', 'Z' },
		"cl-missing": func(mm *timg) { o := bytes.Index(mm.b[20*tbs:], []byte("CL")) + 20*tbs; mm.b[o], mm.b[o+1] = 'Z', 'Z' },
	} {
		mm := m.clone()
		mut(mm)
		if r := rules(mm.parse()); r["rr-relocation"] == 0 || r["checker-internal"] != 0 {
			t.Errorf("%s: rr-relocation did not fire: %v", name, r)
		}
	}
}

func TestHandmadeJoliet(t *testing.T) {
	// plain image plus SVD: 16 PVD, 17 SVD, 18 terminator, 19 L, 20 M (primary), 21 root, 22 SUB, 23 HELLO, 24-25 INNER,
	// 26 JL, 27 JM, 28 Jroot, 29 Jsub
	m := newImg(31)
	es := []ptE{{[]byte{0}, 21, 1}, {[]byte("SUB"), 22, 1}}
	jes := []ptE{{[]byte{0}, 28, 1}, {ucs2be("Sub dir"), 29, 1}}
	lpt, mpt := pathTable(false, es...), pathTable(true, es...)
	jl, jm := pathTable(false, jes...), pathTable(true, jes...)
	m.put(16, volDesc(1, "JOLIETVOL", 31, uint32(len(lpt)), 19, 20, 21, tbs, false))
	m.put(17, volDesc(2, "JolietVol", 31, uint32(len(jl)), 26, 27, 28, tbs, true))
	m.put(18, terminator())
	m.put(19, lpt)
	m.put(20, mpt)
	m.put(26, jl)
	m.put(27, jm)
	m.put(21,
		dirRec([]byte{0}, 21, tbs, 2, nil),
		dirRec([]byte{1}, 21, tbs, 2, nil),
		dirRec([]byte("HELLO.TXT;1"), 23, uint32(len(helloData)), 0, nil),
		dirRec([]byte("SUB"), 22, tbs, 2, nil))
	m.put(22,
		dirRec([]byte{0}, 22, tbs, 2, nil),
		dirRec([]byte{1}, 21, tbs, 2, nil),
		dirRec([]byte("INNER.TXT;1"), 24, uint32(len(innerData)), 0, nil))
	m.put(28,
		dirRec([]byte{0}, 28, tbs, 2, nil),
		dirRec([]byte{1}, 28, tbs, 2, nil),
		dirRec(ucs2be("Hello World é世.txt;1"), 23, uint32(len(helloData)), 0, nil),
		dirRec(ucs2be("Sub dir"), 29, tbs, 2, nil))
	m.put(29,
		dirRec([]byte{0}, 29, tbs, 2, nil),
		dirRec([]byte{1}, 28, tbs, 2, nil),
		dirRec(ucs2be("inner file.txt;1"), 24, uint32(len(innerData)), 0, nil))
	m.put(23, helloData)
	m.put(24, innerData)
	img := m.parse()
	logProblems(t, "joliet", img)
	if len(img.Problems) != 0 {
		t.Fatalf("clean joliet image reports problems")
	}
	j := img.Joliet
	if j == nil || j.VolumeID != "JolietVol" {
		t.Fatalf("joliet volume: %+v", j)
	}
	n := j.Find("Hello World é世.txt")
	if n == nil || !bytes.Equal(j.ReadFile(m.reader(), n), helloData) {
		t.Fatalf("joliet file wrong; %+v", j.Nodes)
	}
	if n := j.Find("Sub dir/inner file.txt"); n == nil || !bytes.Equal(j.ReadFile(m.reader(), n), innerData) {
		t.Fatalf("joliet inner wrong")
	}
	// joliet directory overlapping a primary file
	mm := m.clone()
	o := 28*tbs + 34 + 34
	o += int(mm.b[o])
	copy(mm.b[o+2:], b32(24)) // "Sub dir" now sits on INNER.TXT's data
	copy(mm.b[27*tbs+10+2:], []byte{0, 0, 0, 24})
	copy(mm.b[26*tbs+10+2:], []byte{24, 0, 0, 0})
	if r := rules(mm.parse()); r["extent-overlap"] == 0 {
		t.Errorf("joliet dir over primary file not reported: %v", r)
	}
	// odd identifier length
	mm = m.clone()
	o = 29*tbs + 68
	mm.b[o+32] = 31
	if r := rules(mm.parse()); r["joliet-name"] == 0 {
		t.Errorf("joliet-name did not fire: %v", r)
	}
}

// Descriptors of a 4096-byte-block image at 16*4096.
func TestHandmadeDescriptorPlacement(t *testing.T) {
	m := plainImage()
	big := make([]byte, 70*1024+len(m.b))
	// move descriptors to 65536 with a 4096 stride, leave everything else as 2048 blocks
	copy(big, m.b)
	for i := 32768; i < 32768+4096; i++ {
		big[i] = 0
	}
	pv := append([]byte(nil), m.b[16*tbs:17*tbs]...)
	copy(pv[80:], b32(uint32(len(big)/tbs)))
	copy(big[65536:], pv)
	copy(big[65536+4096:], m.b[17*tbs:18*tbs])
	// tree blocks 18..25 are untouched (before 65536)
	mm := &timg{b: big}
	img := mm.parse()
	logProblems(t, "placement", img)
	if img.Primary == nil || img.DescBase != 65536 || img.DescStride != 4096 || img.Primary.Find("SUB/INNER.TXT") == nil {
		t.Fatalf("descriptor placement: base %d stride %d", img.DescBase, img.DescStride)
	}
}

func TestNeverPanicsOrHangs(t *testing.T) {
	rng := rand.New(rand.NewSource(1))
	bases := []*timg{plainImage(), rrImage()}
	deadline := time.Now().Add(60 * time.Second)
	for iter := 0; iter < 4000 && time.Now().Before(deadline); iter++ {
		m := bases[iter%2].clone()
		k := 1 + rng.Intn(8)
		for i := 0; i < k; i++ {
			// mutate inside the interesting blocks 16..25
			o := 16*tbs + rng.Intn(10*tbs)
			switch rng.Intn(3) {
			case 0:
				m.b[o] = byte(rng.Intn(256))
			case 1:
				m.b[o] ^= 1 << uint(rng.Intn(8))
			case 2:
				m.b[o] = 0xFF
			}
		}
		sz := int64(len(m.b))
		if rng.Intn(10) == 0 {
			sz = int64(rng.Intn(len(m.b)))
		}
		done := make(chan *Image, 1)
		go func() { done <- Parse(m.reader(), sz) }()
		select {
		case img := <-done:
			if r := rules(img); r["checker-internal"] != 0 {
				logProblems(t, fmt.Sprintf("iter %d", iter), img)
				t.Fatalf("iter %d: checker-internal", iter)
			}
		case <-time.After(20 * time.Second):
			t.Fatalf("iter %d: Parse hangs", iter)
		}
	}
	// a directory that is its own child and huge sizes
	m := plainImage()
	copy(m.b[20*tbs+10:], b32(0xFFFFF800))
	copy(m.b[16*tbs+156+10:], b32(0xFFFFF800))
	img := m.parse()
	if rules(img)["checker-internal"] != 0 {
		t.Fatalf("checker-internal on huge dir")
	}
	if Parse(nil, 0) == nil || Parse(func(int64, int) []byte { return nil }, 1<<40) == nil {
		t.Fatalf("nil image")
	}
}

// ---------------------------------------------------------------------------------------------
// Images made by the library under test. Problems are logged, not failed.

type libFile struct {
	path string
	data []byte
}

func pattern(n int, seed byte) []byte {
	b := make([]byte, n)
	for i := range b {
		b[i] = byte(i*7) ^ seed
	}
	return b
}

func libTree() (dirs []string, files []libFile) {
	dirs = []string{"a/b/c/d", "many", "long", "emptydir"}
	files = []libFile{
		{"a/b/file.txt", pattern(5000, 1)},
		{"a/empty.dat", nil},
		{"a/one.bin", pattern(1, 2)},
		{"a/b/c/d/block.bin", pattern(2048, 3)},
		{"top.txt", pattern(100, 4)},
		{"long/this-is-a-very-long-filename-indeed.extension", pattern(300, 5)},
		{"long/this-is-a-very-long-filename-too.extension", pattern(301, 6)},
		{"long/Mixed Case and spaces.txt", pattern(302, 7)},
		{"long/no_extension_but_long_name", pattern(303, 8)},
		{"long/multi.dot.name.tar.gz", pattern(305, 10)},
	}
	for i := 0; i < 100; i++ {
		files = append(files, libFile{fmt.Sprintf("many/f%03d.txt", i), pattern(i*37, byte(i))})
	}
	return
}

type buildOpts struct {
	bs        int64
	opts      iso9660.FinalizeOptions
	symlink   bool
	dotfile   bool
	longnames bool
	deep      int // extra directory nesting depth (0 = none)
	truncSize int64
}

// buildLib creates an image with the library; it returns the image path or an error. Runs with a timeout because
// library code may hang.
func buildLib(t *testing.T, name string, bo buildOpts) (string, []libFile, []string, error) {
	t.Helper()
	dir := t.TempDir()
	if keep := os.Getenv("ISOCK_KEEP"); keep != "" { // keep images for hexdump analysis
		dir = filepath.Join(keep, strings.ReplaceAll(t.Name(), "/", "_"))
		os.RemoveAll(dir)
		if err := os.MkdirAll(dir, 0o755); err != nil {
			t.Fatal(err)
		}
	}
	t.Setenv("TMPDIR", dir)
	imgPath := filepath.Join(dir, name+".iso")
	ws := filepath.Join(dir, "ws")
	if err := os.Mkdir(ws, 0o755); err != nil {
		t.Fatal(err)
	}
	dirs, files := libTree()
	if bo.dotfile {
		files = append(files, libFile{"long/.hidden", pattern(304, 9)})
	}
	if bo.longnames {
		files = append(files,
			libFile{"long/" + strings.Repeat("n", 100) + ".txt", pattern(400, 20)},
			libFile{"long/" + strings.Repeat("x", 180) + ".data", pattern(401, 21)},
			libFile{"long/" + strings.Repeat("y", 250), pattern(402, 22)},
			libFile{"long/" + strings.Repeat("j", 60) + ".j64", pattern(403, 23)},
			libFile{"long/" + strings.Repeat("k", 61) + ".k65", pattern(404, 24)},
			libFile{"long/unicode-\u00e9\u4e16\u754c.txt", pattern(405, 25)})
	}
	if bo.deep > 0 {
		p := "deep"
		for i := 1; i <= bo.deep; i++ {
			p += fmt.Sprintf("/l%d", i)
		}
		dirs = append(dirs, p)
		files = append(files, libFile{p + "/bottom.txt", pattern(777, 11)})
	}
	type res struct{ err error }
	ch := make(chan res, 1)
	go func() {
		defer func() {
			if r := recover(); r != nil {
				ch <- res{fmt.Errorf("library panic: %v", r)}
			}
		}()
		f, err := os.OpenFile(imgPath, os.O_CREATE|os.O_RDWR, 0o600)
		if err != nil {
			ch <- res{err}
			return
		}
		defer f.Close()
		if bo.truncSize == 0 {
			bo.truncSize = 64 << 20
		}
		if err := f.Truncate(bo.truncSize); err != nil {
			ch <- res{err}
			return
		}
		fs, err := iso9660.Create(file.New(f, false), 0, 0, bo.bs, ws)
		if err != nil {
			ch <- res{fmt.Errorf("Create: %w", err)}
			return
		}
		for _, d := range dirs {
			if err := fs.Mkdir(d); err != nil {
				ch <- res{fmt.Errorf("Mkdir %s: %w", d, err)}
				return
			}
		}
		for _, lf := range files {
			rw, err := fs.OpenFile(lf.path, os.O_CREATE|os.O_RDWR)
			if err != nil {
				ch <- res{fmt.Errorf("OpenFile %s: %w", lf.path, err)}
				return
			}
			if len(lf.data) > 0 {
				if _, err := rw.Write(lf.data); err != nil {
					ch <- res{fmt.Errorf("Write %s: %w", lf.path, err)}
					return
				}
			}
			if err := rw.Close(); err != nil {
				ch <- res{fmt.Errorf("Close %s: %w", lf.path, err)}
				return
			}
		}
		if bo.symlink {
			if err := os.Symlink("b/file.txt", filepath.Join(fs.Workspace(), "a", "link")); err != nil {
				ch <- res{err}
				return
			}
			if err := os.Symlink("/abs/../target/./x", filepath.Join(fs.Workspace(), "abslink")); err != nil {
				ch <- res{err}
				return
			}
		}
		if bo.longnames && bo.symlink {
			if err := os.Symlink(strings.Repeat("seg/", 70)+"end", filepath.Join(fs.Workspace(), "longlink")); err != nil {
				ch <- res{err}
				return
			}
			if err := os.Symlink(strings.Repeat("c", 251), filepath.Join(fs.Workspace(), "longcomponent")); err != nil {
				ch <- res{err}
				return
			}
		}
		if err := fs.Finalize(bo.opts); err != nil {
			ch <- res{fmt.Errorf("Finalize: %w", err)}
			return
		}
		ch <- res{nil}
	}()
	select {
	case r := <-ch:
		return imgPath, files, dirs, r.err
	case <-time.After(120 * time.Second):
		return imgPath, files, dirs, fmt.Errorf("library build timed out (hang)")
	}
}

func fileReader(t *testing.T, path string) (Reader, int64, func()) {
	f, err := os.Open(path)
	if err != nil {
		t.Fatal(err)
	}
	st, _ := f.Stat()
	return func(off int64, n int) []byte {
		b := make([]byte, n)
		k, _ := f.ReadAt(b, off)
		return b[:k]
	}, st.Size(), func() { f.Close() }
}

func summarize(t *testing.T, label string, img *Image) {
	t.Helper()
	t.Logf("%s: descBase=%d stride=%d types=%v bootcat=%d", label, img.DescBase, img.DescStride, img.DescTypes, img.BootCatalog)
	for _, v := range []*Volume{img.Primary, img.Joliet} {
		if v == nil {
			continue
		}
		t.Logf("%s: volume joliet=%v desc@%d bs=%d space=%d volid=%q sysid=%q ptsize=%d L=%d M=%d root=%d/%d rr=%v er=%v nodes=%d",
			label, v.Joliet, v.DescOffset, v.BlockSize, v.VolumeSpace, v.VolumeID, v.SystemID, v.PathTableSize, v.LPathTable, v.MPathTable, v.RootExtent, v.RootSize, v.HasRockRidge, v.EREntries, len(v.Nodes))
	}
	byRule := map[string]int{}
	for _, p := range img.Problems {
		byRule[p.Rule]++
	}
	var ks []string
	for k := range byRule {
		ks = append(ks, k)
	}
	sort.Strings(ks)
	for _, k := range ks {
		t.Logf("%s: RULE %s x%d", label, k, byRule[k])
	}
	shown := map[string]int{}
	for _, p := range img.Problems {
		shown[p.Rule]++
		if shown[p.Rule] <= 6 {
			t.Logf("%s: PROBLEM %s", label, p)
		}
	}
	if byRule["checker-internal"] != 0 {
		t.Errorf("%s: checker-internal", label)
	}
}

// compareExact checks that every expected file is found under its exact path with exact content in v.
func compareExact(t *testing.T, label string, v *Volume, rd Reader, files []libFile, dirs []string) {
	t.Helper()
	if v == nil {
		t.Logf("%s: no volume", label)
		return
	}
	missing, bad := 0, 0
	for _, lf := range files {
		n := v.Find(lf.path)
		if n == nil {
			missing++
			if missing <= 8 {
				t.Logf("%s: NOTFOUND file %q", label, lf.path)
			}
			continue
		}
		got := v.ReadFile(rd, n)
		if !bytes.Equal(got, lf.data) {
			bad++
			t.Logf("%s: CONTENT MISMATCH %q: size %d want %d (extent %d)", label, lf.path, len(got), len(lf.data), n.Extent)
		}
	}
	for _, d := range dirs {
		p := ""
		for _, part := range strings.Split(d, "/") {
			p = joinPath(p, part)
			if n := v.Find(p); n == nil || !n.IsDir {
				t.Logf("%s: NOTFOUND dir %q", label, p)
			}
		}
	}
	t.Logf("%s: exact-path comparison: %d files expected, %d not found, %d content mismatches, %d nodes in tree", label, len(files), missing, bad, len(v.Nodes))
}

// compareByContent checks (for trees with mangled names) that each expected file's bytes exist in some node.
func compareByContent(t *testing.T, label string, v *Volume, rd Reader, files []libFile) {
	t.Helper()
	if v == nil {
		return
	}
	have := map[string][]string{}
	nfiles := 0
	for i := range v.Nodes {
		n := &v.Nodes[i]
		if n.IsDir {
			continue
		}
		nfiles++
		have[string(v.ReadFile(rd, n))] = append(have[string(v.ReadFile(rd, n))], n.Path)
	}
	miss := 0
	for _, lf := range files {
		if len(have[string(lf.data)]) == 0 {
			miss++
			t.Logf("%s: NO NODE WITH CONTENT OF %q (%d bytes)", label, lf.path, len(lf.data))
		}
	}
	t.Logf("%s: content comparison: %d expected files, %d file nodes, %d contents missing", label, len(files), nfiles, miss)
	for _, lf := range files {
		if strings.HasPrefix(lf.path, "long/") || strings.HasPrefix(lf.path, "a/") {
			t.Logf("%s: %q stored as %v", label, lf.path, have[string(lf.data)])
		}
	}
}

func TestLibraryImages(t *testing.T) {
	variants := []struct {
		name string
		bo   buildOpts
	}{
		{"plain", buildOpts{bs: 2048, opts: iso9660.FinalizeOptions{VolumeIdentifier: "VOL"}}},
		{"plain-dotfile", buildOpts{bs: 2048, dotfile: true, opts: iso9660.FinalizeOptions{VolumeIdentifier: "VOL"}}},
		{"rockridge", buildOpts{bs: 2048, symlink: true, dotfile: true, opts: iso9660.FinalizeOptions{RockRidge: true, VolumeIdentifier: "VOL"}}},
		{"joliet", buildOpts{bs: 2048, opts: iso9660.FinalizeOptions{Joliet: true, VolumeIdentifier: "VOL"}}},
		{"rr+joliet", buildOpts{bs: 2048, symlink: true, opts: iso9660.FinalizeOptions{RockRidge: true, Joliet: true, VolumeIdentifier: "VOL"}}},
		{"plain-symlink", buildOpts{bs: 2048, symlink: true, opts: iso9660.FinalizeOptions{VolumeIdentifier: "VOL"}}},
		{"rr-deep10-relocate", buildOpts{bs: 2048, deep: 10, opts: iso9660.FinalizeOptions{RockRidge: true}}},
		{"rr-deep10-deepdirs", buildOpts{bs: 2048, deep: 10, opts: iso9660.FinalizeOptions{RockRidge: true, DeepDirectories: true}}},
		{"plain-deep10", buildOpts{bs: 2048, deep: 10, opts: iso9660.FinalizeOptions{}}},
		{"plain-deep10-deepdirs", buildOpts{bs: 2048, deep: 10, opts: iso9660.FinalizeOptions{DeepDirectories: true}}},
		{"rr-bs4096", buildOpts{bs: 4096, opts: iso9660.FinalizeOptions{RockRidge: true}}},
		{"rr-bs8192", buildOpts{bs: 8192, opts: iso9660.FinalizeOptions{RockRidge: true}}},
		{"plain-bs4096", buildOpts{bs: 4096, opts: iso9660.FinalizeOptions{}}},
		{"joliet-bs4096", buildOpts{bs: 4096, opts: iso9660.FinalizeOptions{Joliet: true}}},
		{"rr-longnames", buildOpts{bs: 2048, symlink: true, longnames: true, opts: iso9660.FinalizeOptions{RockRidge: true}}},
		{"joliet-longnames", buildOpts{bs: 2048, longnames: true, opts: iso9660.FinalizeOptions{Joliet: true}}},
		{"rr-small-backing-file", buildOpts{bs: 2048, truncSize: 4096, opts: iso9660.FinalizeOptions{RockRidge: true}}},
	}
	for _, vr := range variants {
		vr := vr
		t.Run(vr.name, func(t *testing.T) {
			path, files, dirs, err := buildLib(t, "img", vr.bo)
			if err != nil {
				t.Logf("%s: LIBRARY BUILD ERROR: %v", vr.name, err)
				return
			}
			rd, size, closeFn := fileReader(t, path)
			defer closeFn()
			t.Logf("%s: image file size %d", vr.name, size)
			img := Parse(rd, size)
			summarize(t, vr.name, img)
			if img.Primary == nil {
				return
			}
			if vr.bo.opts.RockRidge {
				compareExact(t, vr.name+"/primary", img.Primary, rd, files, dirs)
				if vr.bo.symlink {
					for _, p := range []string{"a/link", "abslink", "longlink", "longcomponent"} {
						if !vr.bo.longnames && strings.HasPrefix(p, "long") {
							continue
						}
						n := img.Primary.Find(p)
						if n == nil {
							t.Logf("%s: NOTFOUND symlink %q", vr.name, p)
						} else {
							t.Logf("%s: symlink %q -> %q (IsSymlink %v mode %o size %d)", vr.name, p, n.LinkTarget, n.IsSymlink, n.Mode, n.Size)
						}
					}
				}
				if n := img.Primary.Find("a/b/file.txt"); n != nil {
					t.Logf("%s: a/b/file.txt iso=%q mode=%o nlink=%d uid=%d gid=%d mtime=%v atime=%v ctime=%v rectime=%v", vr.name, n.ISOName, n.Mode, n.Nlink, n.UID, n.GID, n.MTime, n.ATime, n.CTime, n.RecTime)
				}
				if n := img.Primary.Find("a/b"); n != nil {
					t.Logf("%s: a/b iso=%q mode=%o nlink=%d", vr.name, n.ISOName, n.Mode, n.Nlink)
				}
			} else {
				compareByContent(t, vr.name+"/primary", img.Primary, rd, files)
			}
			if vr.bo.opts.Joliet {
				compareExact(t, vr.name+"/joliet", img.Joliet, rd, files, dirs)
			}
			if vr.bo.deep > 0 {
				for i := range img.Primary.Nodes {
					n := &img.Primary.Nodes[i]
					if n.Relocated || strings.HasSuffix(n.Path, "bottom.txt") || strings.EqualFold(filepath.Base(n.Path), "rr_moved") {
						t.Logf("%s: node %q iso=%q dir=%v relocated=%v extent=%d", vr.name, n.Path, n.ISOName, n.IsDir, n.Relocated, n.Extent)
					}
				}
			}
		})
	}
}
