// Package isock is an independent reader and consistency checker for ISO9660 (ECMA-119) images with
// Rock Ridge (SUSP 1.12 / RRIP 1.12) and Joliet support. It is written from the field layouts in those
// specifications and shares no code with go-diskfs.
package isock

import (
	"bytes"
	"encoding/binary"
	"fmt"
	"sort"
	"strings"
	"time"
	"unicode/utf16"
)

// Reader returns n bytes at image-relative byte offset off (fewer at end of image).
type Reader func(off int64, n int) []byte

type Problem struct {
	Rule   string
	Detail string
	Path   string
}

func (p Problem) String() string { return fmt.Sprintf("%s [%s] %s", p.Rule, p.Path, p.Detail) }

// Extent is one file section of a multi-extent file.
type Extent struct {
	Block uint32
	Size  uint32
}

type Node struct {
	Path    string
	ISOName string
	RRName  string
	IsDir   bool
	Extent  uint32
	Size    uint32
	Flags   byte
	RecTime time.Time
	// Rock Ridge
	HasPX               bool
	Mode                uint32
	Nlink, UID, GID     uint32
	HasTF               bool
	MTime, ATime, CTime time.Time
	IsSymlink           bool
	LinkTarget          string
	Relocated           bool
	RecOffset           int64

	// Additions to the requested API.
	Extents   []Extent // all file sections when the file is recorded as a multi-extent file (nil otherwise)
	TotalSize int64    // sum of all file sections (== Size for ordinary files)
	XAttrLen  byte     // extended attribute record length in blocks (data starts after it)
	VolSeq    uint16   // volume sequence number of the record
}

type Volume struct {
	BlockSize              int
	VolumeSpace            uint32
	VolumeID               string
	SystemID               string
	PathTableSize          uint32
	LPathTable, MPathTable uint32
	RootExtent, RootSize   uint32
	HasRockRidge           bool
	Nodes                  []Node

	// Additions to the requested API.
	DescOffset int64    // image-relative byte offset of the volume descriptor
	Joliet     bool     // true for the tree of a Joliet supplementary descriptor
	EREntries  []string // extension identifiers announced by ER entries in the root "." record

	index map[string]int
}

type Image struct {
	Primary  *Volume
	Joliet   *Volume
	Problems []Problem

	// Additions to the requested API.
	DescBase    int64  // where the first volume descriptor was found (32768, 65536 or 131072)
	DescStride  int    // distance between consecutive descriptors
	DescTypes   []byte // descriptor types in the order found, terminator included
	BootCatalog uint32 // El Torito boot catalog block from a type 0 descriptor (0 if none)
}

const (
	maxDepth    = 64
	maxRecords  = 2000000
	maxProblems = 20000
)

// ReadFile returns the Size bytes of a file node's extent (all sections for a multi-extent file).
func (v *Volume) ReadFile(rd Reader, n *Node) []byte {
	if v == nil || n == nil || rd == nil {
		return nil
	}
	bs := int64(v.BlockSize)
	if len(n.Extents) > 0 {
		var out []byte
		for _, e := range n.Extents {
			out = append(out, rd((int64(e.Block)+int64(n.XAttrLen))*bs, int(e.Size))...)
		}
		return out
	}
	if n.Size == 0 {
		return []byte{}
	}
	return rd((int64(n.Extent)+int64(n.XAttrLen))*bs, int(n.Size))
}

// Find returns the node with the given path (exact match), or nil.
func (v *Volume) Find(path string) *Node {
	if v == nil {
		return nil
	}
	if v.index != nil {
		if i, ok := v.index[path]; ok && i < len(v.Nodes) && v.Nodes[i].Path == path {
			return &v.Nodes[i]
		}
	}
	for i := range v.Nodes {
		if v.Nodes[i].Path == path {
			return &v.Nodes[i]
		}
	}
	return nil
}

// Children returns the nodes directly inside dir ("" for the root), in record order.
func (v *Volume) Children(dir string) []*Node {
	var out []*Node
	for i := range v.Nodes {
		p := v.Nodes[i].Path
		if dir == "" {
			if !strings.Contains(p, "/") {
				out = append(out, &v.Nodes[i])
			}
			continue
		}
		if strings.HasPrefix(p, dir+"/") && !strings.Contains(p[len(dir)+1:], "/") {
			out = append(out, &v.Nodes[i])
		}
	}
	return out
}

// ---------------------------------------------------------------------------------------------

type parser struct {
	rd      Reader
	size    int64
	img     *Image
	records int
	limited bool
	descEnd int64
}

func (p *parser) prob(rule, path, format string, a ...interface{}) {
	if len(p.img.Problems) >= maxProblems {
		return
	}
	p.img.Problems = append(p.img.Problems, Problem{Rule: rule, Path: path, Detail: fmt.Sprintf(format, a...)})
}

func (p *parser) read(off int64, n int) []byte {
	if off < 0 || n <= 0 || off >= p.size {
		return nil
	}
	if int64(n) > p.size-off {
		n = int(p.size - off)
	}
	b := p.rd(off, n)
	if len(b) > n {
		b = b[:n]
	}
	return b
}

func both32(b []byte) (uint32, bool) {
	le := binary.LittleEndian.Uint32(b[0:4])
	be := binary.BigEndian.Uint32(b[4:8])
	return le, le == be
}

func both16(b []byte) (uint16, bool) {
	le := binary.LittleEndian.Uint16(b[0:2])
	be := binary.BigEndian.Uint16(b[2:4])
	return le, le == be
}

func isDesc(b []byte) bool {
	return len(b) >= 7 && string(b[1:6]) == "CD001"
}

// Parse reads the volume descriptor set and walks the primary and the Joliet tree.
func Parse(rd Reader, imageSize int64) (img *Image) {
	img = &Image{}
	p := &parser{rd: rd, size: imageSize, img: img}
	defer func() {
		if r := recover(); r != nil {
			img.Problems = append(img.Problems, Problem{Rule: "checker-internal", Detail: fmt.Sprintf("panic: %v", r)})
		}
	}()
	if rd == nil {
		p.prob("no-pvd", "", "no reader")
		return img
	}
	p.run()
	return img
}

func (p *parser) run() {
	base := int64(-1)
	for _, cand := range []int64{32768, 16 * 4096, 16 * 8192} {
		if isDesc(p.read(cand, 2048)) {
			base = cand
			break
		}
	}
	if base < 0 {
		p.prob("no-pvd", "", "no volume descriptor with magic CD001 at 32768, 65536 or 131072")
		return
	}
	p.img.DescBase = base
	stride := 0
	off := base
	var pvd, svd []byte
	var pvdOff, svdOff int64
	terminated := false
	for i := 0; i < 128; i++ {
		b := p.read(off, 2048)
		if !isDesc(b) || len(b) < 2048 {
			if i == 1 && stride == 0 {
				// descriptors may be spaced one logical sector apart when the sector is larger than 2048
				found := false
				for _, s := range []int{4096, 8192} {
					if c := p.read(base+int64(s), 2048); isDesc(c) && len(c) == 2048 {
						stride, off, found = s, base+int64(s), true
						break
					}
				}
				if found {
					i--
					continue
				}
			}
			break
		}
		if i == 1 && stride == 0 {
			stride = 2048
		}
		p.img.DescTypes = append(p.img.DescTypes, b[0])
		switch b[0] {
		case 0:
			if strings.HasPrefix(string(b[7:39]), "EL TORITO SPECIFICATION") {
				p.img.BootCatalog = binary.LittleEndian.Uint32(b[71:75])
			}
		case 1:
			if pvd == nil {
				pvd, pvdOff = b, off
			}
		case 2:
			esc := b[88:120]
			if svd == nil && len(esc) >= 3 && esc[0] == 0x25 && esc[1] == 0x2F && (esc[2] == 0x40 || esc[2] == 0x43 || esc[2] == 0x45) {
				svd, svdOff = b, off
			}
		case 255:
			terminated = true
		}
		s := stride
		if s == 0 {
			s = 2048
		}
		off += int64(s)
		if terminated {
			break
		}
	}
	if stride == 0 {
		stride = 2048
	}
	p.img.DescStride = stride
	p.descEnd = off
	if !terminated {
		p.prob("no-pvd", "", "volume descriptor set starting at %d has no terminator (types seen %v)", base, p.img.DescTypes)
	}
	if pvd == nil {
		p.prob("no-pvd", "", "no primary volume descriptor in the set at %d (types seen %v)", base, p.img.DescTypes)
		return
	}
	if pvd[6] != 1 {
		p.prob("no-pvd", "", "primary volume descriptor version is %d, want 1", pvd[6])
	}
	var pw, jw *walker
	p.img.Primary, pw = p.volume(pvd, pvdOff, false)
	if svd != nil {
		p.img.Joliet, jw = p.volume(svd, svdOff, true)
	}
	p.crossOverlaps(pw, jw)
}

func trimID(b []byte) string {
	return strings.TrimRight(string(b), " \x00")
}

func ucs2(b []byte) string {
	u := make([]uint16, 0, len(b)/2)
	for i := 0; i+1 < len(b); i += 2 {
		u = append(u, binary.BigEndian.Uint16(b[i:]))
	}
	return string(utf16.Decode(u))
}

func (p *parser) volume(d []byte, doff int64, joliet bool) (*Volume, *walker) {
	v := &Volume{DescOffset: doff, Joliet: joliet}
	tag := "PVD"
	if joliet {
		tag = "SVD(joliet)"
	}
	if joliet {
		v.SystemID = strings.TrimRight(ucs2(d[8:40]), " \x00")
		v.VolumeID = strings.TrimRight(ucs2(d[40:72]), " \x00")
	} else {
		v.SystemID = trimID(d[8:40])
		v.VolumeID = trimID(d[40:72])
	}
	var ok bool
	if v.VolumeSpace, ok = both32(d[80:88]); !ok {
		p.prob("both-endian-mismatch", "", "%s volume space size: LE %d BE %d", tag, binary.LittleEndian.Uint32(d[80:]), binary.BigEndian.Uint32(d[84:]))
	}
	if _, ok = both16(d[120:124]); !ok {
		p.prob("both-endian-mismatch", "", "%s volume set size: % x", tag, d[120:124])
	}
	if _, ok = both16(d[124:128]); !ok {
		p.prob("both-endian-mismatch", "", "%s volume sequence number: % x", tag, d[124:128])
	}
	bs16, ok := both16(d[128:132])
	if !ok {
		p.prob("both-endian-mismatch", "", "%s logical block size: % x", tag, d[128:132])
	}
	v.BlockSize = int(bs16)
	if v.PathTableSize, ok = both32(d[132:140]); !ok {
		p.prob("both-endian-mismatch", "", "%s path table size: % x", tag, d[132:140])
	}
	v.LPathTable = binary.LittleEndian.Uint32(d[140:144])
	v.MPathTable = binary.BigEndian.Uint32(d[148:152])
	root := d[156:190]
	if root[0] != 34 {
		p.prob("record-straddles-sector", "", "%s root directory record length is %d, want 34", tag, root[0])
	}
	if v.RootExtent, ok = both32(root[2:10]); !ok {
		p.prob("both-endian-mismatch", "", "%s root record extent: % x", tag, root[2:10])
	}
	if v.RootSize, ok = both32(root[10:18]); !ok {
		p.prob("both-endian-mismatch", "", "%s root record data length: % x", tag, root[10:18])
	}
	if _, ok = both16(root[28:32]); !ok {
		p.prob("both-endian-mismatch", "", "%s root record volume sequence number: % x", tag, root[28:32])
	}
	if root[25]&0x02 == 0 {
		p.prob("dot-entries", "", "%s root directory record does not have the directory flag (flags %#x)", tag, root[25])
	}
	bs := v.BlockSize
	if bs < 512 || bs > 32768 || bs&(bs-1) != 0 {
		p.prob("no-pvd", "", "%s logical block size %d is not a power of two in [512, 32768]; tree not walked", tag, bs)
		return v, nil
	}
	if int64(v.VolumeSpace)*int64(bs) > p.size {
		p.prob("extent-outside-image", "", "%s volume space %d blocks * %d = %d bytes exceeds image size %d", tag, v.VolumeSpace, bs, int64(v.VolumeSpace)*int64(bs), p.size)
	}
	w := &walker{p: p, v: v, joliet: joliet, bs: int64(bs), visited: map[uint32]string{}, dirSizes: map[uint32]uint32{}}
	w.tag = ""
	if joliet {
		w.tag = "[joliet] "
	}
	w.phys = append(w.phys, physDir{ext: v.RootExtent, parent: v.RootExtent, name: "\x00", path: ""})
	w.walkDir(v.RootExtent, v.RootSize, v.RootExtent, v.RootSize, "", 0, true, false, 0)
	w.finish()
	v.index = make(map[string]int, len(v.Nodes))
	for i := range v.Nodes {
		if _, dup := v.index[v.Nodes[i].Path]; !dup {
			v.index[v.Nodes[i].Path] = i
		}
	}
	return v, w
}

// ---------------------------------------------------------------------------------------------

type physDir struct {
	ext, parent uint32
	name        string // raw identifier bytes
	path        string
}

type region struct {
	start, end int64 // bytes
	kind       string
	path       string
	ext, size  uint32
	joliet     bool
}

type walker struct {
	p        *parser
	v        *Volume
	joliet   bool
	tag      string
	bs       int64
	hasSP    bool
	suspSkip int
	rrSeen   bool
	erRRIP   bool
	visited  map[uint32]string // directory extent -> first path
	dirSizes map[uint32]uint32
	phys     []physDir
	regions  []region
	ces      []region
	noPX     []string
	reloc    []relocCheck
	reSeen   []uint32 // extents of records carrying RE
	clSeen   []uint32 // CL targets
}

type relocCheck struct {
	path   string
	dotdot uint32
}

func (w *walker) prob(rule, path, format string, a ...interface{}) {
	w.p.prob(rule, path, w.tag+format, a...)
}

type rawRec struct {
	off int64
	b   []byte
}

// readDir returns the records of a directory extent, reporting structural problems.
func (w *walker) readDir(ext, size uint32, path string) []rawRec {
	var out []rawRec
	bs := w.bs
	base := int64(ext) * bs
	nblocks := (int64(size) + bs - 1) / bs
	carry := int64(0)
	for blk := int64(0); blk < nblocks; blk++ {
		if w.p.records >= maxRecords {
			w.limit(path)
			return out
		}
		w.p.records++
		boff := base + blk*bs
		if boff >= w.p.size {
			break
		}
		buf := w.p.read(boff, int(bs)+256)
		limit := bs
		if rem := int64(size) - blk*bs; rem < limit {
			limit = rem
		}
		pos := carry
		carry = 0
		for pos < limit && pos < int64(len(buf)) {
			L := int64(buf[pos])
			if L == 0 {
				break
			}
			recOff := boff + pos
			if L < 34 {
				w.prob("record-straddles-sector", path, "record at %d (block %d+%d) has length %d < 34", recOff, int64(ext)+blk, pos, L)
				break
			}
			if pos+L > bs {
				w.prob("record-straddles-sector", path, "record at %d (block %d+%d) length %d crosses the logical block boundary", recOff, int64(ext)+blk, pos, L)
			}
			if blk*bs+pos+L > int64(size) {
				w.prob("record-straddles-sector", path, "record at %d length %d runs past the directory data length %d", recOff, L, size)
			}
			if pos+L > int64(len(buf)) {
				w.prob("record-straddles-sector", path, "record at %d length %d runs past the end of the image", recOff, L)
				break
			}
			rec := buf[pos : pos+L]
			if L%2 != 0 {
				w.prob("record-straddles-sector", path, "record at %d has odd length %d", recOff, L)
			}
			nl := int64(rec[32])
			need := 33 + nl
			if nl%2 == 0 {
				need++
			}
			if nl == 0 || 33+nl > L {
				w.prob("record-straddles-sector", path, "record at %d length %d cannot hold identifier of length %d", recOff, L, nl)
				pos += L
				continue
			}
			if need > L {
				w.prob("record-straddles-sector", path, "record at %d length %d has no room for the pad byte after even identifier length %d", recOff, L, nl)
			} else if nl%2 == 0 && rec[33+nl] != 0 {
				w.prob("record-straddles-sector", path, "record at %d: pad byte after even-length identifier is %#x, want 0", recOff, rec[33+nl])
			}
			w.p.records++
			if w.p.records >= maxRecords {
				w.limit(path)
				return out
			}
			out = append(out, rawRec{off: recOff, b: rec})
			pos += L
		}
		if pos > bs {
			carry = pos - bs
		}
	}
	return out
}

func (w *walker) limit(path string) {
	if !w.p.limited {
		w.p.limited = true
		w.prob("limit", path, "more than %d directory records/blocks; walk stopped", maxRecords)
	}
}

func recName(r []byte) []byte {
	nl := int(r[32])
	if 33+nl > len(r) {
		nl = len(r) - 33
	}
	return r[33 : 33+nl]
}

func recSU(r []byte) []byte {
	nl := int(r[32])
	o := 33 + nl
	if nl%2 == 0 {
		o++
	}
	if o >= len(r) {
		return nil
	}
	return r[o:]
}

func parseTime7(b []byte) time.Time {
	if len(b) < 7 {
		return time.Time{}
	}
	zero := true
	for _, c := range b[:7] {
		if c != 0 {
			zero = false
		}
	}
	if zero {
		return time.Time{}
	}
	t := time.Date(1900+int(b[0]), time.Month(b[1]), int(b[2]), int(b[3]), int(b[4]), int(b[5]), 0, time.UTC)
	return t.Add(-time.Duration(int8(b[6])) * 15 * time.Minute)
}

func parseTime17(b []byte) time.Time {
	if len(b) < 17 {
		return time.Time{}
	}
	num := func(s []byte) (int, bool) {
		n := 0
		for _, c := range s {
			if c < '0' || c > '9' {
				return 0, false
			}
			n = n*10 + int(c-'0')
		}
		return n, true
	}
	y, ok1 := num(b[0:4])
	mo, ok2 := num(b[4:6])
	d, ok3 := num(b[6:8])
	h, ok4 := num(b[8:10])
	mi, ok5 := num(b[10:12])
	s, ok6 := num(b[12:14])
	hs, ok7 := num(b[14:16])
	if !(ok1 && ok2 && ok3 && ok4 && ok5 && ok6 && ok7) || (y == 0 && mo == 0 && d == 0) {
		return time.Time{}
	}
	t := time.Date(y, time.Month(mo), d, h, mi, s, hs*10000000, time.UTC)
	return t.Add(-time.Duration(int8(b[16])) * 15 * time.Minute)
}

// checkBoth reports both-endian mismatches of one directory record.
func (w *walker) checkBoth(r rawRec, path string) {
	if _, ok := both32(r.b[2:10]); !ok {
		w.prob("both-endian-mismatch", path, "record at %d extent: LE %d BE %d", r.off, binary.LittleEndian.Uint32(r.b[2:]), binary.BigEndian.Uint32(r.b[6:]))
	}
	if _, ok := both32(r.b[10:18]); !ok {
		w.prob("both-endian-mismatch", path, "record at %d data length: LE %d BE %d", r.off, binary.LittleEndian.Uint32(r.b[10:]), binary.BigEndian.Uint32(r.b[14:]))
	}
	if _, ok := both16(r.b[28:32]); !ok {
		w.prob("both-endian-mismatch", path, "record at %d volume sequence number: % x", r.off, r.b[28:32])
	}
}

func (w *walker) checkExtent(ext, size uint32, path, what string) {
	if size == 0 {
		return
	}
	start := int64(ext) * w.bs
	end := start + int64(size)
	vol := int64(w.v.VolumeSpace) * w.bs
	if end > vol {
		w.prob("extent-outside-image", path, "%s extent block %d size %d = bytes [%d,%d) outside the volume space of %d blocks (%d bytes)", what, ext, size, start, end, w.v.VolumeSpace, vol)
	} else if end > w.p.size {
		w.prob("extent-outside-image", path, "%s extent block %d size %d = bytes [%d,%d) outside the image of %d bytes", what, ext, size, start, end, w.p.size)
	}
}

func (w *walker) addRegion(ext, size uint32, kind, path string) {
	if size == 0 {
		return
	}
	start := int64(ext) * w.bs
	blocks := (int64(size) + w.bs - 1) / w.bs
	w.regions = append(w.regions, region{start: start, end: start + blocks*w.bs, kind: kind, path: path, ext: ext, size: size, joliet: w.joliet})
}

func isDot(r []byte) bool    { return r[32] == 1 && r[33] == 0 }
func isDotDot(r []byte) bool { return r[32] == 1 && r[33] == 1 }

func joinPath(dir, name string) string {
	if dir == "" {
		return name
	}
	return dir + "/" + name
}

// stripISO removes the version suffix and a trailing dot.
func stripISO(id string) string {
	if i := strings.LastIndexByte(id, ';'); i >= 0 {
		id = id[:i]
	}
	id = strings.TrimSuffix(id, ".")
	return id
}

func stripJoliet(id string) string {
	if i := strings.LastIndexByte(id, ';'); i >= 0 {
		allDigits := i+1 < len(id)
		for _, c := range id[i+1:] {
			if c < '0' || c > '9' {
				allDigits = false
			}
		}
		if allDigits {
			id = id[:i]
		}
	}
	return id
}

func (w *walker) walkDir(ext, size, parentExt, parentSize uint32, path string, depth int, isRoot, relocated bool, logicalParent uint32) {
	if depth > maxDepth {
		w.prob("limit", path, "directory depth exceeds %d; not descending", maxDepth)
		return
	}
	w.visited[ext] = path
	w.dirSizes[ext] = size
	if int64(size)%w.bs != 0 {
		w.prob("dir-size", path, "directory at block %d has data length %d, not a multiple of the block size %d", ext, size, w.bs)
	}
	if size == 0 {
		w.prob("dot-entries", path, "directory at block %d has data length 0 (no . and .. records)", ext)
		return
	}
	w.checkExtent(ext, size, path, "directory")
	w.addRegion(ext, size, "dir", path)
	recs := w.readDir(ext, size, path)
	start := 0
	// "." record
	if len(recs) > 0 && isDot(recs[0].b) {
		r := recs[0]
		w.checkBoth(r, path)
		e, _ := both32(r.b[2:10])
		s, _ := both32(r.b[10:18])
		if e != ext {
			w.prob("dot-entries", path, "\".\" record at %d points to block %d, directory is at block %d", r.off, e, ext)
		} else if s != size {
			w.prob("dot-entries", path, "\".\" record at %d has data length %d, the parent's record for this directory says %d", r.off, s, size)
		}
		if r.b[25]&0x02 == 0 {
			w.prob("dot-entries", path, "\".\" record at %d lacks the directory flag (flags %#x)", r.off, r.b[25])
		}
		if !w.joliet {
			if isRoot {
				w.detectSP(r, path)
			}
			si := w.parseSUSP(r, path, isRoot)
			if isRoot {
				w.v.EREntries = si.er
			}
			if si.hasPL {
				w.prob("rr-relocation", path, "PL entry (block %d) in the \".\" record at %d; RRIP 4.1.5.2 records PL in the \"..\" record of the moved directory", si.pl, r.off)
			}
			if si.re {
				w.prob("rr-relocation", path, "RE entry in the \".\" record at %d; RRIP 4.1.5.3 records RE only in the foster parent's record for the moved directory", r.off)
			}
			if si.hasCL {
				w.prob("rr-relocation", path, "CL entry in the \".\" record at %d", r.off)
			}
		}
		start = 1
	} else {
		w.prob("dot-entries", path, "first record of directory at block %d is not \".\" (%d records read)", ext, len(recs))
	}
	// ".." record
	if len(recs) > start && start == 1 && isDotDot(recs[1].b) {
		r := recs[1]
		w.checkBoth(r, path)
		e, _ := both32(r.b[2:10])
		s, _ := both32(r.b[10:18])
		if relocated {
			w.reloc = append(w.reloc, relocCheck{path: path, dotdot: e})
		} else if e != parentExt {
			w.prob("dot-entries", path, "\"..\" record at %d points to block %d, parent directory is at block %d", r.off, e, parentExt)
		} else if s != parentSize {
			w.prob("dot-entries", path, "\"..\" record at %d has data length %d, parent directory has %d", r.off, s, parentSize)
		}
		if r.b[25]&0x02 == 0 {
			w.prob("dot-entries", path, "\"..\" record at %d lacks the directory flag (flags %#x)", r.off, r.b[25])
		}
		if !w.joliet {
			si := w.parseSUSP(r, path, false)
			switch {
			case relocated && !si.hasPL:
				w.prob("rr-relocation", path, "\"..\" record at %d of the relocated directory has no PL entry (logical parent is at block %d, \"..\" points to block %d)", r.off, logicalParent, e)
			case relocated && si.pl != logicalParent:
				w.prob("rr-relocation", path, "PL in the \"..\" record at %d points to block %d, the logical parent (holder of the CL record) is at block %d", r.off, si.pl, logicalParent)
			case !relocated && si.hasPL:
				w.prob("rr-relocation", path, "PL entry (block %d) in the \"..\" record at %d of a directory that was not reached through CL", si.pl, r.off)
			}
			if si.re {
				w.prob("rr-relocation", path, "RE entry in the \"..\" record at %d; RRIP 4.1.5.3 records RE only in the foster parent's record for the moved directory", r.off)
			}
			if si.hasCL {
				w.prob("rr-relocation", path, "CL entry in the \"..\" record at %d", r.off)
			}
		}
		start = 2
	} else if start == 1 {
		w.prob("dot-entries", path, "second record of directory at block %d is not \"..\"", ext)
	}

	var prevName []byte
	var prevMulti bool
	orderReported := false
	i := start
	for i < len(recs) {
		r := recs[i]
		i++
		if isDot(r.b) || isDotDot(r.b) {
			w.prob("dot-entries", path, "extra \".\"/\"..\" record at %d (record index %d)", r.off, i-1)
			continue
		}
		w.checkBoth(r, path)
		name := recName(r.b)
		// ordering
		if prevName != nil {
			c := w.cmpNames(prevName, name)
			if c > 0 && !orderReported {
				w.prob("dir-order", path, "record %q at %d sorts before its predecessor %q", w.showName(name), r.off, w.showName(prevName))
				orderReported = true
			}
			if c == 0 && bytes.Equal(prevName, name) && !prevMulti {
				w.prob("dup-identifier", path, "identifier %q recorded twice in one directory (second record at %d)", w.showName(name), r.off)
			}
		}
		prevName = name
		prevMulti = r.b[25]&0x80 != 0

		n := Node{RecOffset: r.off, Flags: r.b[25], XAttrLen: r.b[1]}
		n.Extent, _ = both32(r.b[2:10])
		n.Size, _ = both32(r.b[10:18])
		n.VolSeq, _ = both16(r.b[28:32])
		n.TotalSize = int64(n.Size)
		n.RecTime = parseTime7(r.b[18:25])
		n.IsDir = n.Flags&0x02 != 0
		var si suspInfo
		if w.joliet {
			if len(name)%2 != 0 {
				w.prob("joliet-name", path, "identifier at %d has odd byte length %d: % x", r.off, len(name), name)
			}
			if len(name) > 220 {
				w.prob("joliet-name", path, "identifier at %d is %d bytes long (> 220)", r.off, len(name))
			}
			n.ISOName = ucs2(name)
		} else {
			n.ISOName = string(name)
			si = w.parseSUSP(r, joinPath(path, stripISO(string(name))), false)
		}
		// multi-extent: gather following sections with the same identifier
		if n.Flags&0x80 != 0 && !n.IsDir {
			n.Extents = []Extent{{n.Extent, n.Size}}
			for i < len(recs) {
				r2 := recs[i]
				if !bytes.Equal(recName(r2.b), name) {
					w.prob("record-straddles-sector", path, "multi-extent file %q at %d is not followed by a final section record", w.showName(name), r.off)
					break
				}
				i++
				w.checkBoth(r2, path)
				e2, _ := both32(r2.b[2:10])
				s2, _ := both32(r2.b[10:18])
				n.Extents = append(n.Extents, Extent{e2, s2})
				n.TotalSize += int64(s2)
				if !w.joliet {
					si2 := w.parseSUSP(r2, joinPath(path, stripISO(string(name))), false)
					if !si.hasPX && si2.hasPX {
						si = si2
					}
				}
				if r2.b[25]&0x80 == 0 {
					break
				}
			}
			prevMulti = false
		}
		if !w.joliet {
			n.RRName = si.nm
			n.HasPX, n.Mode, n.Nlink, n.UID, n.GID = si.hasPX, si.mode, si.nlink, si.uid, si.gid
			n.HasTF, n.MTime, n.ATime, n.CTime = si.hasTF, si.mtime, si.atime, si.ctime
			n.IsSymlink, n.LinkTarget = si.hasSL, si.link
			if n.HasPX && n.Mode&0170000 == 0120000 {
				n.IsSymlink = true
			}
		}
		var best string
		switch {
		case w.joliet:
			best = stripJoliet(n.ISOName)
		case n.RRName != "":
			best = n.RRName
		default:
			best = stripISO(n.ISOName)
		}
		n.Path = joinPath(path, best)

		if !w.joliet && si.re {
			// relocated directory in its physical place: part of the physical hierarchy only
			if si.hasPL {
				w.prob("rr-relocation", n.Path, "PL entry (block %d) in the foster parent's record at %d; RRIP 4.1.5.2 records PL in the \"..\" record of the moved directory", si.pl, r.off)
			}
			w.reSeen = append(w.reSeen, n.Extent)
			if n.IsDir {
				w.phys = append(w.phys, physDir{ext: n.Extent, parent: ext, name: string(name), path: n.Path})
			} else {
				w.prob("rr-relocation", n.Path, "RE entry on a non-directory record at %d", r.off)
			}
			continue
		}
		if !w.joliet && !si.hasPX {
			w.noPX = append(w.noPX, n.Path)
		}
		if !w.joliet && si.hasCL {
			if n.IsDir {
				w.prob("rr-relocation", n.Path, "CL entry on a record at %d that has the directory flag", r.off)
			}
			n.IsDir = true
			n.Relocated = true
			n.Extent = si.cl
			n.Size = 0
			// the attributes of a relocated directory are those of its "." record
			tb := w.p.read(int64(si.cl)*w.bs, 256)
			if len(tb) >= 34 && int(tb[0]) >= 34 && int(tb[0]) <= len(tb) && isDot(tb[:tb[0]]) {
				tr := rawRec{off: int64(si.cl) * w.bs, b: tb[:tb[0]]}
				n.Size, _ = both32(tr.b[10:18])
				n.TotalSize = int64(n.Size)
				if te, _ := both32(tr.b[2:10]); te != si.cl {
					w.prob("dot-entries", n.Path, "\".\" record of CL target block %d points to block %d", si.cl, te)
				}
			} else {
				w.prob("rr-relocation", n.Path, "CL at %d points to block %d which does not start with a \".\" record", r.off, si.cl)
				w.v.Nodes = append(w.v.Nodes, n)
				continue
			}
			if first, seen := w.visited[n.Extent]; seen {
				w.prob("rr-relocation", n.Path, "CL target block %d was already reached as %q through a record without RE", n.Extent, first)
				w.v.Nodes = append(w.v.Nodes, n)
				continue
			}
			w.v.Nodes = append(w.v.Nodes, n)
			w.clSeen = append(w.clSeen, n.Extent)
			w.walkDir(n.Extent, n.Size, ext, size, n.Path, depth+1, false, true, ext)
			continue
		}
		if n.IsDir {
			w.phys = append(w.phys, physDir{ext: n.Extent, parent: ext, name: string(name), path: n.Path})
			if n.Extents != nil {
				w.prob("record-straddles-sector", n.Path, "directory record at %d has the multi-extent flag", r.off)
			}
			if first, seen := w.visited[n.Extent]; seen {
				w.prob("extent-overlap", n.Path, "directory extent block %d is also the directory %q (directory referenced by two records or a loop)", n.Extent, first)
				w.v.Nodes = append(w.v.Nodes, n)
				continue
			}
			w.v.Nodes = append(w.v.Nodes, n)
			w.walkDir(n.Extent, n.Size, ext, size, n.Path, depth+1, false, false, 0)
			continue
		}
		// plain file (or symlink/device)
		if n.Extents != nil {
			for k, e := range n.Extents {
				w.checkExtent(e.Block, e.Size, n.Path, fmt.Sprintf("file section %d", k))
				w.addRegion(e.Block, e.Size, "file", n.Path)
			}
		} else {
			w.checkExtent(n.Extent, n.Size, n.Path, "file")
			w.addRegion(n.Extent, n.Size, "file", n.Path)
		}
		w.v.Nodes = append(w.v.Nodes, n)
	}
}

func (w *walker) showName(b []byte) string {
	if w.joliet {
		return ucs2(b)
	}
	return string(b)
}

// cmpNames orders two identifiers per ECMA-119 9.3 (Joliet: 16-bit units, zero padding).
func (w *walker) cmpNames(a, b []byte) int {
	unit := 1
	pad := uint16(0x20)
	if w.joliet {
		unit = 2
		pad = 0
	}
	toUnits := func(x []byte) []uint16 {
		if unit == 1 {
			u := make([]uint16, len(x))
			for i, c := range x {
				u[i] = uint16(c)
			}
			return u
		}
		u := make([]uint16, 0, len(x)/2)
		for i := 0; i+1 < len(x); i += 2 {
			u = append(u, binary.BigEndian.Uint16(x[i:]))
		}
		return u
	}
	split := func(u []uint16) (name, ext []uint16, ver int) {
		ver = -1
		for i := len(u) - 1; i >= 0; i-- {
			if u[i] == ';' {
				v, ok := 0, i+1 < len(u)
				for _, c := range u[i+1:] {
					if c < '0' || c > '9' {
						ok = false
						break
					}
					v = v*10 + int(c-'0')
				}
				if ok {
					ver = v
					u = u[:i]
				}
				break
			}
		}
		for i, c := range u {
			if c == '.' {
				return u[:i], u[i+1:], ver
			}
		}
		return u, nil, ver
	}
	cmpPad := func(x, y []uint16) int {
		n := len(x)
		if len(y) > n {
			n = len(y)
		}
		for i := 0; i < n; i++ {
			cx, cy := pad, pad
			if i < len(x) {
				cx = x[i]
			}
			if i < len(y) {
				cy = y[i]
			}
			if cx != cy {
				if cx < cy {
					return -1
				}
				return 1
			}
		}
		return 0
	}
	an, ae, av := split(toUnits(a))
	bn, be, bv := split(toUnits(b))
	if c := cmpPad(an, bn); c != 0 {
		return c
	}
	if c := cmpPad(ae, be); c != 0 {
		return c
	}
	// version numbers in descending order
	if av != bv {
		if av > bv {
			return -1
		}
		return 1
	}
	return 0
}

// ---------------------------------------------------------------------------------------------
// SUSP / RRIP

type suspInfo struct {
	nm                  string
	hasPX               bool
	mode                uint32
	nlink, uid, gid     uint32
	hasTF               bool
	mtime, atime, ctime time.Time
	hasSL               bool
	link                string
	hasCL               bool
	cl                  uint32
	hasPL               bool
	pl                  uint32
	re                  bool
	er                  []string
}

func (w *walker) detectSP(r rawRec, path string) {
	su := recSU(r.b)
	for _, o := range []int{0, 14} {
		if len(su) >= o+7 && su[o] == 'S' && su[o+1] == 'P' {
			if su[o+2] != 7 || su[o+3] != 1 || su[o+4] != 0xBE || su[o+5] != 0xEF {
				w.prob("susp", path, "SP entry in root \".\" record at %d is malformed: % x", r.off, su[o:o+7])
				return
			}
			w.hasSP = true
			w.suspSkip = int(su[o+6])
			return
		}
	}
}

var rrSigs = map[string]bool{"PX": true, "PN": true, "SL": true, "NM": true, "CL": true, "PL": true, "RE": true, "TF": true, "SF": true, "RR": true}

func (w *walker) parseSUSP(r rawRec, path string, rootDot bool) suspInfo {
	var si suspInfo
	su := recSU(r.b)
	if len(su) == 0 {
		return si
	}
	if !rootDot && w.suspSkip > 0 {
		if w.suspSkip >= len(su) {
			return si
		}
		su = su[w.suspSkip:]
	}
	if !w.hasSP {
		// No SUSP indicator: only look at the area if it plausibly starts with a known entry (some
		// writers omit SP); otherwise the system use area is opaque.
		if len(su) < 4 || !(rrSigs[string(su[:2])] || string(su[:2]) == "CE" || string(su[:2]) == "ER") {
			return si
		}
	}
	area := su
	areaOff := r.off + int64(len(r.b)-len(su))
	where := fmt.Sprintf("record at %d", r.off)
	var nmParts []byte
	nmSeen, nmCont, nmDone := false, false, false
	var slRoot bool
	var slParts []string
	slContPrev := false // previous component had CONTINUE
	hops := 0
	for {
		var ceBlock, ceOff, ceLen uint32
		haveCE := false
		pos := 0
		for len(area)-pos >= 4 {
			sig := string(area[pos : pos+2])
			l := int(area[pos+2])
			if l < 4 {
				rest := area[pos:]
				allZero := len(bytes.Trim(rest, "\x00")) == 0
				w.prob("susp", path, "%s: system use entry %q at area offset %d has length %d < 4 (%d bytes remain, all zero: %v)", where, sig, pos, l, len(rest), allZero)
				break
			}
			if pos+l > len(area) {
				w.prob("susp", path, "%s: system use entry %q at area offset %d length %d runs past the %d-byte area", where, sig, pos, l, len(area))
				break
			}
			e := area[pos : pos+l]
			pos += l
			if rrSigs[sig] {
				w.rrSeen = true
			}
			stop := false
			switch sig {
			case "SP":
				// handled by detectSP
			case "ST":
				stop = true
			case "CE":
				if l != 28 {
					w.prob("susp", path, "%s: CE entry has length %d, want 28", where, l)
					break
				}
				var ok1, ok2, ok3 bool
				ceBlock, ok1 = both32(e[4:12])
				ceOff, ok2 = both32(e[12:20])
				ceLen, ok3 = both32(e[20:28])
				if !(ok1 && ok2 && ok3) {
					w.prob("both-endian-mismatch", path, "%s: CE entry fields: % x", where, e[4:28])
				}
				haveCE = true
			case "ER":
				if l >= 8 {
					idl := int(e[4])
					if 8+idl <= l {
						id := string(e[8 : 8+idl])
						si.er = append(si.er, id)
						if strings.HasPrefix(id, "RRIP") || strings.HasPrefix(id, "IEEE_P1282") || strings.HasPrefix(id, "IEEE_1282") {
							w.erRRIP = true
						}
					} else {
						w.prob("susp", path, "%s: ER identifier length %d does not fit the %d-byte entry", where, idl, l)
					}
				} else {
					w.prob("susp", path, "%s: ER entry too short (%d)", where, l)
				}
			case "NM":
				if l < 5 {
					w.prob("susp", path, "%s: NM entry has length %d, no flags byte", where, l)
					break
				}
				fl := e[4]
				content := e[5:]
				if nmDone {
					// a further NM after one without CONTINUE is ignored by readers
					break
				}
				if fl&0x02 != 0 {
					nmParts = append(nmParts, '.')
				} else if fl&0x04 != 0 {
					nmParts = append(nmParts, '.', '.')
				} else {
					if len(content) == 0 {
						w.prob("susp", path, "%s: NM entry without content (flags %#x)", where, fl)
					}
					nmParts = append(nmParts, content...)
				}
				nmSeen = true
				nmCont = fl&0x01 != 0
				if !nmCont {
					nmDone = true
				}
			case "PX":
				if l != 36 && l != 44 {
					w.prob("susp", path, "%s: PX entry has length %d, want 36 or 44", where, l)
					if l < 36 {
						break
					}
				}
				var ok [4]bool
				si.mode, ok[0] = both32(e[4:12])
				si.nlink, ok[1] = both32(e[12:20])
				si.uid, ok[2] = both32(e[20:28])
				si.gid, ok[3] = both32(e[28:36])
				for k, o := range ok {
					if !o {
						w.prob("both-endian-mismatch", path, "%s: PX field %d (0 mode, 1 links, 2 uid, 3 gid): % x", where, k, e[4+8*k:12+8*k])
					}
				}
				si.hasPX = true
			case "SL":
				if l < 5 {
					w.prob("susp", path, "%s: SL entry has length %d, no flags byte", where, l)
					break
				}
				si.hasSL = true
				c := e[5:]
				for len(c) > 0 {
					if len(c) < 2 {
						w.prob("susp", path, "%s: SL component record truncated (%d byte left)", where, len(c))
						break
					}
					cf, cl := c[0], int(c[1])
					if 2+cl > len(c) {
						w.prob("susp", path, "%s: SL component length %d runs past the entry (%d bytes left)", where, cl, len(c)-2)
						break
					}
					content := string(c[2 : 2+cl])
					c = c[2+cl:]
					if cf&0x0E != 0 && cl != 0 {
						w.prob("susp", path, "%s: SL component with flags %#x (CURRENT/PARENT/ROOT) has content length %d, want 0", where, cf, cl)
					}
					var part string
					switch {
					case cf&0x08 != 0:
						slRoot = true
						slContPrev = false
						continue
					case cf&0x02 != 0:
						part = "."
					case cf&0x04 != 0:
						part = ".."
					default:
						part = content
					}
					if slContPrev && len(slParts) > 0 {
						slParts[len(slParts)-1] += part
					} else {
						slParts = append(slParts, part)
					}
					slContPrev = cf&0x01 != 0
				}
			case "TF":
				if l < 5 {
					w.prob("susp", path, "%s: TF entry has length %d, no flags byte", where, l)
					break
				}
				fl := e[4]
				sz := 7
				if fl&0x80 != 0 {
					sz = 17
				}
				cnt := 0
				for b := 0; b < 7; b++ {
					if fl&(1<<uint(b)) != 0 {
						cnt++
					}
				}
				if 5+cnt*sz != l {
					w.prob("susp", path, "%s: TF entry length %d does not match flags %#x (%d stamps of %d bytes need %d)", where, l, fl, cnt, sz, 5+cnt*sz)
				}
				o := 5
				for b := 0; b < 7; b++ {
					if fl&(1<<uint(b)) == 0 {
						continue
					}
					if o+sz > l {
						break
					}
					var t time.Time
					if sz == 7 {
						t = parseTime7(e[o : o+sz])
					} else {
						t = parseTime17(e[o : o+sz])
					}
					switch b {
					case 1:
						si.mtime = t
					case 2:
						si.atime = t
					case 3:
						si.ctime = t
					}
					o += sz
				}
				si.hasTF = true
			case "CL", "PL":
				if l != 12 {
					w.prob("susp", path, "%s: %s entry has length %d, want 12", where, sig, l)
					break
				}
				v, ok := both32(e[4:12])
				if !ok {
					w.prob("both-endian-mismatch", path, "%s: %s location: % x", where, sig, e[4:12])
				}
				if sig == "CL" {
					si.hasCL, si.cl = true, v
				} else {
					si.hasPL, si.pl = true, v
				}
			case "RE":
				si.re = true
			}
			if stop {
				break
			}
		}
		_ = areaOff
		if !haveCE {
			break
		}
		hops++
		if hops > 32 {
			w.prob("susp", path, "%s: more than 32 chained continuation areas", where)
			break
		}
		off := int64(ceBlock)*w.bs + int64(ceOff)
		if ceLen == 0 {
			break
		}
		if off+int64(ceLen) > w.p.size || off+int64(ceLen) > int64(w.v.VolumeSpace)*w.bs {
			w.prob("susp", path, "%s: CE continuation block %d offset %d length %d = bytes [%d,%d) lies outside the image/volume (%d bytes, %d blocks)", where, ceBlock, ceOff, ceLen, off, off+int64(ceLen), w.p.size, w.v.VolumeSpace)
			break
		}
		if int64(ceOff)+int64(ceLen) > w.bs {
			// SUSP 5.1: a continuation area shall not cross a logical sector boundary
			w.prob("susp", path, "%s: CE continuation area offset %d length %d crosses the logical block boundary", where, ceOff, ceLen)
		}
		if ceLen > 1<<20 {
			w.prob("susp", path, "%s: CE continuation length %d is implausible", where, ceLen)
			break
		}
		area = w.p.read(off, int(ceLen))
		if len(area) < int(ceLen) {
			w.prob("susp", path, "%s: CE continuation area short read (%d of %d)", where, len(area), ceLen)
		}
		w.ces = append(w.ces, region{start: off, end: off + int64(ceLen), kind: "susp-continuation", path: path})
		areaOff = off
		where = fmt.Sprintf("record at %d, continuation area at %d", r.off, off)
	}
	if nmSeen {
		si.nm = string(nmParts)
		if nmCont {
			w.prob("susp", path, "record at %d: last NM entry has the CONTINUE flag", r.off)
		}
	}
	if si.hasSL {
		t := strings.Join(slParts, "/")
		if slRoot {
			t = "/" + t
		}
		si.link = t
	}
	return si
}

// ---------------------------------------------------------------------------------------------

type ptEntry struct {
	ext    uint32
	parent uint16
	name   string
}

func (w *walker) readPathTable(loc uint32, big bool, label string) ([]ptEntry, bool) {
	size := w.v.PathTableSize
	if loc == 0 {
		w.prob("path-table", "", "%s path table location is 0", label)
		return nil, false
	}
	off := int64(loc) * w.bs
	if size == 0 || size > 64<<20 {
		w.prob("path-table", "", "%s path table: implausible size %d", label, size)
		return nil, false
	}
	if off+int64(size) > w.p.size || off+int64(size) > int64(w.v.VolumeSpace)*w.bs {
		w.prob("path-table", "", "%s path table at block %d size %d lies outside the image/volume", label, loc, size)
		return nil, false
	}
	w.addRegion(loc, size, "pathtable-"+label, "")
	b := w.p.read(off, int(size))
	var out []ptEntry
	pos := 0
	for pos < len(b) {
		l := int(b[pos])
		if l == 0 {
			w.prob("path-table", "", "%s path table: entry %d at byte %d has identifier length 0 but the path table size is %d", label, len(out)+1, pos, size)
			return out, false
		}
		need := 8 + l + l%2
		if pos+need > len(b) {
			w.prob("path-table", "", "%s path table: entry %d at byte %d needs %d bytes but only %d remain of path table size %d", label, len(out)+1, pos, need, len(b)-pos, size)
			return out, false
		}
		var e ptEntry
		if big {
			e.ext = binary.BigEndian.Uint32(b[pos+2:])
			e.parent = binary.BigEndian.Uint16(b[pos+6:])
		} else {
			e.ext = binary.LittleEndian.Uint32(b[pos+2:])
			e.parent = binary.LittleEndian.Uint16(b[pos+6:])
		}
		e.name = string(b[pos+8 : pos+8+l])
		out = append(out, e)
		pos += need
	}
	return out, true
}

func (w *walker) checkPathTable(loc uint32, big bool, label string) {
	ents, _ := w.readPathTable(loc, big, label)
	if ents == nil {
		return
	}
	type key struct {
		ext, parent uint32
		name        string
	}
	want := map[key]int{}
	wantPath := map[key]string{}
	needBytes := 0
	for _, d := range w.phys {
		k := key{d.ext, d.parent, d.name}
		want[k]++
		wantPath[k] = d.path
		needBytes += 8 + len(d.name) + len(d.name)%2
	}
	if label == "L" && uint32(needBytes) != w.v.PathTableSize {
		w.prob("path-table", "", "path table size field is %d but the %d directories of the tree need %d bytes", w.v.PathTableSize, len(w.phys), needBytes)
	}
	show := func(s string) string {
		if w.joliet {
			return ucs2([]byte(s))
		}
		return s
	}
	reports := 0
	for i, e := range ents {
		var pext uint32
		if e.parent < 1 || int(e.parent) > len(ents) {
			if reports < 20 {
				w.prob("path-table", "", "%s path table entry %d (%q, block %d) has parent directory number %d outside 1..%d", label, i+1, show(e.name), e.ext, e.parent, len(ents))
				reports++
			}
			continue
		}
		pext = ents[e.parent-1].ext
		if i == 0 {
			if e.name != "\x00" || e.parent != 1 {
				w.prob("path-table", "", "%s path table first entry is %q parent %d, want the root (identifier 00, parent 1)", label, show(e.name), e.parent)
			}
		}
		k := key{e.ext, pext, e.name}
		if want[k] > 0 {
			want[k]--
			continue
		}
		if reports < 20 {
			w.prob("path-table", "", "%s path table entry %d: identifier %q block %d parent number %d (block %d) matches no directory of the tree", label, i+1, show(e.name), e.ext, e.parent, pext)
			reports++
		}
	}
	var missing []string
	for k, c := range want {
		if c > 0 {
			missing = append(missing, fmt.Sprintf("%q (identifier %q, block %d, parent block %d)", wantPath[k], show(k.name), k.ext, k.parent))
		}
	}
	sort.Strings(missing)
	for i, m := range missing {
		if i >= 20 {
			w.prob("path-table", "", "%s path table: %d more directories missing", label, len(missing)-i)
			break
		}
		w.prob("path-table", "", "%s path table has no (correct) entry for directory %s", label, m)
	}
}

func (w *walker) finish() {
	// relocated directories: ".." must point to some directory of the physical hierarchy
	for _, rc := range w.reloc {
		found := false
		for _, d := range w.phys {
			if d.ext == rc.dotdot {
				found = true
				break
			}
		}
		if !found {
			w.prob("dot-entries", rc.path, "\"..\" record of relocated directory points to block %d which is no directory of the tree", rc.dotdot)
		}
	}
	reSet, clSet := map[uint32]bool{}, map[uint32]bool{}
	for _, e := range w.reSeen {
		reSet[e] = true
	}
	for _, e := range w.clSeen {
		clSet[e] = true
		if !reSet[e] {
			w.prob("rr-relocation", w.visited[e], "directory at block %d is the target of a CL entry but no record with RE describes it", e)
		}
	}
	for _, e := range w.reSeen {
		if !clSet[e] {
			w.prob("rr-relocation", "", "record with RE describes the directory at block %d but no CL entry points to it (directory unreachable)", e)
		}
	}
	w.v.HasRockRidge = w.hasSP || w.rrSeen
	if w.hasSP && (w.erRRIP || w.rrSeen) {
		for _, p := range w.noPX {
			w.prob("rr-missing-px", p, "Rock Ridge volume, record has no PX entry")
		}
	}
	w.checkPathTable(w.v.LPathTable, false, "L")
	w.checkPathTable(w.v.MPathTable, true, "M")
	// reserved area and descriptors
	if w.p.descEnd > 0 && !w.joliet {
		w.regions = append(w.regions, region{start: 0, end: w.p.descEnd, kind: "system-area+descriptors"})
	}
	w.overlaps(w.regions, w.ces, nil)
}

// overlaps reports overlapping regions. keep, when non-nil, filters the pairs worth reporting.
func (w *walker) overlaps(regs, ces []region, keep func(a, b region) bool) {
	p := w
	sorted := append([]region(nil), regs...)
	sort.SliceStable(sorted, func(i, j int) bool { return sorted[i].start < sorted[j].start })
	var active []region
	reports, cmps := 0, 0
	desc := func(r region) string {
		t := ""
		if r.joliet {
			t = "joliet "
		}
		if r.path == "" && r.kind != "file" && r.kind != "dir" {
			return fmt.Sprintf("%s%s [%d,%d)", t, r.kind, r.start, r.end)
		}
		return fmt.Sprintf("%s%s %q block %d size %d", t, r.kind, r.path, r.ext, r.size)
	}
	for _, r := range sorted {
		k := 0
		for _, a := range active {
			if a.end > r.start {
				active[k] = a
				k++
			}
		}
		active = active[:k]
		for _, a := range active {
			cmps++
			if cmps > 5000000 {
				return
			}
			if keep != nil && !keep(a, r) {
				continue
			}
			if reports >= 200 {
				return
			}
			reports++
			p.prob("extent-overlap", r.path, "%s overlaps %s", desc(r), desc(a))
		}
		active = append(active, r)
	}
	// continuation areas against everything else (byte exact); CE areas may share blocks among themselves
	seen := map[[2]int64]bool{}
	for _, c := range ces {
		kk := [2]int64{c.start, c.end}
		if seen[kk] {
			continue
		}
		seen[kk] = true
		idx := sort.Search(len(sorted), func(i int) bool { return sorted[i].start >= c.end })
		for j := idx - 1; j >= 0 && idx-j < 2000; j-- {
			a := sorted[j]
			aend := a.end
			if a.kind == "dir" || a.kind == "file" {
				aend = a.start + int64(a.size) // exact data length
			}
			if aend > c.start && a.start < c.end {
				if reports >= 200 {
					return
				}
				reports++
				p.prob("extent-overlap", c.path, "SUSP continuation area bytes [%d,%d) of %q overlaps %s", c.start, c.end, c.path, desc(a))
			}
		}
	}
}

// crossOverlaps checks the Joliet structures against the primary tree's extents. File extents shared by
// both trees (identical start and size) are the normal case and are not reported.
func (p *parser) crossOverlaps(pw, jw *walker) {
	if pw == nil || jw == nil {
		return
	}
	pdirs := map[uint32]string{}
	for _, r := range pw.regions {
		if r.kind == "dir" {
			pdirs[r.ext] = r.path
		}
	}
	for _, r := range jw.regions {
		if r.kind != "dir" {
			continue
		}
		if pp, ok := pdirs[r.ext]; ok {
			p.prob("joliet-shares-primary-dir", r.path, "[joliet] directory record for %q points to block %d, which is the primary tree's directory %q (ISO9660 identifiers, not UCS-2)", r.path, r.ext, pp)
		}
	}
	all := append(append([]region(nil), pw.regions...), jw.regions...)
	jw2 := &walker{p: p, v: jw.v, bs: jw.bs, tag: "[primary-vs-joliet] "}
	jw2.overlaps(all, nil, func(a, b region) bool {
		if a.joliet == b.joliet {
			return false
		}
		if a.kind == "file" && b.kind == "file" && a.start == b.start && a.size == b.size {
			return false
		}
		return true
	})
}
