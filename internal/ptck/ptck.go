// Package ptck is an independent reader of MBR and GPT partition tables, written from the UEFI
// specification's field layout. It shares no code with go-diskfs.
package ptck

import (
	"encoding/binary"
	"fmt"
	"hash/crc32"
	"strings"
	"unicode/utf16"
)

type Reader func(off int64, n int) []byte // returns fewer bytes at end of device

type MBRSlot struct {
	Boot                byte
	Type                byte
	CHSStart, CHSEnd    [3]byte
	Start, Sectors      uint32
}

func (s MBRSlot) Empty() bool {
	return s.Boot == 0 && s.Type == 0 && s.Start == 0 && s.Sectors == 0 && s.CHSStart == [3]byte{} && s.CHSEnd == [3]byte{}
}

type MBR struct {
	SigOK bool
	Slots [4]MBRSlot
	DiskSig uint32
}

func ParseMBR(sec []byte) (MBR, error) {
	var m MBR
	if len(sec) < 512 {
		return m, fmt.Errorf("short MBR sector: %d", len(sec))
	}
	m.SigOK = sec[510] == 0x55 && sec[511] == 0xAA
	m.DiskSig = binary.LittleEndian.Uint32(sec[440:444])
	for i := 0; i < 4; i++ {
		e := sec[446+16*i : 446+16*i+16]
		s := MBRSlot{Boot: e[0], Type: e[4], Start: binary.LittleEndian.Uint32(e[8:12]), Sectors: binary.LittleEndian.Uint32(e[12:16])}
		copy(s.CHSStart[:], e[1:4])
		copy(s.CHSEnd[:], e[5:8])
		m.Slots[i] = s
	}
	return m, nil
}

// GUIDString decodes the mixed-endian on-disk GUID into the canonical upper-case text form.
func GUIDString(b []byte) string {
	return strings.ToUpper(fmt.Sprintf("%08x-%04x-%04x-%02x%02x-%02x%02x%02x%02x%02x%02x",
		binary.LittleEndian.Uint32(b[0:4]), binary.LittleEndian.Uint16(b[4:6]), binary.LittleEndian.Uint16(b[6:8]),
		b[8], b[9], b[10], b[11], b[12], b[13], b[14], b[15]))
}

type Header struct {
	Signature   string
	Revision    uint32
	HeaderSize  uint32
	CRC         uint32
	CRCComputed uint32
	Reserved    uint32
	MyLBA, AltLBA, FirstUsable, LastUsable uint64
	DiskGUID    string
	ArrayLBA    uint64
	NEntries    uint32
	EntrySize   uint32
	ArrayCRC    uint32
	TailZero    bool // bytes after the header up to the sector end are zero
}

func (h Header) CRCOK() bool { return h.CRC == h.CRCComputed }

func ParseHeader(sec []byte) (Header, error) {
	var h Header
	if len(sec) < 92 {
		return h, fmt.Errorf("short header sector %d", len(sec))
	}
	h.Signature = string(sec[0:8])
	h.Revision = binary.LittleEndian.Uint32(sec[8:12])
	h.HeaderSize = binary.LittleEndian.Uint32(sec[12:16])
	h.CRC = binary.LittleEndian.Uint32(sec[16:20])
	h.Reserved = binary.LittleEndian.Uint32(sec[20:24])
	h.MyLBA = binary.LittleEndian.Uint64(sec[24:32])
	h.AltLBA = binary.LittleEndian.Uint64(sec[32:40])
	h.FirstUsable = binary.LittleEndian.Uint64(sec[40:48])
	h.LastUsable = binary.LittleEndian.Uint64(sec[48:56])
	h.DiskGUID = GUIDString(sec[56:72])
	h.ArrayLBA = binary.LittleEndian.Uint64(sec[72:80])
	h.NEntries = binary.LittleEndian.Uint32(sec[80:84])
	h.EntrySize = binary.LittleEndian.Uint32(sec[84:88])
	h.ArrayCRC = binary.LittleEndian.Uint32(sec[88:92])
	hs := int(h.HeaderSize)
	if hs >= 92 && hs <= len(sec) {
		tmp := make([]byte, hs)
		copy(tmp, sec[:hs])
		tmp[16], tmp[17], tmp[18], tmp[19] = 0, 0, 0, 0
		h.CRCComputed = crc32.ChecksumIEEE(tmp)
	} else {
		h.CRCComputed = ^h.CRC // cannot be valid
	}
	h.TailZero = true
	for _, b := range sec[92:] {
		if b != 0 {
			h.TailZero = false
			break
		}
	}
	return h, nil
}

type Entry struct {
	Index       int // 1-based slot
	TypeGUID    string
	GUID        string
	First, Last uint64
	Attrs       uint64
	Name        string
	NameUnits   int
}

const zeroGUID = "00000000-0000-0000-0000-000000000000"

func ParseEntries(arr []byte, entrySize int) []Entry {
	var out []Entry
	if entrySize < 128 {
		return nil
	}
	for i := 0; (i+1)*entrySize <= len(arr); i++ {
		e := arr[i*entrySize : (i+1)*entrySize]
		tg := GUIDString(e[0:16])
		if tg == zeroGUID {
			continue
		}
		var units []uint16
		for j := 56; j+2 <= 128; j += 2 {
			u := binary.LittleEndian.Uint16(e[j : j+2])
			if u == 0 {
				break
			}
			units = append(units, u)
		}
		out = append(out, Entry{
			Index: i + 1, TypeGUID: tg, GUID: GUIDString(e[16:32]),
			First: binary.LittleEndian.Uint64(e[32:40]), Last: binary.LittleEndian.Uint64(e[40:48]),
			Attrs: binary.LittleEndian.Uint64(e[48:56]), Name: string(utf16.Decode(units)), NameUnits: len(units),
		})
	}
	return out
}

type Copy struct {
	Header     Header
	HeaderErr  string
	Array      []byte
	ArrayCRCOK bool
	Entries    []Entry
}

func (c *Copy) Valid() bool {
	return c != nil && c.HeaderErr == "" && c.Header.Signature == "EFI PART" && c.Header.CRCOK() && c.ArrayCRCOK
}

type GPT struct {
	PMBR    MBR
	PMBRErr string
	Primary *Copy
	Backup  *Copy
	LastLBA uint64
}

func readCopy(rd Reader, lba uint64, lss int, devSize int64) *Copy {
	c := &Copy{}
	sec := rd(int64(lba)*int64(lss), lss)
	if len(sec) < lss {
		c.HeaderErr = "short read of header sector"
		return c
	}
	h, err := ParseHeader(sec)
	if err != nil {
		c.HeaderErr = err.Error()
		return c
	}
	c.Header = h
	if h.Signature != "EFI PART" {
		c.HeaderErr = "bad signature"
		return c
	}
	total := uint64(h.NEntries) * uint64(h.EntrySize)
	if h.EntrySize < 128 || total > 64<<20 || int64(h.ArrayLBA)*int64(lss) < 0 || h.ArrayLBA > uint64(devSize)/uint64(lss) {
		c.HeaderErr = fmt.Sprintf("implausible array geometry: n=%d size=%d lba=%d", h.NEntries, h.EntrySize, h.ArrayLBA)
		return c
	}
	arr := rd(int64(h.ArrayLBA)*int64(lss), int(total))
	if uint64(len(arr)) < total {
		c.HeaderErr = "short read of entry array"
		return c
	}
	c.Array = arr
	c.ArrayCRCOK = crc32.ChecksumIEEE(arr) == h.ArrayCRC
	c.Entries = ParseEntries(arr, int(h.EntrySize))
	return c
}

// ReadGPT parses both copies of a GPT on a device of devSize bytes with lss-byte logical sectors.
func ReadGPT(rd Reader, devSize int64, lss int) *GPT {
	g := &GPT{}
	if devSize < int64(2*lss) {
		g.PMBRErr = "device too small"
		return g
	}
	g.LastLBA = uint64(devSize/int64(lss)) - 1
	m, err := ParseMBR(rd(0, 512))
	if err != nil {
		g.PMBRErr = err.Error()
	}
	g.PMBR = m
	g.Primary = readCopy(rd, 1, lss, devSize)
	g.Backup = readCopy(rd, g.LastLBA, lss, devSize)
	return g
}

// Check returns the list of rule violations of a freshly written GPT (both copies must be valid
// and mirror each other; protective MBR must cover the disk).
func (g *GPT) Check(lss int) []string {
	var p []string
	add := func(f string, a ...any) { p = append(p, fmt.Sprintf(f, a...)) }
	if g.PMBRErr != "" {
		add("pmbr: %s", g.PMBRErr)
		return p
	}
	for name, c := range map[string]*Copy{"primary": g.Primary, "backup": g.Backup} {
		if c == nil {
			add("%s: missing", name)
			continue
		}
		if c.HeaderErr != "" {
			add("%s: %s", name, c.HeaderErr)
			continue
		}
		h := c.Header
		if h.Revision != 0x00010000 {
			add("%s: revision %#x", name, h.Revision)
		}
		if h.HeaderSize != 92 {
			add("%s: header size %d", name, h.HeaderSize)
		}
		if !h.CRCOK() {
			add("%s: header CRC stored %#x computed %#x", name, h.CRC, h.CRCComputed)
		}
		if h.Reserved != 0 {
			add("%s: reserved field %#x", name, h.Reserved)
		}
		if !c.ArrayCRCOK {
			add("%s: array CRC mismatch", name)
		}
		if !h.TailZero {
			add("%s: header sector tail not zero", name)
		}
		if h.EntrySize != 128 {
			add("%s: entry size %d", name, h.EntrySize)
		}
	}
	if len(p) > 0 {
		return p
	}
	ph, bh := g.Primary.Header, g.Backup.Header
	if ph.MyLBA != 1 {
		add("primary: MyLBA %d != 1", ph.MyLBA)
	}
	if ph.AltLBA != g.LastLBA {
		add("primary: AlternateLBA %d != last LBA %d", ph.AltLBA, g.LastLBA)
	}
	if bh.MyLBA != g.LastLBA {
		add("backup: MyLBA %d != last LBA %d", bh.MyLBA, g.LastLBA)
	}
	if bh.AltLBA != 1 {
		add("backup: AlternateLBA %d != 1", bh.AltLBA)
	}
	if ph.DiskGUID != bh.DiskGUID {
		add("disk GUID differs between copies: %s / %s", ph.DiskGUID, bh.DiskGUID)
	}
	if ph.FirstUsable != bh.FirstUsable || ph.LastUsable != bh.LastUsable {
		add("usable range differs between copies: %d-%d / %d-%d", ph.FirstUsable, ph.LastUsable, bh.FirstUsable, bh.LastUsable)
	}
	if ph.NEntries != bh.NEntries || ph.EntrySize != bh.EntrySize || ph.ArrayCRC != bh.ArrayCRC {
		add("array description differs between copies")
	}
	if string(g.Primary.Array) != string(g.Backup.Array) {
		add("entry arrays differ between copies")
	}
	arrSectors := (uint64(ph.NEntries)*uint64(ph.EntrySize) + uint64(lss) - 1) / uint64(lss)
	if ph.ArrayLBA != 2 {
		add("primary: array LBA %d != 2", ph.ArrayLBA)
	}
	if bh.ArrayLBA+arrSectors != g.LastLBA {
		add("backup: array at LBA %d (+%d sectors) is not directly before the backup header at %d", bh.ArrayLBA, arrSectors, g.LastLBA)
	}
	if ph.FirstUsable < ph.ArrayLBA+arrSectors {
		add("first usable LBA %d overlaps the primary array (ends at %d)", ph.FirstUsable, ph.ArrayLBA+arrSectors)
	}
	if ph.LastUsable >= bh.ArrayLBA {
		add("last usable LBA %d overlaps the backup array (starts at %d)", ph.LastUsable, bh.ArrayLBA)
	}
	// protective MBR
	m := g.PMBR
	if !m.SigOK {
		add("pmbr: signature missing")
	}
	s0 := m.Slots[0]
	if s0.Type != 0xEE {
		add("pmbr: slot 0 type %#x != 0xEE", s0.Type)
	}
	if s0.Start != 1 {
		add("pmbr: slot 0 starts at %d != 1", s0.Start)
	}
	want := uint64(0xFFFFFFFF)
	if g.LastLBA < want {
		want = g.LastLBA
	}
	if uint64(s0.Sectors) != want {
		add("pmbr: slot 0 covers %d sectors, want min(sectors-1, 0xFFFFFFFF) = %d", s0.Sectors, want)
	}
	for i := 1; i < 4; i++ {
		if !m.Slots[i].Empty() {
			add("pmbr: slot %d not empty", i)
		}
	}
	return p
}
