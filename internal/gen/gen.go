// Package gen holds the seeded generators shared by the checks.
package gen

import (
	"fmt"
	"math/rand"
)

type R struct{ *rand.Rand }

func New(seed int64) R { return R{rand.New(rand.NewSource(seed))} }

// Sub derives an independent stream.
func (r R) Sub(tag int64) R { return New(r.Int63() ^ tag*0x9E3779B97F4A7C) }

func (r R) Chance(p float64) bool { return r.Float64() < p }
func (r R) Range(lo, hi int) int { // inclusive
	if hi <= lo {
		return lo
	}
	return lo + r.Intn(hi-lo+1)
}
func (r R) Range64(lo, hi int64) int64 {
	if hi <= lo {
		return lo
	}
	return lo + r.Int63n(hi-lo+1)
}
func Pick[T any](r R, xs []T) T { return xs[r.Intn(len(xs))] }

func (r R) GUID(upper bool) string {
	b := make([]byte, 16)
	r.Read(b)
	s := fmt.Sprintf("%08x-%04x-%04x-%04x-%012x", b[0:4], b[4:6], b[6:8], b[8:10], b[10:16])
	if upper {
		out := []byte(s)
		for i, c := range out {
			if c >= 'a' && c <= 'f' {
				out[i] = c - 32
			}
		}
		return string(out)
	}
	return s
}

// PRFBytes fills n bytes determined by (seed, tag).
func PRFBytes(seed uint64, n int) []byte {
	out := make([]byte, n)
	x := seed*0x9E3779B97F4A7C15 + 0x1234567
	for i := 0; i < n; i += 8 {
		x += 0x9E3779B97F4A7C15
		z := x
		z = (z ^ (z >> 30)) * 0xBF58476D1CE4E5B9
		z = (z ^ (z >> 27)) * 0x94D049BB133111EB
		z ^= z >> 31
		for j := 0; j < 8 && i+j < n; j++ {
			out[i+j] = byte(z >> (8 * uint(j)))
		}
	}
	return out
}
