// Package fsdrive runs operation histories against a real filesystem.FileSystem and an in-memory
// reference tree, outcome-driven: the model never predicts whether the library accepts a call.
package fsdrive

import (
	"bytes"
	"errors"
	"fmt"
	"io"
	iofs "io/fs"
	"os"
	"sort"
	"strings"
	"time"

	"github.com/diskfs/go-diskfs/filesystem"

	"verif/internal/core"
	"verif/internal/gen"
	"verif/internal/reftree"
)

type Op struct {
	Kind  string `json:"k"` // mkdir create write append trunc rename remove open hwrite hseek hclose symlink chmod chown chtimes
	Path  string `json:"p,omitempty"`
	Path2 string `json:"p2,omitempty"`
	Off   int64  `json:"off,omitempty"`
	Len   int    `json:"len,omitempty"`
	DSeed uint64 `json:"ds,omitempty"`
	H     int    `json:"h,omitempty"`
	Flag  int    `json:"flag,omitempty"`
	Mode  uint32 `json:"mode,omitempty"`
	UID   int    `json:"uid,omitempty"`
	GID   int    `json:"gid,omitempty"`
	T     [3]int64 `json:"t,omitempty"` // ctime, atime, mtime (unix seconds)
	Err   string `json:"err,omitempty"` // filled after execution (for the witness)
}

func (o Op) String() string {
	s := o.Kind + " " + o.Path
	if o.Path2 != "" {
		s += " -> " + o.Path2
	}
	if o.Kind == "write" || o.Kind == "hwrite" || o.Kind == "append" || o.Kind == "trunc" {
		s += fmt.Sprintf(" off=%d len=%d", o.Off, o.Len)
	}
	if o.Err != "" {
		s += " => ERR " + o.Err
	}
	return s
}

func (o Op) Data() []byte { return gen.PRFBytes(o.DSeed, o.Len) }

type handle struct {
	f      filesystem.File
	path   string
	node   *reftree.Node
	off    int64
	append bool
}

type Cfg struct {
	Prefix     string // finding key prefix, e.g. "C01/fat16"
	FoldCase   bool
	Symlinks   bool
	Attrs      bool
	RootPath   string // how the root is spelled for ReadDir ("." or "/")
	MaxRead    int    // read buffer for content comparison
	NoTwoHandlesSameDir bool
	SkipLinkFollow bool
	NoCompare  bool // structural checks only: the model is still maintained but never compared
}

// CompareTouched compares only the listing of the directory holding p and the content of p.
func (d *Driver) CompareTouched(fs filesystem.FileSystem, route string, p string) bool {
	if d.Cfg.NoCompare {
		return true
	}
	parts := reftree.Split(p)
	if len(parts) == 0 {
		return true
	}
	dir := strings.Join(parts[:len(parts)-1], "/")
	mn := d.Model.Lookup(dir)
	if mn == nil {
		return true
	}
	var ents []iofs.DirEntry
	var err error
	if pi := core.Guard(func() { ents, err = fs.ReadDir(d.dirArg(dir)) }); pi != nil {
		d.Fail("readdir-panic", route+":"+pi.Top+":"+pi.Class, "ReadDir(%q) panicked: %s", dir, pi.Msg)
		return false
	}
	if err != nil {
		d.Fail("listing-error", route, "ReadDir(%q) failed (%s): %v", dir, route, err)
		return false
	}
	got := map[string]bool{}
	for _, e := range ents {
		got[e.Name()] = true
	}
	for _, c := range mn.Children {
		if !got[c.Name] {
			d.Fail("listing-missing", route+"/"+nameClass(c.Name), "directory %q: entry %q of the model is not listed (%s)", dir, c.Name, route)
			return false
		}
		delete(got, c.Name)
	}
	for n := range got {
		if n == "." || n == ".." {
			continue
		}
		d.Fail("listing-extra", route+"/"+nameClass(n), "directory %q lists %q which the model does not contain (%s)", dir, n, route)
		return false
	}
	n := d.Model.Lookup(p)
	if n == nil || n.Dir || n.IsLink {
		return true
	}
	var data []byte
	var steps int
	pi := core.Guard(func() { data, err, steps = ReadAllBounded(fs, p, len(n.Data)) })
	_ = steps
	if pi != nil {
		d.Fail("read-panic", route+":"+pi.Top+":"+pi.Class, "reading %q panicked (%s): %s", p, route, pi.Msg)
		return false
	}
	if err != nil {
		d.Fail("read-fails-on-own-file", route+"/error", "reading %q (model size %d) failed (%s): %v", p, len(n.Data), route, err)
		return false
	}
	if !bytes.Equal(data, n.Data) {
		d.Fail("content", route+"/"+diffClass(n.Data, data), "%q: model has %d bytes, %s returns %d bytes, first difference at %d", p, len(n.Data), route, len(data), firstDiff(n.Data, data))
		return false
	}
	return true
}

type Driver struct {
	Cfg     Cfg
	FS      filesystem.FileSystem
	Model   *reftree.Tree
	Handles [3]*handle
	Res     *core.Result
	History []Op
	Witness func() any // extra witness data (config)
	Replay  func(ops []Op) core.Case
	Diverged bool // model and implementation have diverged; stop the history
	AfterOp func(op Op, err error) // observer (e.g. structural checker)
	Light   bool                   // big fill workloads: compare only what a call touched
}

func (d *Driver) Fail(rule, cause, format string, a ...any) {
	d.Diverged = true
	key := fmt.Sprintf("%s/%s/%s", d.Cfg.Prefix, rule, cause)
	hist := append([]Op(nil), d.History...)
	var w any = map[string]any{"history": hist}
	if d.Witness != nil {
		w = map[string]any{"config": d.Witness(), "history": hist}
	}
	detail := fmt.Sprintf(format, a...)
	if n := len(hist); n > 0 {
		detail += fmt.Sprintf(" [after step %d: %s]", n, hist[n-1].String())
	}
	if d.Replay != nil {
		d.Res.FailReplay(key, detail, w, d.Replay(hist))
	} else {
		d.Res.Fail(key, detail, w)
	}
}

func (d *Driver) root() string {
	if d.Cfg.RootPath != "" {
		return d.Cfg.RootPath
	}
	return "."
}

func (d *Driver) dirArg(p string) string {
	if p == "" {
		return d.root()
	}
	return p
}

// ReadAllBounded reads a file through OpenFile+Read with a bounded number of calls.
func ReadAllBounded(fs filesystem.FileSystem, p string, expect int) (data []byte, err error, steps int) {
	f, err := fs.OpenFile(p, os.O_RDONLY)
	if err != nil {
		return nil, err, 0
	}
	defer f.Close()
	return ReadHandleBounded(f, expect)
}

var ErrNoProgress = errors.New("fsdrive: Read made no progress (0, nil) repeatedly")
var ErrTooMuch = errors.New("fsdrive: Read keeps returning data far beyond the expected size")

func ReadHandleBounded(f io.Reader, expect int) (data []byte, err error, steps int) {
	buf := make([]byte, 64<<10)
	zero := 0
	limit := expect*2 + 1<<20
	for {
		steps++
		n, e := f.Read(buf)
		data = append(data, buf[:n]...)
		if e == io.EOF {
			return data, nil, steps
		}
		if e != nil {
			return data, e, steps
		}
		if n == 0 {
			zero++
			if zero > 8 {
				return data, ErrNoProgress, steps
			}
		} else {
			zero = 0
		}
		if len(data) > limit {
			return data, ErrTooMuch, steps
		}
	}
}

func firstDiff(a, b []byte) int {
	n := len(a)
	if len(b) < n {
		n = len(b)
	}
	for i := 0; i < n; i++ {
		if a[i] != b[i] {
			return i
		}
	}
	if len(a) != len(b) {
		return n
	}
	return -1
}

// diffClass describes how got differs from want (cause predicate for finding keys).
func diffClass(want, got []byte) string {
	switch {
	case len(got) > len(want) && bytes.Equal(got[:len(want)], want):
		return "extra-bytes-after-end"
	case len(got) < len(want) && bytes.Equal(want[:len(got)], got):
		return "truncated"
	case len(got) == len(want):
		// are the differing bytes zeros in want (a gap) ?
		i := firstDiff(want, got)
		if i >= 0 && want[i] == 0 {
			return "gap-not-zero"
		}
		return "wrong-bytes"
	}
	return "wrong-length-and-bytes"
}

// Compare checks every listing and every file of the model against fs. skip: paths exempt from
// comparison (the target of a failed call).
func (d *Driver) Compare(fs filesystem.FileSystem, route string, skip map[string]bool) bool {
	ok := true
	if d.Cfg.NoCompare {
		return true
	}
	for _, dir := range d.Model.Dirs() {
		if skip[dir] {
			continue
		}
		mn := d.Model.Lookup(dir)
		var ents []iofs.DirEntry
		var err error
		pi := core.Guard(func() { ents, err = fs.ReadDir(d.dirArg(dir)) })
		d.Res.Count("observe.readdir", 1)
		if pi != nil {
			d.Fail("readdir-panic", route+":"+pi.Top+":"+pi.Class, "ReadDir(%q) panicked (%s): %s", dir, route, pi.Msg)
			return false
		}
		if err != nil {
			d.Fail("listing-error", route, "ReadDir(%q) failed (%s): %v", dir, route, err)
			return false
		}
		got := map[string]iofs.DirEntry{}
		for _, e := range ents {
			n := e.Name()
			if n == "." || n == ".." || (dir == "" && n == "lost+found") {
				continue
			}
			if _, dup := got[n]; dup {
				d.Fail("listing-duplicate", route, "ReadDir(%q) lists %q twice (%s)", dir, n, route)
				return false
			}
			got[n] = e
		}
		for _, c := range mn.Children {
			full := c.Name
			if dir != "" {
				full = dir + "/" + c.Name
			}
			if skip[full] {
				delete(got, c.Name)
				// also tolerate other spellings of the skipped path
				for n := range got {
					if strings.EqualFold(n, c.Name) {
						delete(got, n)
					}
				}
				continue
			}
			e, okk := got[c.Name]
			if !okk {
				// present under another spelling?
				alt := ""
				for n := range got {
					if strings.EqualFold(n, c.Name) {
						alt = n
					}
				}
				if alt != "" {
					d.Fail("listing-spelling", route+"/"+nameClass(c.Name), "directory %q: entry created as %q is listed as %q (%s)", dir, c.Name, alt, route)
				} else {
					d.Fail("listing-missing", route+"/"+nameClass(c.Name), "directory %q: entry %q of the model is not listed (%s); listed: %v", dir, c.Name, route, keys(got))
				}
				return false
			}
			isDir := e.IsDir()
			if isDir != c.Dir {
				d.Fail("listing-kind", route, "%q: model dir=%v, listed dir=%v (%s)", full, c.Dir, isDir, route)
				return false
			}
			delete(got, c.Name)
		}
		for n := range got {
			full := n
			if dir != "" {
				full = dir + "/" + n
			}
			if skip[full] {
				continue
			}
			skipped := false
			for s := range skip {
				if strings.EqualFold(s, full) {
					skipped = true
				}
			}
			if skipped {
				continue
			}
			d.Fail("listing-extra", route+"/"+nameClass(n), "directory %q lists %q which the model does not contain (%s)", dir, n, route)
			return false
		}
	}
	for _, p := range d.Model.Paths() {
		if skip[p] {
			continue
		}
		n := d.Model.Lookup(p)
		switch {
		case n.Dir:
		case n.IsLink:
			if rl, okk := fs.(interface{ ReadLink(string) (string, error) }); okk {
				var tgt string
				var err error
				pi := core.Guard(func() { tgt, err = rl.ReadLink(p) })
				if pi != nil {
					d.Fail("readlink-panic", route+":"+pi.Top, "ReadLink(%q) panicked: %s", p, pi.Msg)
					return false
				}
				if err != nil {
					d.Fail("readlink-error", route+"/"+linkClass(n.Link), "ReadLink(%q) failed (%s): %v", p, route, err)
					return false
				}
				if tgt != n.Link {
					d.Fail("link-target", route+"/"+linkClass(n.Link), "symlink %q: target %q read back as %q (%s)", p, trunc(n.Link), trunc(tgt), route)
					return false
				}
				d.Res.Count("observe.readlink", 1)
			}
		default:
			var data []byte
			var err error
			var steps int
			pi := core.Guard(func() { data, err, steps = ReadAllBounded(fs, p, len(n.Data)) })
			d.Res.Count("observe.readfile", 1)
			_ = steps
			if pi != nil {
				d.Fail("read-panic", route+":"+pi.Top+":"+pi.Class, "reading %q (size %d) panicked (%s): %s", p, len(n.Data), route, pi.Msg)
				return false
			}
			if err != nil {
				cause := "error"
				if errors.Is(err, ErrNoProgress) {
					cause = "no-progress"
				} else if errors.Is(err, ErrTooMuch) {
					cause = "unbounded-data"
				}
				d.Fail("read-fails-on-own-file", route+"/"+cause, "reading %q (model size %d) failed (%s): %v", p, len(n.Data), route, err)
				return false
			}
			if !bytes.Equal(data, n.Data) {
				d.Fail("content", route+"/"+diffClass(n.Data, data), "%q: model has %d bytes, %s returns %d bytes, first difference at %d", p, len(n.Data), route, len(data), firstDiff(n.Data, data))
				ok = false
				return false
			}
		}
	}
	return ok
}

func trunc(s string) string {
	if len(s) > 80 {
		return fmt.Sprintf("%s...(%d bytes)", s[:80], len(s))
	}
	return s
}

func linkClass(t string) string {
	switch {
	case len(t) < 60:
		return "target<60"
	case len(t) == 60:
		return "target=60"
	}
	return "target>60"
}

func keys(m map[string]iofs.DirEntry) []string {
	var ks []string
	for k := range m {
		ks = append(ks, k)
	}
	sort.Strings(ks)
	return ks
}

// nameClass is the cause predicate for name-related findings.
func nameClass(n string) string {
	ascii := true
	for _, r := range n {
		if r > 127 {
			ascii = false
		}
	}
	base, ext := n, ""
	if i := strings.LastIndex(n, "."); i >= 0 {
		base, ext = n[:i], n[i+1:]
	}
	switch {
	case !ascii:
		return "non-ascii-name"
	case strings.ContainsAny(n, " "):
		return "name-with-space"
	case strings.Count(n, ".") > 1:
		return "name-with-several-dots"
	case len(base) > 8 || len(ext) > 3:
		return "long-name"
	case n != strings.ToUpper(n):
		return "lower-or-mixed-case-8.3"
	}
	return "plain-8.3"
}

// checkThroughHandle reads the whole file back through the handle that just wrote it and then
// restores the handle's position (restore < 0: no restore needed).
func (d *Driver) checkThroughHandle(f filesystem.File, node *reftree.Node, path string, restore int64) bool {
	var data []byte
	var err error
	pi := core.Guard(func() {
		if _, e := f.Seek(0, io.SeekStart); e != nil {
			err = e
			return
		}
		data, err, _ = ReadHandleBounded(f, len(node.Data))
		if restore >= 0 {
			_, e := f.Seek(restore, io.SeekStart)
			if err == nil {
				err = e
			}
		}
	})
	d.Res.Count("observe.same_handle_read", 1)
	if pi != nil {
		d.Fail("read-panic", "same-handle:"+pi.Top+":"+pi.Class, "reading %q back through the handle that wrote it panicked: %s", path, pi.Msg)
		return false
	}
	if err != nil {
		d.Fail("read-fails-on-own-file", "same-handle/error", "reading %q back through the handle that wrote it: %v", path, err)
		return false
	}
	if !bytes.Equal(data, node.Data) {
		d.Fail("content", "same-handle/"+diffClass(node.Data, data), "%q through the handle that wrote it: model %d bytes, got %d, first difference at %d", path, len(node.Data), len(data), firstDiff(node.Data, data))
		return false
	}
	return true
}

func errStr(err error) string {
	if err == nil {
		return ""
	}
	s := err.Error()
	if len(s) > 120 {
		s = s[:120]
	}
	return s
}

// UnixToFileMode converts permission bits incl. 04000/02000/01000 into an os.FileMode.
func UnixToFileMode(m uint32) os.FileMode {
	fm := os.FileMode(m & 0o777)
	if m&0o4000 != 0 {
		fm |= os.ModeSetuid
	}
	if m&0o2000 != 0 {
		fm |= os.ModeSetgid
	}
	if m&0o1000 != 0 {
		fm |= os.ModeSticky
	}
	return fm
}

func unixT(s int64) time.Time { return time.Unix(s, 0).UTC() }

// Apply executes one op on the filesystem and applies the outcome-driven rule to the model.
// It returns the library's error.
func (d *Driver) Apply(op Op) error {
	fs := d.FS
	var err error
	var pi *core.PanicInfo
	m := d.Model
	targets := map[string]bool{}
	mark := func(p string) {
		if p != "" {
			targets[p] = true
		}
	}
	if op.Kind == "xrename" {
		op.Kind = "rename" // cross-directory rename: an ordinary rename for model and library
	}
	switch op.Kind {
	case "mkdir":
		pi = core.Guard(func() { err = fs.Mkdir(op.Path) })
		if pi == nil && err == nil {
			if e := m.MkdirAll(op.Path); e != nil {
				d.History = append(d.History, op)
				d.Fail("accepted-invalid-call", "mkdir-over-file", "Mkdir(%q) succeeded although a path component is a file in the model", op.Path)
				return nil
			}
		}
		mark(op.Path)
	case "create", "write", "append", "trunc":
		flag := os.O_RDWR | os.O_CREATE
		if op.Kind == "append" {
			flag = os.O_RDWR | os.O_APPEND
		}
		if op.Kind == "trunc" {
			flag = os.O_RDWR | os.O_CREATE | os.O_TRUNC
		}
		if op.Kind == "write" && op.Flag != 0 {
			flag = op.Flag
		}
		var f filesystem.File
		mark(op.Path)
		existed := m.Lookup(op.Path)
		pi = core.Guard(func() { f, err = fs.OpenFile(op.Path, flag) })
		if pi == nil && err == nil {
			node := existed
			if node == nil {
				if flag&os.O_CREATE == 0 {
					d.History = append(d.History, op)
					d.Fail("accepted-invalid-call", "open-missing-without-create", "OpenFile(%q) without O_CREATE succeeded on a path the model does not have", op.Path)
					return nil
				}
				var e error
				node, e = m.Create(op.Path)
				if e != nil {
					d.History = append(d.History, op)
					d.Fail("accepted-invalid-call", "create-in-missing-or-file-parent", "OpenFile(%q, O_CREATE) succeeded but the model refuses: %v", op.Path, e)
					return nil
				}
			} else if node.Dir {
				// opening a directory: allowed, nothing to model; close and go on
				pi = core.Guard(func() { _ = f.Close() })
				break
			}
			if flag&os.O_TRUNC != 0 {
				node.Data = nil
			}
			if op.Kind != "create" && op.Len > 0 {
				data := op.Data()
				off := op.Off
				pi = core.Guard(func() {
					if op.Kind == "append" {
						off = int64(len(node.Data))
					} else if off != 0 {
						if _, e := f.Seek(off, io.SeekStart); e != nil {
							err = fmt.Errorf("seek: %w", e)
							return
						}
					}
					var n int
					n, err = f.Write(data)
					if err == nil && n != len(data) {
						err = fmt.Errorf("short write %d of %d without error", n, len(data))
					}
				})
				if pi == nil && err == nil {
					node.WriteAt(off, data)
					if op.Kind != "append" && !d.Cfg.NoCompare {
						d.History = append(d.History, op)
						if !d.checkThroughHandle(f, node, op.Path, -1) {
							return nil
						}
						d.History = d.History[:len(d.History)-1]
					}
				}
			}
			if pi == nil {
				pi2 := core.Guard(func() {
					if e := f.Close(); e != nil && err == nil {
						err = fmt.Errorf("close: %w", e)
					}
				})
				if pi2 != nil {
					pi = pi2
				}
			}
		}
	case "open":
		if d.Handles[op.H] != nil {
			return nil
		}
		var f filesystem.File
		flag := op.Flag
		if flag == 0 {
			flag = os.O_RDWR | os.O_CREATE
		}
		mark(op.Path)
		pi = core.Guard(func() { f, err = fs.OpenFile(op.Path, flag) })
		if pi == nil && err == nil {
			node := m.Lookup(op.Path)
			if node == nil {
				var e error
				node, e = m.Create(op.Path)
				if e != nil {
					d.History = append(d.History, op)
					d.Fail("accepted-invalid-call", "create-in-missing-or-file-parent", "OpenFile(%q, O_CREATE) succeeded but the model refuses: %v", op.Path, e)
					return nil
				}
			}
			if node.Dir {
				_ = f.Close()
				break
			}
			if flag&os.O_TRUNC != 0 {
				node.Data = nil
			}
			h := &handle{f: f, path: op.Path, node: node, append: flag&os.O_APPEND != 0}
			if h.append {
				h.off = int64(len(node.Data))
			}
			d.Handles[op.H] = h
			d.Res.Count("handles.opened", 1)
		}
	case "hseek":
		h := d.Handles[op.H]
		if h == nil || h.append {
			return nil
		}
		mark(h.path)
		pi = core.Guard(func() { _, err = h.f.Seek(op.Off, io.SeekStart) })
		if pi == nil && err == nil {
			h.off = op.Off
		}
	case "hwrite":
		h := d.Handles[op.H]
		if h == nil {
			return nil
		}
		mark(h.path)
		data := op.Data()
		off := h.off
		if h.append {
			// an append handle writes at the size seen at open and continues from there
			off = h.off
		}
		pi = core.Guard(func() {
			var n int
			n, err = h.f.Write(data)
			if err == nil && n != len(data) {
				err = fmt.Errorf("short write %d of %d without error", n, len(data))
			}
		})
		if pi == nil && err == nil {
			h.node.WriteAt(off, data)
			h.off = off + int64(len(data))
			if !h.append && !d.Cfg.NoCompare {
				d.History = append(d.History, op)
				if !d.checkThroughHandle(h.f, h.node, h.path, h.off) {
					return nil
				}
				d.History = d.History[:len(d.History)-1]
			}
		}
	case "hclose":
		h := d.Handles[op.H]
		if h == nil {
			return nil
		}
		mark(h.path)
		pi = core.Guard(func() { err = h.f.Close() })
		d.Handles[op.H] = nil
	case "rename":
		mark(op.Path)
		mark(op.Path2)
		pi = core.Guard(func() { err = fs.Rename(op.Path, op.Path2) })
		if pi == nil && err == nil {
			if e := m.Rename(op.Path, op.Path2); e != nil {
				d.History = append(d.History, op)
				d.Fail("accepted-invalid-call", "rename", "Rename(%q,%q) succeeded but the model refuses: %v", op.Path, op.Path2, e)
				return nil
			}
			for _, h := range d.Handles {
				if h != nil && h.path == op.Path {
					h.path = op.Path2
				}
			}
		}
	case "remove":
		mark(op.Path)
		pi = core.Guard(func() { err = fs.Remove(op.Path) })
		if pi == nil && err == nil {
			if e := m.Remove(op.Path); e != nil {
				d.History = append(d.History, op)
				cause := "remove-missing"
				if errors.Is(e, reftree.ErrNotEmpty) {
					cause = "remove-non-empty-directory"
				}
				d.Fail("accepted-invalid-call", cause, "Remove(%q) succeeded but the model refuses: %v", op.Path, e)
				return nil
			}
		}
	case "symlink":
		mark(op.Path)
		pi = core.Guard(func() { err = fs.Symlink(op.Path2, op.Path) })
		if pi == nil && err == nil {
			if e := m.Symlink(op.Path2, op.Path); e != nil {
				d.History = append(d.History, op)
				d.Fail("accepted-invalid-call", "symlink-over-existing", "Symlink(%q) succeeded but the model refuses: %v", op.Path, e)
				return nil
			}
		}
	case "chmod":
		mark(op.Path)
		pi = core.Guard(func() { err = fs.Chmod(op.Path, UnixToFileMode(op.Mode)) })
		if pi == nil && err == nil {
			if n := m.Lookup(op.Path); n != nil {
				n.Attr.Mode, n.Attr.ModeSet = op.Mode, true
			}
		}
	case "chown":
		mark(op.Path)
		pi = core.Guard(func() { err = fs.Chown(op.Path, op.UID, op.GID) })
		if pi == nil && err == nil {
			if n := m.Lookup(op.Path); n != nil {
				if op.UID != -1 {
					n.Attr.UID = int64(op.UID)
				}
				if op.GID != -1 {
					n.Attr.GID = int64(op.GID)
				}
				n.Attr.OwnerSet = true
			}
		}
	case "chtimes":
		mark(op.Path)
		pi = core.Guard(func() { err = fs.Chtimes(op.Path, unixT(op.T[0]), unixT(op.T[1]), unixT(op.T[2])) })
		if pi == nil && err == nil {
			if n := m.Lookup(op.Path); n != nil {
				n.Attr.Ctime, n.Attr.Atime, n.Attr.Mtime, n.Attr.TimesSet = unixT(op.T[0]), unixT(op.T[1]), unixT(op.T[2]), true
			}
		}
	default:
		panic("fsdrive: unknown op " + op.Kind)
	}
	if pi == nil && err == nil {
		switch op.Kind {
		case "chmod", "chown", "chtimes", "hseek", "hclose", "open":
		default:
			// a mutation legitimately updates the times of the node and of its directory
			for t := range targets {
				if n := m.Lookup(t); n != nil {
					n.Attr.TimesSet = false
				}
				parts := reftree.Split(t)
				if len(parts) > 0 {
					if n := m.Lookup(strings.Join(parts[:len(parts)-1], "/")); n != nil {
						n.Attr.TimesSet = false
					}
				}
			}
		}
	}
	op.Err = errStr(err)
	d.History = append(d.History, op)
	outcome := "ok"
	if err != nil {
		outcome = "err"
	}
	d.Res.Count("calls."+op.Kind+"."+outcome, 1)
	if pi != nil {
		d.Fail("panic", op.Kind+":"+pi.Top+":"+pi.Class, "%s panicked: %s", op.Kind, pi.Msg)
		return err
	}
	if d.AfterOp != nil {
		d.AfterOp(op, err)
		if d.Diverged {
			return err
		}
	}
	if err != nil {
		if isNoSpace(err) {
			d.Res.Mark("ENOSPC reached")
			d.Res.Count("enospc", 1)
		}
		// error atomicity: everything except the targeted path(s) must equal the unchanged model
		skip := map[string]bool{}
		for t := range targets {
			skip[t] = true
		}
		if d.Light {
			d.resync(targets)
			return err
		}
		if !d.Compare(fs, "live-after-error", skip) {
			// re-key: it is an error-atomicity violation
			return err
		}
		d.Res.Count("error_atomicity.checked", 1)
		d.resync(targets)
		return err
	}
	return nil
}

func isNoSpace(err error) bool {
	s := strings.ToLower(err.Error())
	return strings.Contains(s, "no space") || strings.Contains(s, "full") || strings.Contains(s, "not enough") || strings.Contains(s, "out of space") || strings.Contains(s, "no free")
}

// resync re-reads the state of the targeted paths from the implementation into the model.
func (d *Driver) resync(targets map[string]bool) {
	for p := range targets {
		parts := reftree.Split(p)
		if len(parts) == 0 {
			continue
		}
		dir := strings.Join(parts[:len(parts)-1], "/")
		name := parts[len(parts)-1]
		pn := d.Model.Lookup(dir)
		if pn == nil || !pn.Dir {
			continue
		}
		var ents []iofs.DirEntry
		var err error
		if pi := core.Guard(func() { ents, err = d.FS.ReadDir(d.dirArg(dir)) }); pi != nil || err != nil {
			continue
		}
		var found iofs.DirEntry
		for _, e := range ents {
			if e.Name() == name || (d.Cfg.FoldCase && strings.EqualFold(e.Name(), name)) {
				found = e
			}
		}
		key := name
		if d.Cfg.FoldCase {
			key = strings.ToLower(name)
		}
		cur := pn.Children[key]
		switch {
		case found == nil:
			if cur != nil {
				delete(pn.Children, key)
				d.Res.Count("resync.removed", 1)
			}
		case found.IsDir():
			if cur == nil || !cur.Dir {
				pn.Children[key] = &reftree.Node{Name: found.Name(), Dir: true, Children: map[string]*reftree.Node{}}
				d.Res.Count("resync.dir", 1)
			}
		default:
			if cur != nil && cur.IsLink {
				continue
			}
			var data []byte
			var rerr error
			if pi := core.Guard(func() { data, rerr, _ = ReadAllBounded(d.FS, p, 1<<20) }); pi != nil || rerr != nil {
				continue
			}
			if cur == nil || cur.Dir {
				cur = &reftree.Node{Name: found.Name()}
				pn.Children[key] = cur
			}
			if !bytes.Equal(cur.Data, data) {
				d.Res.Count("resync.content", 1)
			}
			cur.Data = data
			for _, h := range d.Handles {
				if h != nil && h.path == p {
					h.node = cur
				}
			}
		}
	}
}

// HandlePaths lists the paths of the open handles.
func (d *Driver) HandlePaths() []string {
	var out []string
	for _, h := range d.Handles {
		if h != nil {
			out = append(out, h.path)
		}
	}
	return out
}

// CloseAll closes every open handle.
func (d *Driver) CloseAll() {
	for i, h := range d.Handles {
		if h != nil {
			core.Guard(func() { _ = h.f.Close() })
			d.Handles[i] = nil
		}
	}
}
