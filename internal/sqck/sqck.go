// Package sqck is an independent reader of the squashfs 4.0 superblock and its table pointers,
// written from the on-disk format description. It shares no code with go-diskfs.
package sqck

import (
	"encoding/binary"
	"fmt"
)

const none = ^uint64(0)

type Super struct {
	Magic       uint32
	InodeCount  uint32
	ModTime     uint32
	BlockSize   uint32
	FragCount   uint32
	Compressor  uint16
	BlockLog    uint16
	Flags       uint16
	IDCount     uint16
	Major       uint16
	Minor       uint16
	RootInode   uint64
	BytesUsed   uint64
	IDTable     uint64
	XattrTable  uint64
	InodeTable  uint64
	DirTable    uint64
	FragTable   uint64
	ExportTable uint64
}

func Parse(b []byte) (*Super, error) {
	if len(b) < 96 {
		return nil, fmt.Errorf("short superblock: %d bytes", len(b))
	}
	le := binary.LittleEndian
	s := &Super{
		Magic: le.Uint32(b[0:]), InodeCount: le.Uint32(b[4:]), ModTime: le.Uint32(b[8:]), BlockSize: le.Uint32(b[12:]),
		FragCount: le.Uint32(b[16:]), Compressor: le.Uint16(b[20:]), BlockLog: le.Uint16(b[22:]), Flags: le.Uint16(b[24:]),
		IDCount: le.Uint16(b[26:]), Major: le.Uint16(b[28:]), Minor: le.Uint16(b[30:]), RootInode: le.Uint64(b[32:]),
		BytesUsed: le.Uint64(b[40:]), IDTable: le.Uint64(b[48:]), XattrTable: le.Uint64(b[56:]), InodeTable: le.Uint64(b[64:]),
		DirTable: le.Uint64(b[72:]), FragTable: le.Uint64(b[80:]), ExportTable: le.Uint64(b[88:]),
	}
	return s, nil
}

// Check returns rule violations of the superblock's own consistency.
func (s *Super) Check() []string {
	var p []string
	add := func(f string, a ...any) { p = append(p, fmt.Sprintf(f, a...)) }
	if s.Magic != 0x73717368 {
		add("magic %#x is not 'hsqs'", s.Magic)
		return p
	}
	if s.Major != 4 || s.Minor != 0 {
		add("version %d.%d is not 4.0", s.Major, s.Minor)
	}
	if s.BlockSize == 0 || s.BlockSize&(s.BlockSize-1) != 0 || s.BlockSize < 4096 || s.BlockSize > 1<<20 {
		add("block size %d is not a power of two in [4096, 1 MiB]", s.BlockSize)
	} else if uint32(1)<<s.BlockLog != s.BlockSize {
		add("block_log %d does not match block size %d", s.BlockLog, s.BlockSize)
	}
	type tp struct {
		name string
		v    uint64
		req  bool
	}
	for _, t := range []tp{{"inode table", s.InodeTable, true}, {"directory table", s.DirTable, true}, {"id table", s.IDTable, true},
		{"fragment table", s.FragTable, false}, {"export table", s.ExportTable, false}, {"xattr table", s.XattrTable, false}} {
		if t.v == none {
			if t.req {
				add("%s pointer is absent", t.name)
			}
			continue
		}
		if t.v < 96 || t.v >= s.BytesUsed {
			add("%s starts at %d, outside [96, bytes_used=%d)", t.name, t.v, s.BytesUsed)
		}
	}
	if s.InodeTable != none && s.DirTable != none && s.InodeTable >= s.DirTable {
		add("inode table (%d) does not precede the directory table (%d)", s.InodeTable, s.DirTable)
	}
	if s.FragTable != none && s.DirTable != none && s.DirTable >= s.FragTable {
		add("directory table (%d) does not precede the fragment table (%d)", s.DirTable, s.FragTable)
	}
	if s.RootInode>>16 >= s.DirTable-s.InodeTable && s.DirTable > s.InodeTable {
		add("root inode reference %#x points beyond the inode table", s.RootInode)
	}
	return p
}
