// Package core is the check framework: case lists, worker children with a case journal,
// aggregation of what monitors observed, findings protocol and evidence files.
package core

import (
	"os"
	"crypto/sha256"
	"encoding/hex"
	"encoding/json"
	"fmt"
	"sort"
)

// Case is one unit of workload; the list of cases is a pure function of (seed, tier).
type Case struct {
	ID      string          `json:"id"`
	Kind    string          `json:"kind"`
	Seed    int64           `json:"seed"`
	Params  json.RawMessage `json:"params,omitempty"`
	Witness string          `json:"witness,omitempty"` // key of the known finding this case is the witness of
	CPUSec  int             `json:"cpu_sec,omitempty"` // per-case CPU budget override
}

func (c Case) Decode(v any) {
	if len(c.Params) == 0 {
		return
	}
	if err := json.Unmarshal(c.Params, v); err != nil {
		panic(fmt.Sprintf("case %s: bad params: %v", c.ID, err))
	}
}

func MkCase(id, kind string, seed int64, params any) Case {
	var raw json.RawMessage
	if params != nil {
		b, err := json.Marshal(params)
		if err != nil {
			panic(err)
		}
		raw = b
	}
	return Case{ID: id, Kind: kind, Seed: seed, Params: raw}
}

// Finding is one observed violation, keyed by facts of the violation (not by the seed).
type Finding struct {
	Key     string `json:"key"`
	Detail  string `json:"detail"`
	Witness any    `json:"witness,omitempty"`
	Replay  *Case  `json:"replay,omitempty"` // smaller case reproducing exactly this finding
}

// Result is what the monitors of one case observed.
type Result struct {
	CaseID       string           `json:"case"`
	Findings     []Finding        `json:"findings,omitempty"`
	Inconclusive string           `json:"inconclusive,omitempty"`
	Counters     map[string]int64 `json:"counters,omitempty"`
	Sigs         []string         `json:"sigs,omitempty"`  // signatures of distinct non-trivial cases/sub-cases
	Marks        []string         `json:"marks,omitempty"` // boundary classes reached
	Evals        int64            `json:"evals,omitempty"` // evaluations inside this case (default 1)
	Sample       any              `json:"sample,omitempty"`
	Extra        json.RawMessage  `json:"extra,omitempty"` // data for the parent-side Post step
	WallMs       int64            `json:"wall_ms,omitempty"`
}

func (r *Result) Count(name string, n int64) {
	if r.Counters == nil {
		r.Counters = map[string]int64{}
	}
	r.Counters[name] += n
}
func (r *Result) Mark(name string) {
	for _, m := range r.Marks {
		if m == name {
			return
		}
	}
	r.Marks = append(r.Marks, name)
}
func (r *Result) Sig(parts ...any) {
	r.Sigs = append(r.Sigs, Hash(parts...))
}
func (r *Result) Fail(key, detail string, witness any) {
	if len(r.Findings) >= 20 {
		return
	}
	r.Findings = append(r.Findings, Finding{Key: key, Detail: detail, Witness: witness})
}
// FailReplay records a finding together with a minimal case that replays it.
func (r *Result) FailReplay(key, detail string, witness any, replay Case) {
	if len(r.Findings) >= 60 {
		return
	}
	r.Findings = append(r.Findings, Finding{Key: key, Detail: detail, Witness: witness, Replay: &replay})
}
func (r *Result) Failf(key string, witness any, format string, a ...any) {
	r.Fail(key, fmt.Sprintf(format, a...), witness)
}

// Hash returns a short stable hash of the JSON of its arguments.
func Hash(parts ...any) string {
	h := sha256.New()
	for _, p := range parts {
		switch v := p.(type) {
		case string:
			h.Write([]byte(v))
		case []byte:
			h.Write(v)
		default:
			b, _ := json.Marshal(v)
			h.Write(b)
		}
		h.Write([]byte{0})
	}
	return hex.EncodeToString(h.Sum(nil))[:16]
}

// Env is what a worker gives to Run.
type Env struct {
	Tier    string
	Seed    int64
	Scratch string // private scratch dir (under /dev/shm), removed by the parent
	Self    string // path of the running binary
	Replay  bool
	ResetCPU func()
	NoteFn  func(s string)
}

// Note records (in the case journal) what the worker is about to do, so that a fatal death of the
// process can be attributed to a sub-case.
// StepCPU restarts the CPU budget of the running case (see worker.go); a no-op outside a worker.
func (e *Env) StepCPU() {
	if e.ResetCPU != nil {
		e.ResetCPU()
	}
}

func (e *Env) Note(s string) {
	if e.NoteFn != nil {
		e.NoteFn(s)
	}
}

// Aggregate is the parent's view after all workers finished.
type Aggregate struct {
	Results  []Result
	Counters map[string]int64
	Marks    map[string]int64
	Sigs     map[string]bool
	Evals    int64
	Deaths   int
	Extra    map[string]any // filled by Post for the evidence file
	PostFindings []CaseFinding
	PostInconclusive []string
}

type CaseFinding struct {
	Case    Case
	Finding Finding
}

// Check describes one property's machinery.
type Check struct {
	ID          string
	Level       string // exploration | fault_enumeration
	Rule        string
	Assumptions []string
	Race        bool // run workers from the -race binary
	Cases       func(seed int64, tier string) []Case
	Run         func(c Case, env *Env) Result
	Post        func(a *Aggregate, cases []Case) // optional cross-case oracle, parent side
	// Floors: minimum number of distinct non-trivial signatures / marks that must have been seen;
	// below it the run is inconclusive (exit 2), never "held".
	MinSigs   map[string]int // per tier
	NeedMarks []string
	Workers   int // 0 => 16
	CPUSec    int // per-case CPU seconds (default 120)
	WallSec   int // wall-clock watchdog (default 900 s without journal growth and without CPU use by the worker); firing is inconclusive
	BatchMax  int // max cases per worker process (default: spread evenly)
	NoRlimitAS bool
	DeathKey   func(c Case, class, stderr, note string) string
}

var registry = map[string]*Check{}

func Register(c *Check) {
	if _, dup := registry[c.ID]; dup {
		panic("duplicate check " + c.ID)
	}
	registry[c.ID] = c
}
func Lookup(id string) *Check { return registry[id] }
func IDs() []string {
	var ids []string
	for k := range registry {
		ids = append(ids, k)
	}
	sort.Strings(ids)
	return ids
}

// Sub-commands that checks register for their own helper child processes (e.g. C14's second
// process, C15's isolated reader).
var subs = map[string]func(args []string) int{}

func RegisterSub(name string, f func(args []string) int) { subs[name] = f }

// SubMain dispatches "vcheck <sub> ..." and reports whether it handled the call.
func SubMain(args []string) bool {
	if f, ok := subs[args[0]]; ok {
		os.Exit(f(args[1:]))
	}
	return false
}
