package core

import (
	"bufio"
	"encoding/json"
	"fmt"
	"os"
	"regexp"
	"runtime"
	"runtime/debug"
	"strings"
	"sync"
	"syscall"
	"time"
)

type journalLine struct {
	Begin  string  `json:"begin,omitempty"`
	End    string  `json:"end,omitempty"`
	CPU    string  `json:"cpu_exceeded,omitempty"`
	Note   string  `json:"note,omitempty"`
	Result *Result `json:"result,omitempty"`
}

func cpuSeconds() float64 {
	var ru syscall.Rusage
	if err := syscall.Getrusage(syscall.RUSAGE_SELF, &ru); err != nil {
		return 0
	}
	return float64(ru.Utime.Sec) + float64(ru.Utime.Usec)/1e6 + float64(ru.Stime.Sec) + float64(ru.Stime.Usec)/1e6
}

// PanicInfo describes a recovered panic.
type PanicInfo struct {
	Msg   string
	Class string // normalised message (numbers stripped)
	Top   string // innermost go-diskfs function on the stack
	Stack string
}

var numRe = regexp.MustCompile(`[0-9]+`)
var hexRe = regexp.MustCompile(`0x[0-9a-fA-F]+`)

func classify(msg string) string {
	m := hexRe.ReplaceAllString(msg, "H")
	m = numRe.ReplaceAllString(m, "N")
	if len(m) > 80 {
		m = m[:80]
	}
	m = strings.ReplaceAll(m, " ", "_")
	m = strings.ReplaceAll(m, "/", "_")
	return m
}

func topRepoFrame(stack string) string {
	lines := strings.Split(stack, "\n")
	for _, l := range lines {
		if strings.HasPrefix(l, "github.com/diskfs/go-diskfs/") {
			fn := strings.TrimPrefix(l, "github.com/diskfs/go-diskfs/")
			if i := strings.LastIndex(fn, "("); i > 0 {
				fn = fn[:i]
			}
			return fn
		}
	}
	return "unknown"
}

// Guard runs f and reports a panic instead of propagating it.
func Guard(f func()) (pi *PanicInfo) {
	defer func() {
		if r := recover(); r != nil {
			st := string(debug.Stack())
			msg := fmt.Sprint(r)
			pi = &PanicInfo{Msg: msg, Class: classify(msg), Top: topRepoFrame(st), Stack: st}
		}
	}()
	f()
	return nil
}

// WorkerMain runs the cases of a batch file, journalling BEGIN/END around each.
func WorkerMain(id, batchFile, journalFile string) int {
	chk := Lookup(id)
	if chk == nil {
		fmt.Fprintf(os.Stderr, "unknown check %s\n", id)
		return 4
	}
	raw, err := os.ReadFile(batchFile)
	if err != nil {
		fmt.Fprintln(os.Stderr, err)
		return 4
	}
	var cases []Case
	if err := json.Unmarshal(raw, &cases); err != nil {
		fmt.Fprintln(os.Stderr, err)
		return 4
	}
	jf, err := os.OpenFile(journalFile, os.O_WRONLY|os.O_CREATE|os.O_APPEND, 0o600)
	if err != nil {
		fmt.Fprintln(os.Stderr, err)
		return 4
	}
	defer jf.Close()
	var jmu sync.Mutex
	writeJ := func(l journalLine) {
		b, _ := json.Marshal(l)
		jmu.Lock()
		jf.Write(append(b, '\n'))
		jmu.Unlock()
	}
	if !chk.NoRlimitAS && !chk.Race {
		lim := uint64(24) << 30
		_ = syscall.Setrlimit(syscall.RLIMIT_AS, &syscall.Rlimit{Cur: lim, Max: lim})
	}
	seed := int64(1)
	fmt.Sscan(os.Getenv("VERIF_SEED"), &seed)
	env := &Env{Tier: os.Getenv("VERIF_TIER"), Seed: seed, Scratch: os.Getenv("VERIF_SCRATCH"), Replay: os.Getenv("VERIF_REPLAY") == "1"}
	env.Self, _ = os.Executable()
	env.NoteFn = func(s string) { writeJ(journalLine{Note: s}) }

	// CPU watchdog (logical cost, not wall clock)
	var wmu sync.Mutex
	curCase := ""
	curStart := 0.0
	curBudget := 0.0
	go func() {
		for {
			time.Sleep(200 * time.Millisecond)
			wmu.Lock()
			c, st, b := curCase, curStart, curBudget
			wmu.Unlock()
			if c == "" {
				continue
			}
			if cpuSeconds()-st > b {
				writeJ(journalLine{CPU: c})
				fmt.Fprintf(os.Stderr, "\nVERIF cpu budget exceeded in case %s (%.0fs)\n", c, b)
				buf := make([]byte, 1<<20)
				n := runtime.Stack(buf, true)
				os.Stderr.Write(buf[:n])
				os.Exit(3)
			}
		}
	}()

	// a case that consists of many independent steps may restart the budget at each step, so that a budget
	// death is the fault of the step that was running and not of the sum of its predecessors
	env.ResetCPU = func() {
		wmu.Lock()
		curStart = cpuSeconds()
		wmu.Unlock()
	}
	for _, c := range cases {
		budget := chk.CPUSec
		if c.CPUSec > 0 {
			budget = c.CPUSec
		}
		if budget == 0 {
			budget = 120
		}
		writeJ(journalLine{Begin: c.ID})
		wmu.Lock()
		curCase, curStart, curBudget = c.ID, cpuSeconds(), float64(budget)
		wmu.Unlock()
		var res Result
		t0 := time.Now()
		pi := Guard(func() { res = chk.Run(c, env) })
		res.WallMs = time.Since(t0).Milliseconds()
		wmu.Lock()
		curCase = ""
		wmu.Unlock()
		if pi != nil {
			res.Fail(fmt.Sprintf("%s/%s/panic/%s:%s", id, c.Kind, pi.Top, pi.Class), "panic escaped the case: "+pi.Msg, map[string]any{"stack": trimStack(pi.Stack)})
		}
		res.CaseID = c.ID
		writeJ(journalLine{End: c.ID, Result: &res})
	}
	return 0
}

func trimStack(s string) string {
	if len(s) > 3000 {
		return s[:3000]
	}
	return s
}

func readJournal(path string) (done map[string]*Result, open string, cpu string, note string) {
	done = map[string]*Result{}
	f, err := os.Open(path)
	if err != nil {
		return
	}
	defer f.Close()
	sc := bufio.NewScanner(f)
	sc.Buffer(make([]byte, 1<<20), 256<<20)
	for sc.Scan() {
		var l journalLine
		if json.Unmarshal(sc.Bytes(), &l) != nil {
			continue
		}
		switch {
		case l.Note != "":
			note = l.Note
		case l.Begin != "":
			open = l.Begin
			note = ""
		case l.End != "":
			done[l.End] = l.Result
			if open == l.End {
				open = ""
			}
		case l.CPU != "":
			cpu = l.CPU
		}
	}
	return
}
