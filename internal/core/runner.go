package core

import (
	"strconv"
	"bytes"
	"encoding/json"
	"fmt"
	"os"
	"os/exec"
	"path/filepath"
	"regexp"
	"sort"
	"strings"
	"sync"
	"syscall"
	"time"
)

// Known finding file entry.
type Known struct {
	Key      string          `json:"key"`
	Property string          `json:"property"`
	Status   string          `json:"status"` // open | fixed
	Commit   string          `json:"commit,omitempty"`
	What     string          `json:"what"`
	Case     *Case           `json:"case,omitempty"` // deterministic witness case
	Witness  json.RawMessage `json:"witness,omitempty"`
}

func VerifDir() string {
	if d := os.Getenv("VERIF_DIR"); d != "" {
		return d
	}
	return "/verif"
}

func LoadKnown() ([]Known, error) {
	raw, err := os.ReadFile(filepath.Join(VerifDir(), "known_findings.json"))
	if err != nil {
		if os.IsNotExist(err) {
			return nil, nil
		}
		return nil, err
	}
	var ks []Known
	if err := json.Unmarshal(raw, &ks); err != nil {
		return nil, fmt.Errorf("known_findings.json: %v", err)
	}
	return ks, nil
}

type deathInfo struct {
	class  string
	stderr string
	note   string
}

var fatalRe = regexp.MustCompile(`(?m)^fatal error: (.*)$`)

// procCPUTicks returns user+system time (own and of waited-for children) of a process in clock ticks, -1 if unknown
func procCPUTicks(pid int) int64 {
	b, err := os.ReadFile(fmt.Sprintf("/proc/%d/stat", pid))
	if err != nil {
		return -1
	}
	i := strings.LastIndexByte(string(b), ')')
	if i < 0 {
		return -1
	}
	f := strings.Fields(string(b[i+1:]))
	if len(f) < 15 {
		return -1
	}
	var total int64
	for _, k := range []int{11, 12, 13, 14} { // utime stime cutime cstime (fields 14..17 of the line)
		var v int64
		fmt.Sscan(f[k], &v)
		total += v
	}
	return total
}

func classifyDeath(stderr string, cpu bool, ws syscall.WaitStatus, wallFired bool) string {
	switch {
	case cpu:
		return "cpu-limit"
	case wallFired:
		return "wall-watchdog"
	}
	if m := fatalRe.FindStringSubmatch(stderr); m != nil {
		msg := m[1]
		if strings.Contains(msg, "out of memory") || strings.Contains(msg, "cannot allocate") {
			return "fatal-oom"
		}
		return "fatal-" + classify(msg)
	}
	if strings.Contains(stderr, "out of memory") {
		return "fatal-oom"
	}
	if strings.Contains(stderr, "WARNING: DATA RACE") {
		return "race-abort"
	}
	if ws.Signaled() {
		return "signal-" + ws.Signal().String()
	}
	return fmt.Sprintf("exit-%d", ws.ExitStatus())
}

func tail(s string, n int) string {
	if len(s) > n {
		return s[len(s)-n:]
	}
	return s
}

// RunCheck is the parent: runs all cases in worker children, aggregates, writes evidence, prints
// the verdict lines and returns the exit status.
func RunCheck(id, tier string, seed int64, replayFile string) int {
	t0 := time.Now()
	chk := Lookup(id)
	if chk == nil {
		fmt.Fprintf(os.Stderr, "unknown check %s (have %v)\n", id, IDs())
		return 4
	}
	known, err := LoadKnown()
	if err != nil {
		fmt.Fprintln(os.Stderr, err)
		return 4
	}
	openKeys := map[string]*Known{}
	var witnessCases []Case
	for i := range known {
		k := &known[i]
		if k.Property != id || k.Status != "open" {
			continue
		}
		openKeys[k.Key] = k
		if k.Case != nil {
			c := *k.Case
			c.Witness = k.Key
			c.ID = "witness:" + k.Key
			witnessCases = append(witnessCases, c)
		}
	}
	var cases []Case
	if replayFile != "" {
		raw, err := os.ReadFile(replayFile)
		if err != nil {
			fmt.Fprintln(os.Stderr, err)
			return 4
		}
		var rp struct {
			Case Case `json:"case"`
		}
		if err := json.Unmarshal(raw, &rp); err != nil {
			fmt.Fprintln(os.Stderr, err)
			return 4
		}
		cases = []Case{rp.Case}
	} else {
		cases = append(witnessCases, chk.Cases(seed, tier)...)
	}
	seen := map[string]bool{}
	for _, c := range cases {
		if seen[c.ID] {
			fmt.Fprintf(os.Stderr, "duplicate case id %s\n", c.ID)
			return 4
		}
		seen[c.ID] = true
	}

	scratchBase := "/dev/shm"
	if st, err := os.Stat(scratchBase); err != nil || !st.IsDir() {
		scratchBase = os.TempDir()
	}
	scratch, err := os.MkdirTemp(scratchBase, "verif-"+id+"-")
	if err != nil {
		fmt.Fprintln(os.Stderr, err)
		return 4
	}
	defer os.RemoveAll(scratch)

	self, _ := os.Executable()
	bin := self
	if chk.Race {
		bin = filepath.Join(filepath.Dir(self), "vcheck-race")
	}
	workers := chk.Workers
	if workers == 0 {
		workers = 16
	}
	if workers > len(cases) {
		workers = len(cases)
	}
	if workers < 1 {
		workers = 1
	}
	chunk := (len(cases) + workers*3 - 1) / (workers * 3)
	if chunk < 1 {
		chunk = 1
	}
	if chk.BatchMax > 0 && chunk > chk.BatchMax {
		chunk = chk.BatchMax
	}
	wall := chk.WallSec
	if wall == 0 {
		wall = 900
	}
	if v, err := strconv.Atoi(os.Getenv("VERIF_WALL_SEC")); err == nil && v > 0 {
		wall = v // for testing the watchdog itself
	}

	var mu sync.Mutex
	next := 0
	results := map[string]*Result{}
	deaths := map[string]deathInfo{}
	var raceLogs []string
	take := func() []Case {
		mu.Lock()
		defer mu.Unlock()
		if next >= len(cases) {
			return nil
		}
		end := next + chunk
		if end > len(cases) {
			end = len(cases)
		}
		b := cases[next:end]
		next = end
		return b
	}
	var wg sync.WaitGroup
	for w := 0; w < workers; w++ {
		wg.Add(1)
		go func(w int) {
			defer wg.Done()
			wdir := filepath.Join(scratch, fmt.Sprintf("w%d", w))
			os.MkdirAll(filepath.Join(wdir, "tmp"), 0o700)
			run := 0
			for {
				batch := take()
				if batch == nil {
					return
				}
				for len(batch) > 0 {
					run++
					bf := filepath.Join(wdir, fmt.Sprintf("batch%d.json", run))
					jf := filepath.Join(wdir, fmt.Sprintf("journal%d.jsonl", run))
					raw, _ := json.Marshal(batch)
					os.WriteFile(bf, raw, 0o600)
					cmd := exec.Command(bin, "worker", id, bf, jf)
					var stderr bytes.Buffer
					cmd.Stderr = &stderr
					cmd.Stdout = &stderr
					cmd.Dir = wdir
					raceLog := filepath.Join(wdir, fmt.Sprintf("race%d", run))
					cmd.Env = append(os.Environ(),
						"TMPDIR="+filepath.Join(wdir, "tmp"),
						"VERIF_SCRATCH="+wdir,
						"VERIF_TIER="+tier,
						fmt.Sprintf("VERIF_SEED=%d", seed),
						"GORACE=halt_on_error=0 log_path="+raceLog,
						"GOTRACEBACK=all",
					)
					if replayFile != "" {
						cmd.Env = append(cmd.Env, "VERIF_REPLAY=1")
					}
					cmd.SysProcAttr = &syscall.SysProcAttr{Setpgid: true}
					wallFired := false
					if err := cmd.Start(); err != nil {
						mu.Lock()
						for _, c := range batch {
							results[c.ID] = &Result{CaseID: c.ID, Inconclusive: "could not start worker: " + err.Error()}
						}
						mu.Unlock()
						break
					}
					// the wall-clock watchdog is for a worker that is stuck, not for one that is slow on a loaded
					// machine: it fires when for `wall` seconds the journal has not grown and the worker has
					// used (next to) no CPU time; a worker that computes is bounded by the CPU watchdog
					stopWatch := make(chan struct{})
					go func(pid int) {
						lastProgress := time.Now()
						lastSize, lastCPU := int64(-1), int64(-1)
						tick := time.NewTicker(5 * time.Second)
						defer tick.Stop()
						for {
							select {
							case <-stopWatch:
								return
							case <-tick.C:
							}
							var size int64
							if fi, err := os.Stat(jf); err == nil {
								size = fi.Size()
							}
							// "uses CPU" means at a rate a computing worker has even on a crowded machine (5% of one
							// core between two looks); the odd tick of a runtime's background threads in a stuck
							// process does not count, however long it adds up
							cpu := procCPUTicks(pid)
							if size != lastSize || cpu >= lastCPU+25 || lastCPU < 0 {
								lastProgress = time.Now()
							}
							lastSize, lastCPU = size, cpu
							if time.Since(lastProgress) > time.Duration(wall)*time.Second {
								wallFired = true
								syscall.Kill(-pid, syscall.SIGQUIT)
								time.Sleep(3 * time.Second)
								syscall.Kill(-pid, syscall.SIGKILL)
								return
							}
						}
					}(cmd.Process.Pid)
					werr := cmd.Wait()
					close(stopWatch)
					syscall.Kill(-cmd.Process.Pid, syscall.SIGKILL) // stray grandchildren
					done, open, cpu, note := readJournal(jf)
					if ms, _ := filepath.Glob(raceLog + ".*"); len(ms) > 0 {
						mu.Lock()
						for _, m := range ms {
							if b, err := os.ReadFile(m); err == nil {
								raceLogs = append(raceLogs, string(b))
							}
						}
						mu.Unlock()
					}
					mu.Lock()
					for k, v := range done {
						results[k] = v
					}
					mu.Unlock()
					if werr == nil && open == "" {
						// all done?
						rest := batch[:0:0]
						for _, c := range batch {
							if _, ok := done[c.ID]; !ok {
								rest = append(rest, c)
							}
						}
						if len(rest) == len(batch) {
							mu.Lock()
							for _, c := range rest {
								results[c.ID] = &Result{CaseID: c.ID, Inconclusive: "worker exited without running the case: " + tail(stderr.String(), 400)}
							}
							mu.Unlock()
							rest = nil
						}
						batch = rest
						continue
					}
					// abnormal end: attribute to the open case
					var ws syscall.WaitStatus
					if ee, ok := werr.(*exec.ExitError); ok {
						ws = ee.Sys().(syscall.WaitStatus)
					}
					culprit := open
					if culprit == "" {
						culprit = cpu
					}
					cls := classifyDeath(stderr.String(), cpu != "", ws, wallFired)
					idx := -1
					for i, c := range batch {
						if c.ID == culprit {
							idx = i
							break
						}
					}
					mu.Lock()
					if idx >= 0 {
						deaths[culprit] = deathInfo{class: cls, stderr: tail(stderr.String(), 6000), note: note}
					}
					mu.Unlock()
					if idx < 0 {
						// died outside any case: everything not done is inconclusive
						mu.Lock()
						for _, c := range batch {
							if _, ok := done[c.ID]; !ok {
								results[c.ID] = &Result{CaseID: c.ID, Inconclusive: "worker died outside a case (" + cls + "): " + tail(stderr.String(), 400)}
							}
						}
						mu.Unlock()
						break
					}
					batch = batch[idx+1:]
				}
			}
		}(w)
	}
	wg.Wait()

	// ---- aggregate ----
	agg := &Aggregate{Counters: map[string]int64{}, Marks: map[string]int64{}, Sigs: map[string]bool{}, Extra: map[string]any{}}
	var found []CaseFinding
	var inconclusive []string
	var samples []any
	for _, c := range cases {
		if d, ok := deaths[c.ID]; ok {
			agg.Deaths++
			if d.class == "wall-watchdog" {
				inconclusive = append(inconclusive, fmt.Sprintf("case %s: wall-clock watchdog fired", c.ID))
				os.WriteFile(filepath.Join(VerifDir(), "evidence", id+"-watchdog.log"), []byte(d.stderr), 0o644)
				continue
			}
			key := fmt.Sprintf("%s/%s/death/%s", id, c.Kind, d.class)
			if chk.DeathKey != nil {
				key = chk.DeathKey(c, d.class, d.stderr, d.note)
			}
			found = append(found, CaseFinding{c, Finding{Key: key, Detail: "worker process died while running this case: " + d.class, Witness: map[string]any{"last_note": d.note, "stderr_tail": tail(d.stderr, 2500)}}})
			agg.Evals++
			continue
		}
		r := results[c.ID]
		if r == nil {
			inconclusive = append(inconclusive, fmt.Sprintf("case %s: no result", c.ID))
			continue
		}
		agg.Results = append(agg.Results, *r)
		if r.Inconclusive != "" {
			inconclusive = append(inconclusive, fmt.Sprintf("case %s: %s", c.ID, r.Inconclusive))
		}
		ev := r.Evals
		if ev == 0 {
			ev = 1
		}
		agg.Evals += ev
		for k, v := range r.Counters {
			agg.Counters[k] += v
		}
		for _, m := range r.Marks {
			agg.Marks[m]++
		}
		for _, s := range r.Sigs {
			agg.Sigs[s] = true
		}
		for _, f := range r.Findings {
			found = append(found, CaseFinding{c, f})
		}
		if r.Sample != nil && len(samples) < 6 {
			samples = append(samples, r.Sample)
		}
	}
	{
		type slow struct {
			ID string `json:"case"`
			Ms int64  `json:"ms"`
		}
		var sl []slow
		for _, r := range agg.Results {
			sl = append(sl, slow{r.CaseID, r.WallMs})
		}
		sort.Slice(sl, func(i, j int) bool { return sl[i].Ms > sl[j].Ms })
		if len(sl) > 5 {
			sl = sl[:5]
		}
		agg.Extra["slowest_cases"] = sl
	}
	if chk.Race {
		n := 0
		for _, l := range raceLogs {
			n += strings.Count(l, "WARNING: DATA RACE")
		}
		agg.Counters["race.reports"] = int64(n)
		if n > 0 {
			for _, rr := range dedupeRaces(raceLogs) {
				found = append(found, CaseFinding{Case{ID: "race", Kind: "race"}, Finding{Key: id + "/squashfs/data-race/" + rr.key, Detail: "race detector report", Witness: map[string]any{"report": rr.text}}})
			}
		}
	}
	if chk.Post != nil && replayFile == "" {
		chk.Post(agg, cases)
		found = append(found, agg.PostFindings...)
		inconclusive = append(inconclusive, agg.PostInconclusive...)
	}

	// ---- findings protocol ----
	knownSeen := map[string]int{}
	type viol struct {
		cf   CaseFinding
		path string
	}
	var viols []viol
	violKeys := map[string]bool{}
	os.MkdirAll(filepath.Join(VerifDir(), "evidence", "replay"), 0o755)
	for _, cf := range found {
		if _, ok := openKeys[cf.Finding.Key]; ok {
			knownSeen[cf.Finding.Key]++
			continue
		}
		if violKeys[cf.Finding.Key] {
			agg.Counters["violations.duplicates"]++
			continue
		}
		violKeys[cf.Finding.Key] = true
		path := filepath.Join("evidence", "replay", fmt.Sprintf("%s-%s.json", id, Hash(cf.Finding.Key, cf.Case.ID)))
		rc := cf.Case
		if cf.Finding.Replay != nil {
			rc = *cf.Finding.Replay
			cf.Finding.Replay = nil
		}
		rp := map[string]any{"property": id, "tier": tier, "seed": seed, "case": rc, "found_in_case": cf.Case.ID, "finding": cf.Finding}
		b, _ := json.MarshalIndent(rp, "", " ")
		os.WriteFile(filepath.Join(VerifDir(), path), b, 0o644)
		viols = append(viols, viol{cf, path})
	}

	// floors
	minSigs := 2
	if chk.MinSigs != nil {
		if v, ok := chk.MinSigs[tier]; ok {
			minSigs = v
		}
	}
	if replayFile == "" {
		if len(agg.Sigs) < minSigs {
			inconclusive = append(inconclusive, fmt.Sprintf("only %d distinct non-trivial cases observed, floor is %d", len(agg.Sigs), minSigs))
		}
		for _, m := range chk.NeedMarks {
			if agg.Marks[m] == 0 {
				inconclusive = append(inconclusive, "boundary class never observed: "+m)
			}
		}
	}

	wallS := time.Since(t0).Seconds()
	if replayFile == "" {
		writeEvidence(chk, tier, seed, agg, samples, len(viols), knownSeen, inconclusive, wallS)
	}

	fmt.Printf("CHECK %s tier=%s seed=%d cases=%d evaluations=%d distinct_nontrivial=%d deaths=%d wall=%.1fs\n",
		id, tier, seed, len(cases), agg.Evals, len(agg.Sigs), agg.Deaths, wallS)
	keys := make([]string, 0, len(openKeys))
	for k := range openKeys {
		keys = append(keys, k)
	}
	sort.Strings(keys)
	for _, k := range keys {
		if replayFile != "" && knownSeen[k] == 0 {
			continue
		}
		fmt.Printf("KNOWN-FINDING: property=%s %s [key=%s reproduced=%d]\n", id, openKeys[k].What, k, knownSeen[k])
	}
	for _, v := range viols {
		fmt.Printf("VIOLATION property=%s replay=%s\n", id, v.path)
		fmt.Printf("  key=%s\n  case=%s\n  %s\n", v.cf.Finding.Key, v.cf.Case.ID, firstLine(v.cf.Finding.Detail, 400))
	}
	if len(viols) > 0 {
		return 1
	}
	if len(inconclusive) > 0 {
		for i, s := range inconclusive {
			if i >= 10 {
				fmt.Printf("INCONCLUSIVE ... and %d more\n", len(inconclusive)-10)
				break
			}
			fmt.Printf("INCONCLUSIVE property=%s %s\n", id, firstLine(s, 300))
		}
		return 2
	}
	if replayFile != "" {
		fmt.Println("replay: no violation reproduced")
	}
	return 0
}

func firstLine(s string, n int) string {
	if i := strings.IndexByte(s, '\n'); i >= 0 {
		s = s[:i]
	}
	if len(s) > n {
		s = s[:n]
	}
	return s
}

type raceReport struct{ key, text string }

var lineNoRe = regexp.MustCompile(`:\d+ \+0x[0-9a-f]+`)

func dedupeRaces(logs []string) []raceReport {
	seen := map[string]bool{}
	var out []raceReport
	for _, l := range logs {
		parts := strings.Split(l, "==================")
		for _, p := range parts {
			if !strings.Contains(p, "WARNING: DATA RACE") {
				continue
			}
			// key: the go-diskfs functions appearing in the report, line numbers stripped
			var fns []string
			fs := map[string]bool{}
			for _, ln := range strings.Split(p, "\n") {
				ln = strings.TrimSpace(ln)
				if strings.HasPrefix(ln, "github.com/diskfs/go-diskfs/") {
					fn := strings.TrimPrefix(ln, "github.com/diskfs/go-diskfs/")
					if i := strings.LastIndex(fn, "("); i > 0 {
						fn = fn[:i]
					}
					if !fs[fn] {
						fs[fn] = true
						fns = append(fns, fn)
					}
				}
			}
			if len(fns) > 2 {
				fns = fns[:2]
			}
			key := strings.Join(fns, "+")
			if key == "" {
				key = "outside-library-" + Hash(lineNoRe.ReplaceAllString(p, ""))
			}
			if seen[key] {
				continue
			}
			seen[key] = true
			if len(p) > 3000 {
				p = p[:3000]
			}
			out = append(out, raceReport{key, p})
		}
	}
	return out
}

func writeEvidence(chk *Check, tier string, seed int64, agg *Aggregate, samples []any, nviol int, knownSeen map[string]int, inconclusive []string, wallS float64) {
	cov := map[string]any{
		"evaluations":         agg.Evals,
		"distinct_nontrivial": len(agg.Sigs),
		"rule":                chk.Rule,
		"samples":             samples,
		"counters":            agg.Counters,
		"boundary_classes":    agg.Marks,
		"worker_deaths":       agg.Deaths,
		"known_findings_seen": knownSeen,
		"inconclusive":        inconclusive,
	}
	if len(samples) == 0 {
		cov["samples"] = []any{}
	}
	for k, v := range agg.Extra {
		cov[k] = v
	}
	ev := map[string]any{
		"property_id": chk.ID,
		"tier":        tier,
		"seed":        seed,
		"level":       chk.Level,
		"coverage":    cov,
		"assumptions": chk.Assumptions,
		"wall_s":      wallS,
		"violations":  nviol,
	}
	b, _ := json.MarshalIndent(ev, "", " ")
	os.MkdirAll(filepath.Join(VerifDir(), "evidence"), 0o755)
	os.WriteFile(filepath.Join(VerifDir(), "evidence", chk.ID+".json"), b, 0o644)
}
