package fatck

import (
	"bytes"
	"fmt"
	"os"
	"path/filepath"
	"testing"
	"time"

	"github.com/diskfs/go-diskfs/backend/file"
	"github.com/diskfs/go-diskfs/filesystem"
	"github.com/diskfs/go-diskfs/filesystem/fat12"
	"github.com/diskfs/go-diskfs/filesystem/fat16"
	"github.com/diskfs/go-diskfs/filesystem/fat32"
)

// Volumes made by the library under test. Problems are LOGGED, never failed:
// this file calibrates the checker and records what the library produces.

type libKind struct {
	name string
	size int64
}

var libKinds = []libKind{{"fat12", 1474560}, {"fat16", 32 << 20}, {"fat32", 64 << 20}}

func libCreate(kind string, f *os.File, size, start int64) (filesystem.FileSystem, error) {
	b := file.New(f, false)
	switch kind {
	case "fat12":
		return fat12.Create(b, size, start, 512, "CALIB", false)
	case "fat16":
		return fat16.Create(b, size, start, 512, "CALIB", false)
	}
	return fat32.Create(b, size, start, 512, "CALIB", false)
}

func pattern(n int, seed byte) []byte {
	b := make([]byte, n)
	for i := range b {
		b[i] = byte(i*7) ^ seed ^ byte(i>>8)
	}
	return b
}

func libWrite(fs filesystem.FileSystem, p string, data []byte) error {
	f, err := fs.OpenFile(p, os.O_CREATE|os.O_RDWR)
	if err != nil {
		return fmt.Errorf("open %s: %w", p, err)
	}
	if len(data) > 0 {
		if _, err := f.Write(data); err != nil {
			return fmt.Errorf("write %s: %w", p, err)
		}
	}
	return f.Close()
}

// withTimeout runs fn in a goroutine; the library is known to hang on some inputs.
func withTimeout(t *testing.T, d time.Duration, fn func() error) (err error, hung bool) {
	done := make(chan error, 1)
	go func() {
		defer func() {
			if x := recover(); x != nil {
				done <- fmt.Errorf("library panic: %v", x)
			}
		}()
		done <- fn()
	}()
	select {
	case err = <-done:
		return err, false
	case <-time.After(d):
		return nil, true
	}
}

func sliceReader(b []byte, start int64) Reader {
	return func(off int64, n int) []byte {
		off += start
		if off < 0 || off >= int64(len(b)) {
			return nil
		}
		e := off + int64(n)
		if e > int64(len(b)) {
			e = int64(len(b))
		}
		return b[off:e]
	}
}

type libScenario struct {
	name  string
	start int64
	run   func(fs filesystem.FileSystem, want map[string][]byte, dirs map[string]bool) error
}

func libScenarios() []libScenario {
	return []libScenario{
		{name: "empty", run: func(fs filesystem.FileSystem, want map[string][]byte, dirs map[string]bool) error { return nil }},
		{name: "basic", run: func(fs filesystem.FileSystem, want map[string][]byte, dirs map[string]bool) error {
			if err := fs.Mkdir("a/b"); err != nil {
				return err
			}
			dirs["a"], dirs["a/b"] = true, true
			w := func(p string, d []byte) error {
				if err := libWrite(fs, p, d); err != nil {
					return err
				}
				want[p] = d
				return nil
			}
			if err := w("a/b/file.txt", []byte("hello fat\n")); err != nil {
				return err
			}
			if err := w("A Long File Name With Spaces.data", pattern(100000, 1)); err != nil {
				return err
			}
			if err := w("empty.bin", nil); err != nil {
				return err
			}
			if err := w("a/exact.bin", pattern(8192, 2)); err != nil {
				return err
			}
			return w("a/b/lower.txt", pattern(513, 3))
		}},
		{name: "basic-offset", start: 1 << 20, run: func(fs filesystem.FileSystem, want map[string][]byte, dirs map[string]bool) error {
			if err := fs.Mkdir("dir"); err != nil {
				return err
			}
			dirs["dir"] = true
			d := pattern(5000, 9)
			if err := libWrite(fs, "dir/f.bin", d); err != nil {
				return err
			}
			want["dir/f.bin"] = d
			return nil
		}},
		{name: "many-in-dir", run: func(fs filesystem.FileSystem, want map[string][]byte, dirs map[string]bool) error {
			if err := fs.Mkdir("many"); err != nil {
				return err
			}
			dirs["many"] = true
			for i := 0; i < 150; i++ {
				p := fmt.Sprintf("many/a rather long file name number %03d.txt", i)
				d := pattern(100+i, byte(i))
				if err := libWrite(fs, p, d); err != nil {
					return err
				}
				want[p] = d
			}
			return nil
		}},
		{name: "remove", run: func(fs filesystem.FileSystem, want map[string][]byte, dirs map[string]bool) error {
			if err := fs.Mkdir("d"); err != nil {
				return err
			}
			dirs["d"] = true
			for i := 0; i < 4; i++ {
				p := fmt.Sprintf("d/file%d.bin", i)
				d := pattern(20000+i, byte(i))
				if err := libWrite(fs, p, d); err != nil {
					return err
				}
				want[p] = d
			}
			if err := fs.Remove("d/file1.bin"); err != nil {
				return fmt.Errorf("remove: %w", err)
			}
			delete(want, "d/file1.bin")
			d := pattern(30000, 77)
			if err := libWrite(fs, "d/after.bin", d); err != nil {
				return err
			}
			want["d/after.bin"] = d
			return nil
		}},
		{name: "remove-dir", run: func(fs filesystem.FileSystem, want map[string][]byte, dirs map[string]bool) error {
			if err := fs.Mkdir("gone/sub"); err != nil {
				return err
			}
			if err := fs.Mkdir("stay"); err != nil {
				return err
			}
			dirs["stay"], dirs["gone"] = true, true
			if err := fs.Remove("gone/sub"); err != nil {
				return fmt.Errorf("remove dir: %w", err)
			}
			return nil
		}},
		{name: "rename", run: func(fs filesystem.FileSystem, want map[string][]byte, dirs map[string]bool) error {
			if err := fs.Mkdir("x"); err != nil {
				return err
			}
			if err := fs.Mkdir("y"); err != nil {
				return err
			}
			dirs["x"], dirs["y"] = true, true
			d := pattern(9000, 5)
			if err := libWrite(fs, "x/old name.txt", d); err != nil {
				return err
			}
			if err := fs.Rename("x/old name.txt", "y/new name.txt"); err != nil {
				return fmt.Errorf("rename: %w", err)
			}
			want["y/new name.txt"] = d
			return nil
		}},
		{name: "rewrite-shorter", run: func(fs filesystem.FileSystem, want map[string][]byte, dirs map[string]bool) error {
			if err := libWrite(fs, "shrink.bin", pattern(50000, 1)); err != nil {
				return err
			}
			f, err := fs.OpenFile("shrink.bin", os.O_RDWR|os.O_TRUNC)
			if err != nil {
				return fmt.Errorf("reopen trunc: %w", err)
			}
			d := pattern(700, 2)
			if _, err := f.Write(d); err != nil {
				return err
			}
			if err := f.Close(); err != nil {
				return err
			}
			want["shrink.bin"] = d
			return nil
		}},
		{name: "append", run: func(fs filesystem.FileSystem, want map[string][]byte, dirs map[string]bool) error {
			a := pattern(3000, 1)
			if err := libWrite(fs, "grow.bin", a); err != nil {
				return err
			}
			if err := libWrite(fs, "between.bin", pattern(3000, 8)); err != nil {
				return err
			}
			want["between.bin"] = pattern(3000, 8)
			f, err := fs.OpenFile("grow.bin", os.O_RDWR)
			if err != nil {
				return err
			}
			if _, err := f.Seek(0, 2); err != nil {
				return err
			}
			b := pattern(40000, 2)
			if _, err := f.Write(b); err != nil {
				return err
			}
			if err := f.Close(); err != nil {
				return err
			}
			want["grow.bin"] = append(append([]byte(nil), a...), b...)
			return nil
		}},
	}
}

func TestLibraryVolumes(t *testing.T) {
	for _, k := range libKinds {
		for _, sc := range libScenarios() {
			k, sc := k, sc
			t.Run(k.name+"/"+sc.name, func(t *testing.T) {
				dir := t.TempDir()
				if keep := os.Getenv("FATCK_KEEP"); keep != "" {
					// keep the images for hexdump analysis
					dir = filepath.Join(keep, k.name+"-"+sc.name)
					if err := os.MkdirAll(dir, 0o755); err != nil {
						t.Fatal(err)
					}
				}
				img := filepath.Join(dir, "img")
				f, err := os.OpenFile(img, os.O_CREATE|os.O_RDWR, 0o600)
				if err != nil {
					t.Fatal(err)
				}
				defer f.Close()
				if err := f.Truncate(sc.start + k.size); err != nil {
					t.Fatal(err)
				}
				want := map[string][]byte{}
				dirs := map[string]bool{}
				err, hung := withTimeout(t, 120*time.Second, func() error {
					fs, err := libCreate(k.name, f, k.size, sc.start)
					if err != nil {
						return fmt.Errorf("create: %w", err)
					}
					if err := sc.run(fs, want, dirs); err != nil {
						return err
					}
					return fs.Close()
				})
				if hung {
					t.Logf("LIBRARY-HANG: scenario did not finish in 120s")
					return
				}
				if err != nil {
					t.Logf("LIBRARY-ERROR: %v (checking the image anyway)", err)
				}
				_ = f.Sync()
				b, err := os.ReadFile(img)
				if err != nil {
					t.Fatal(err)
				}
				rd := sliceReader(b, sc.start)
				r := Check(rd, k.size)
				t.Logf("type=%s countclass=%s bps=%d spc=%d rsvd=%d fats=%d fatsz=%d rootent=%d total=%d clusters=%d used=%d free=%d lost=%d bad=%d label=%q rootlabel=%q entries=%d fsinfo(free=%#x next=%#x)",
					r.Type, r.CountClass, r.BytesPerSector, r.SectorsPerCluster, r.ReservedSectors, r.NumFATs, r.FATSectors, r.RootEntries, r.TotalSectors,
					r.ClusterCount, r.Used, r.Free, r.Lost, r.Bad, r.Label, r.RootLabel, len(r.Entries), r.FSInfoFree, r.FSInfoNext)
				if r.Type != k.name {
					t.Logf("NOTE: checker says %s for a volume made by the %s package", r.Type, k.name)
				}
				for _, p := range r.Problems {
					if p.Rule == RuleInternal {
						t.Errorf("checker bug: %s", p)
					}
					t.Logf("PROBLEM %s", p)
				}
				// content and tree comparison (logged only)
				for p, d := range want {
					e := r.Find(p)
					if e == nil {
						t.Logf("MISMATCH: %q written through the library is not found by the checker", p)
						continue
					}
					if got := r.ReadFile(rd, e); !bytes.Equal(got, d) {
						t.Logf("MISMATCH: %q content differs: checker reads %d bytes, library wrote %d (entry size %d chain %d clusters)", p, len(got), len(d), e.Size, len(e.Chain))
					}
				}
				for p := range dirs {
					if e := r.Find(p); e == nil || !e.IsDir {
						t.Logf("MISMATCH: directory %q not found by the checker", p)
					}
				}
				for _, e := range r.Entries {
					if _, ok := want[e.Path]; !ok && !e.IsDir {
						found := false
						for p := range want {
							if normPath(p) == normPath(e.Path) {
								found = true
							}
						}
						if !found {
							t.Logf("EXTRA: checker sees file %q (size %d) which the scenario does not expect", e.Path, e.Size)
						}
					}
				}
			})
		}
	}
}

func fileReader(f *os.File, start int64) Reader {
	return func(off int64, n int) []byte {
		b := make([]byte, n)
		m, _ := f.ReadAt(b, off+start)
		return b[:m]
	}
}

// TestLibraryGeometry creates empty volumes of several sizes and logs what the
// structural rules say about each.
func TestLibraryGeometry(t *testing.T) {
	mib := int64(1 << 20)
	cases := []struct {
		kind string
		size int64
	}{
		{"fat12", 1 * mib}, {"fat12", 1474560}, {"fat12", 2880 * 1024}, {"fat12", 4 * mib}, {"fat12", 8 * mib}, {"fat12", 1474560 + 700},
		{"fat16", 8 * mib}, {"fat16", 16 * mib}, {"fat16", 32 * mib}, {"fat16", 128 * mib}, {"fat16", 512 * mib}, {"fat16", 1024 * mib}, {"fat16", 32*mib + 1536},
		{"fat32", 33 * mib}, {"fat32", 40 * mib}, {"fat32", 64 * mib}, {"fat32", 256 * mib}, {"fat32", 1024 * mib}, {"fat32", 3 * 1024 * mib}, {"fat32", 64*mib + 1536}, {"fat32", 64*mib + 100},
	}
	for _, c := range cases {
		c := c
		t.Run(fmt.Sprintf("%s/%d", c.kind, c.size), func(t *testing.T) {
			img := filepath.Join(t.TempDir(), "img")
			f, err := os.OpenFile(img, os.O_CREATE|os.O_RDWR, 0o600)
			if err != nil {
				t.Fatal(err)
			}
			defer f.Close()
			if err := f.Truncate(c.size); err != nil {
				t.Fatal(err)
			}
			err, hung := withTimeout(t, 120*time.Second, func() error {
				fs, err := libCreate(c.kind, f, c.size, 0)
				if err != nil {
					return fmt.Errorf("create: %w", err)
				}
				if err := libWrite(fs, "probe.txt", []byte("probe")); err != nil {
					return err
				}
				return fs.Close()
			})
			if hung {
				t.Logf("LIBRARY-HANG")
				return
			}
			if err != nil {
				t.Logf("LIBRARY-ERROR: %v", err)
			}
			st, _ := f.Stat()
			if st.Size() != c.size {
				t.Logf("NOTE: image file size changed from %d to %d", c.size, st.Size())
			}
			r := Check(fileReader(f, 0), c.size)
			t.Logf("type=%s countclass=%s fstype=%q bps=%d spc=%d rsvd=%d fats=%d fatsz=%d rootent=%d total=%d (range %d sectors) clusters=%d used=%d free=%d lost=%d entries=%d",
				r.Type, r.CountClass, r.FSTypeText, r.BytesPerSector, r.SectorsPerCluster, r.ReservedSectors, r.NumFATs, r.FATSectors, r.RootEntries, r.TotalSectors, c.size/512,
				r.ClusterCount, r.Used, r.Free, r.Lost, len(r.Entries))
			for _, p := range r.Problems {
				if p.Rule == RuleInternal {
					t.Errorf("checker bug: %s", p)
				}
				t.Logf("PROBLEM %s", p)
			}
			if e := r.Find("probe.txt"); e == nil || string(r.ReadFile(fileReader(f, 0), e)) != "probe" {
				t.Logf("MISMATCH: probe.txt not readable by the checker (%+v)", e)
			}
		})
	}
}
