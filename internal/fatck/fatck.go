// Package fatck is an independent FAT12/FAT16/FAT32 on-disk structure reader
// and consistency checker written from the Microsoft FAT specification
// (fatgen103). It shares no code with the library under test.
package fatck

import (
	"bytes"
	"encoding/binary"
	"fmt"
	"runtime/debug"
	"strings"
	"time"
)

// Reader returns n bytes at volume-relative byte offset off (fewer at end of device).
type Reader func(off int64, n int) []byte

// Problem is one violated rule.
type Problem struct {
	Rule     string
	Detail   string
	Path     string
	Clusters []uint32
}

func (p Problem) String() string {
	s := p.Rule + ": " + p.Detail
	if p.Path != "" {
		s += " [path " + p.Path + "]"
	}
	if len(p.Clusters) > 0 {
		s += fmt.Sprintf(" clusters %v", p.Clusters)
	}
	return s
}

// Entry is one live file or directory.
type Entry struct {
	Path                string
	Name                string
	ShortName           string
	HasLFN              bool
	IsDir               bool
	Attr                byte
	Size                uint32
	FirstCluster        uint32
	Chain               []uint32
	CreateTime, ModTime time.Time
	AccessDate          time.Time
	RawDate             [3]uint16
	RawTime             [2]uint16
	DirOffset           int64
	// additions
	NTRes       byte // raw byte 12
	CreateTenth byte // raw byte 13
}

// Report is everything Check found.
type Report struct {
	Type                                                                     string
	CountClass                                                               string
	BytesPerSector, SectorsPerCluster, ReservedSectors, NumFATs, RootEntries int
	TotalSectors                                                             uint64
	FATSectors                                                               uint32
	RootCluster                                                              uint32
	FSInfoSector, BackupBootSector                                           int
	ClusterCount                                                             uint32
	FATOffset, RootDirOffset, DataOffset                                     int64
	ClusterSize                                                              int
	Label                                                                    string
	RootLabel                                                                string
	VolumeID                                                                 uint32
	FSInfoFree, FSInfoNext                                                   uint32
	Entries                                                                  []Entry
	Used, Free, Lost                                                         int
	Problems                                                                 []Problem

	// additions
	Media      byte     // BPB_Media
	ExtFlags   uint16   // fat32 BPB_ExtFlags
	FSTypeText string   // BS_FilSysType as stored (trimmed)
	Bad        int      // clusters carrying the bad-cluster mark
	RootChain  []uint32 // fat32 root directory chain

	fat   []uint32
	index map[string]int
}

// Rule names.
const (
	RuleBootSignature   = "boot-signature"
	RuleBootGeometry    = "boot-geometry"
	RuleGeometryVsRange = "geometry-vs-range"
	RuleLayoutOverflow  = "layout-overflow"
	RuleBackupBoot      = "fat32-backup-boot"
	RuleFSInfo          = "fat32-fsinfo"
	RuleFATCopies       = "fat-copies-differ"
	RuleFATReserved     = "fat-reserved-entries"
	RuleChainRange      = "chain-out-of-range"
	RuleChainFree       = "chain-free-link"
	RuleChainBad        = "chain-bad-cluster"
	RuleChainCycle      = "chain-cycle"
	RuleChainShort      = "chain-too-short"
	RuleChainLong       = "chain-too-long"
	RuleCrossLink       = "cross-link"
	RuleLostCluster     = "lost-cluster"
	RuleDirEntry        = "dir-entry-invalid"
	RuleLFNOrphan       = "lfn-orphan"
	RuleDuplicate       = "duplicate-name"
	RuleDirSize         = "dir-size-nonzero"
	RuleInternal        = "checker-internal"
	RuleLimit           = "checker-limit" // addition: a walk bound was reached, result incomplete
)

const (
	maxDepth        = 64
	maxEntries      = 1000000
	maxSlots        = 16000000
	maxDirSlots     = 65536
	maxLostProblems = 32
)

type checker struct {
	rd      Reader
	volSize int64
	r       *Report
	kind    int // 12, 16, 32
	fat     []uint32
	owner   []int32
	stamp   []int32
	walkID  int32
	owners  []string // owner id -> path ; id 0 none
	eoc     uint32
	bad     uint32
	maxC    uint32 // ClusterCount+1
	slots   int
	stop    bool
}

// Check parses the volume and returns everything found.
func Check(rd Reader, volSize int64) (rep *Report) {
	rep = &Report{}
	c := &checker{rd: rd, volSize: volSize, r: rep}
	defer func() {
		if x := recover(); x != nil {
			st := debug.Stack()
			if len(st) > 2000 {
				st = st[:2000]
			}
			rep.Problems = append(rep.Problems, Problem{Rule: RuleInternal, Detail: fmt.Sprintf("panic: %v\n%s", x, st)})
		}
	}()
	c.run()
	return rep
}

func (c *checker) problem(rule, path string, clusters []uint32, format string, a ...interface{}) {
	if len(clusters) > 16 {
		clusters = clusters[:16]
	}
	var cl []uint32
	if len(clusters) > 0 {
		cl = append(cl, clusters...)
	}
	c.r.Problems = append(c.r.Problems, Problem{Rule: rule, Detail: fmt.Sprintf(format, a...), Path: path, Clusters: cl})
}

// read returns up to n bytes clamped to the volume.
func (c *checker) read(off int64, n int) []byte {
	if n <= 0 || off < 0 || off >= c.volSize {
		return nil
	}
	if int64(n) > c.volSize-off {
		n = int(c.volSize - off)
	}
	b := c.rd(off, n)
	if len(b) > n {
		b = b[:n]
	}
	return b
}

// readPad returns exactly n bytes, zero padded.
func (c *checker) readPad(off int64, n int) []byte {
	b := c.read(off, n)
	if len(b) == n {
		return b
	}
	out := make([]byte, n)
	copy(out, b)
	return out
}

func le16(b []byte) uint16 { return binary.LittleEndian.Uint16(b) }
func le32(b []byte) uint32 { return binary.LittleEndian.Uint32(b) }

func countClass(n uint64) string {
	switch {
	case n < 4085:
		return "fat12"
	case n < 65525:
		return "fat16"
	}
	return "fat32"
}

func (c *checker) run() {
	r := c.r
	bs := c.read(0, 512)
	if len(bs) < 512 {
		c.problem(RuleBootSignature, "", nil, "boot sector unreadable: only %d bytes available (volume size %d)", len(bs), c.volSize)
		return
	}
	if bs[510] != 0x55 || bs[511] != 0xAA {
		c.problem(RuleBootSignature, "", nil, "bytes 510,511 are %#02x,%#02x, want 0x55,0xaa", bs[510], bs[511])
	}
	bps := int(le16(bs[11:]))
	spc := int(bs[13])
	rsvd := int(le16(bs[14:]))
	nfats := int(bs[16])
	rootEnt := int(le16(bs[17:]))
	tot16 := le16(bs[19:])
	media := bs[21]
	fatsz16 := le16(bs[22:])
	tot32 := le32(bs[32:])

	r.BytesPerSector, r.SectorsPerCluster, r.ReservedSectors, r.NumFATs, r.RootEntries = bps, spc, rsvd, nfats, rootEnt
	r.Media = media
	isFat32 := rootEnt == 0 && fatsz16 == 0

	var total uint64
	if tot16 != 0 {
		total = uint64(tot16)
	} else {
		total = uint64(tot32)
	}
	r.TotalSectors = total
	var fatsz uint32
	if isFat32 {
		fatsz = le32(bs[36:])
		r.ExtFlags = le16(bs[40:])
		r.RootCluster = le32(bs[44:])
		r.FSInfoSector = int(le16(bs[48:]))
		r.BackupBootSector = int(le16(bs[50:]))
		r.VolumeID = le32(bs[67:])
		r.Label = strings.TrimRight(string(bs[71:82]), " ")
		r.FSTypeText = strings.TrimRight(string(bs[82:90]), " ")
	} else {
		fatsz = uint32(fatsz16)
		r.VolumeID = le32(bs[39:])
		r.Label = strings.TrimRight(string(bs[43:54]), " ")
		r.FSTypeText = strings.TrimRight(string(bs[54:62]), " ")
	}
	r.FATSectors = fatsz

	geomOK := true
	switch bps {
	case 512, 1024, 2048, 4096:
	default:
		geomOK = false
		c.problem(RuleBootGeometry, "", nil, "bytes per sector %d not in {512,1024,2048,4096}", bps)
	}
	if spc == 0 || spc > 128 || spc&(spc-1) != 0 {
		geomOK = false
		c.problem(RuleBootGeometry, "", nil, "sectors per cluster %d is not a power of two in 1..128", spc)
	}
	if rsvd == 0 {
		geomOK = false
		c.problem(RuleBootGeometry, "", nil, "reserved sector count is 0")
	}
	if nfats == 0 {
		geomOK = false
		c.problem(RuleBootGeometry, "", nil, "number of FATs is 0")
	}
	if total == 0 {
		geomOK = false
		c.problem(RuleBootGeometry, "", nil, "total sectors is 0 (TotSec16=%d TotSec32=%d)", tot16, tot32)
	}
	if !geomOK {
		return
	}

	r.ClusterSize = bps * spc
	rootSecs := uint64((rootEnt*32 + bps - 1) / bps)
	meta := uint64(rsvd) + uint64(nfats)*uint64(fatsz) + rootSecs
	r.FATOffset = int64(rsvd) * int64(bps)
	r.RootDirOffset = int64(uint64(rsvd)+uint64(nfats)*uint64(fatsz)) * int64(bps)
	r.DataOffset = int64(meta) * int64(bps)

	// geometry vs range
	declared := total * uint64(bps)
	if c.volSize < 0 || declared > uint64(c.volSize) {
		c.problem(RuleGeometryVsRange, "", nil, "volume declares MORE than its range: %d sectors * %d = %d bytes > range %d bytes", total, bps, declared, c.volSize)
	} else if whole := uint64(c.volSize) / uint64(bps) * uint64(bps); declared < whole {
		c.problem(RuleGeometryVsRange, "", nil, "volume declares LESS than its range: %d sectors * %d = %d bytes < range %d bytes (%d rounded down to a sector)", total, bps, declared, c.volSize, whole)
	}

	if meta > total {
		c.problem(RuleLayoutOverflow, "", nil, "reserved %d + %d FATs * %d sectors + root dir %d sectors = %d > total sectors %d", rsvd, nfats, fatsz, rootSecs, meta, total)
		r.CountClass = countClass(0)
		if isFat32 {
			r.Type = "fat32"
		} else {
			r.Type = typeFromText(r.FSTypeText, 0)
		}
		return
	}
	dataSecs := total - meta
	cc64 := dataSecs / uint64(spc)
	r.CountClass = countClass(cc64)
	if isFat32 {
		r.Type = "fat32"
	} else {
		r.Type = typeFromText(r.FSTypeText, cc64)
	}
	switch r.Type {
	case "fat12":
		c.kind, c.eoc, c.bad = 12, 0xFF8, 0xFF7
	case "fat16":
		c.kind, c.eoc, c.bad = 16, 0xFFF8, 0xFFF7
	default:
		c.kind, c.eoc, c.bad = 32, 0x0FFFFFF8, 0x0FFFFFF7
	}
	if cc64+1 >= uint64(c.bad) {
		c.problem(RuleLayoutOverflow, "", nil, "cluster count %d not representable in %s FAT entries (highest cluster %d >= bad mark %#x)", cc64, r.Type, cc64+1, c.bad)
		cc64 = uint64(c.bad) - 2
	}
	r.ClusterCount = uint32(cc64)
	c.maxC = r.ClusterCount + 1

	// FAT capacity
	fatBytes := uint64(fatsz) * uint64(bps)
	var need uint64
	switch c.kind {
	case 12:
		need = ((cc64+2)*3 + 1) / 2
	case 16:
		need = (cc64 + 2) * 2
	default:
		need = (cc64 + 2) * 4
	}
	if fatBytes < need {
		c.problem(RuleLayoutOverflow, "", nil, "FAT too small: %d sectors = %d bytes, but %d clusters + 2 reserved entries need %d bytes", fatsz, fatBytes, cc64, need)
	}

	c.loadFAT(need, fatBytes)
	c.compareFATs(fatBytes)
	c.checkReserved()

	n := len(c.fat)
	c.owner = make([]int32, n)
	c.stamp = make([]int32, n)
	c.owners = []string{""}

	c.walk()
	c.classify()
	if c.kind == 32 {
		c.checkFSInfo()
		c.checkBackupBoot()
	}
}

func typeFromText(txt string, cc uint64) string {
	switch {
	case strings.HasPrefix(txt, "FAT12"):
		return "fat12"
	case strings.HasPrefix(txt, "FAT16"):
		return "fat16"
	}
	if cc < 4085 {
		return "fat12"
	}
	return "fat16"
}

func (c *checker) activeFAT() int {
	if c.kind == 32 && c.r.ExtFlags&0x80 != 0 {
		a := int(c.r.ExtFlags & 0x0F)
		if a < c.r.NumFATs {
			return a
		}
	}
	return 0
}

func (c *checker) loadFAT(need, fatBytes uint64) {
	r := c.r
	want := need
	if fatBytes < want {
		want = fatBytes
	}
	base := r.FATOffset + int64(c.activeFAT())*int64(fatBytes)
	var buf []byte
	const chunk = 1 << 20
	for uint64(len(buf)) < want {
		n := want - uint64(len(buf))
		if n > chunk {
			n = chunk
		}
		b := c.read(base+int64(len(buf)), int(n))
		buf = append(buf, b...)
		if uint64(len(b)) < n {
			break
		}
	}
	var cnt uint64
	switch c.kind {
	case 12:
		cnt = uint64(len(buf)) * 2 / 3
	case 16:
		cnt = uint64(len(buf)) / 2
	default:
		cnt = uint64(len(buf)) / 4
	}
	if cnt > uint64(r.ClusterCount)+2 {
		cnt = uint64(r.ClusterCount) + 2
	}
	fat := make([]uint32, cnt)
	for i := range fat {
		switch c.kind {
		case 12:
			o := i + i/2
			v := uint32(buf[o]) | uint32(buf[o+1])<<8
			if i&1 == 1 {
				v >>= 4
			} else {
				v &= 0xFFF
			}
			fat[i] = v
		case 16:
			fat[i] = uint32(le16(buf[i*2:]))
		default:
			fat[i] = le32(buf[i*4:]) & 0x0FFFFFFF
		}
	}
	c.fat = fat
	r.fat = fat
}

func (c *checker) compareFATs(fatBytes uint64) {
	r := c.r
	if r.NumFATs < 2 {
		return
	}
	if c.kind == 32 && r.ExtFlags&0x80 != 0 {
		return // mirroring disabled: copies may legitimately differ
	}
	var usedBytes uint64
	switch c.kind {
	case 12:
		usedBytes = (uint64(len(c.fat))*3 + 1) / 2
	case 16:
		usedBytes = uint64(len(c.fat)) * 2
	default:
		usedBytes = uint64(len(c.fat)) * 4
	}
	const chunk = 1 << 20
	for k := 1; k < r.NumFATs; k++ {
		b0 := r.FATOffset
		bk := r.FATOffset + int64(k)*int64(fatBytes)
		for pos := uint64(0); pos < fatBytes; pos += chunk {
			n := fatBytes - pos
			if n > chunk {
				n = chunk
			}
			a := c.read(b0+int64(pos), int(n))
			b := c.read(bk+int64(pos), int(n))
			m := len(a)
			if len(b) < m {
				m = len(b)
			}
			diff := -1
			if !bytes.Equal(a[:m], b[:m]) {
				for i := 0; i < m; i++ {
					if a[i] != b[i] {
						diff = i
						break
					}
				}
			}
			if diff >= 0 {
				o := pos + uint64(diff)
				where := "within the used entries"
				if o >= usedBytes {
					where = "in the slack after the last used entry"
				}
				c.problem(RuleFATCopies, "", nil, "FAT copy %d differs from copy 0 at FAT byte offset %d (%s): copy0=%#02x copy%d=%#02x (volume offsets %d / %d)", k, o, where, a[diff], k, b[diff], b0+int64(o), bk+int64(o))
				break
			}
			if len(a) != len(b) {
				c.problem(RuleFATCopies, "", nil, "FAT copy %d is truncated by the end of the volume at FAT byte offset %d", k, pos+uint64(m))
				break
			}
			if uint64(len(a)) < n {
				break
			}
		}
	}
}

func (c *checker) checkReserved() {
	if len(c.fat) < 2 {
		c.problem(RuleFATReserved, "", nil, "FAT holds only %d entries, reserved entries FAT[0], FAT[1] unreadable", len(c.fat))
		return
	}
	f0, f1 := c.fat[0], c.fat[1]
	if byte(f0) != c.r.Media {
		c.problem(RuleFATReserved, "", nil, "FAT[0]=%#x low byte %#02x != media descriptor %#02x", f0, byte(f0), c.r.Media)
	}
	var ones uint32
	switch c.kind {
	case 12:
		ones = 0xF00
	case 16:
		ones = 0xFF00
	default:
		ones = 0x0FFFFF00
	}
	if f0&ones != ones {
		c.problem(RuleFATReserved, "", nil, "FAT[0]=%#x high bits not all ones (want %#x)", f0, ones|uint32(c.r.Media))
	}
	v := f1
	switch c.kind {
	case 16:
		v |= 0xC000
	case 32:
		v |= 0x0C000000
	}
	if v < c.eoc {
		c.problem(RuleFATReserved, "", nil, "FAT[1]=%#x is not an end-of-chain value (>= %#x)", f1, c.eoc)
	}
}

func (c *checker) fatAt(cl uint32) uint32 {
	if uint64(cl) < uint64(len(c.fat)) {
		return c.fat[cl]
	}
	return 0
}

func (c *checker) clusterOff(cl uint32) int64 {
	return c.r.DataOffset + int64(cl-2)*int64(c.r.ClusterSize)
}

// followChain walks the chain starting at first for owner id, claims clusters
// and reports chain problems. first must be non-zero.
func (c *checker) followChain(first uint32, id int32, path string) []uint32 {
	c.walkID++
	if c.walkID < 0 {
		c.walkID = 1
		for i := range c.stamp {
			c.stamp[i] = 0
		}
	}
	wid := c.walkID
	var chain []uint32
	cross := map[int32][]uint32{}
	var crossOrder []int32
	cl := first
	prev := uint32(0)
	for {
		if cl < 2 || cl > c.maxC {
			if prev == 0 {
				c.problem(RuleChainRange, path, []uint32{cl}, "first cluster %d (%#x) outside [2,%d]", cl, cl, c.maxC)
			} else {
				c.problem(RuleChainRange, path, []uint32{prev, cl}, "FAT[%d] = %d (%#x) outside [2,%d] and not EOC, after %d clusters", prev, cl, cl, c.maxC, len(chain))
			}
			break
		}
		if uint64(cl) >= uint64(len(c.stamp)) {
			c.problem(RuleChainFree, path, []uint32{cl}, "cluster %d lies beyond the %d entries the FAT can hold", cl, len(c.fat))
			break
		}
		v := c.fat[cl]
		if v == 0 {
			if prev == 0 {
				c.problem(RuleChainFree, path, []uint32{cl}, "first cluster %d has FAT entry 0 (free)", cl)
			} else {
				c.problem(RuleChainFree, path, []uint32{prev, cl}, "FAT[%d] -> %d whose FAT entry is 0 (free); chain of %d clusters not terminated by EOC", prev, cl, len(chain))
			}
			break
		}
		if v == c.bad {
			c.problem(RuleChainBad, path, []uint32{cl}, "chain reaches cluster %d which carries the bad-cluster mark %#x (after %d clusters)", cl, c.bad, len(chain))
			break
		}
		if c.stamp[cl] == wid {
			c.problem(RuleChainCycle, path, []uint32{prev, cl}, "FAT[%d] -> %d revisits a cluster already in this chain (after %d clusters)", prev, cl, len(chain))
			break
		}
		c.stamp[cl] = wid
		if o := c.owner[cl]; o == 0 {
			c.owner[cl] = id
		} else if o != id {
			if _, ok := cross[o]; !ok {
				crossOrder = append(crossOrder, o)
			}
			cross[o] = append(cross[o], cl)
		}
		chain = append(chain, cl)
		if v >= c.eoc {
			break
		}
		prev = cl
		cl = v
	}
	for _, o := range crossOrder {
		cls := cross[o]
		c.problem(RuleCrossLink, path, cls, "%d cluster(s) belong both to %q and to %q (first shared cluster %d)", len(cls), path, c.owners[o], cls[0])
	}
	return chain
}

func (c *checker) classify() {
	r := c.r
	n := uint32(len(c.fat))
	lost := make([]bool, 0)
	if n > 0 {
		lost = make([]bool, n)
	}
	hi := c.maxC
	for cl := uint32(2); cl <= hi; cl++ {
		if cl >= n {
			r.Free += int(hi - cl + 1)
			break
		}
		v := c.fat[cl]
		switch {
		case v == 0:
			if c.owner[cl] != 0 {
				r.Used++ // cannot happen: free clusters are never claimed
			} else {
				r.Free++
			}
		case v == c.bad:
			r.Bad++
		case c.owner[cl] == 0:
			r.Lost++
			lost[cl] = true
		default:
			r.Used++
		}
	}
	if r.Lost == 0 {
		return
	}
	pointed := make([]bool, n)
	for cl := uint32(2); cl < n && cl <= hi; cl++ {
		if lost[cl] {
			v := c.fat[cl]
			if v >= 2 && v <= hi && v < n && lost[v] && v != cl {
				pointed[v] = true
			}
		}
	}
	seen := make([]bool, n)
	chains := 0
	emit := func(head uint32) {
		var cls []uint32
		cnt := 0
		cl := head
		for cl >= 2 && cl <= hi && cl < n && lost[cl] && !seen[cl] {
			seen[cl] = true
			cnt++
			if len(cls) < 16 {
				cls = append(cls, cl)
			}
			cl = c.fat[cl]
		}
		chains++
		if chains <= maxLostProblems {
			c.problem(RuleLostCluster, "", cls, "lost chain of %d cluster(s) starting at cluster %d (FAT[%d]=%#x): allocated in the FAT but owned by no file or directory (total lost clusters on volume: %d)", cnt, head, head, c.fat[head], r.Lost)
		}
	}
	for cl := uint32(2); cl < n && cl <= hi; cl++ {
		if lost[cl] && !pointed[cl] {
			emit(cl)
		}
	}
	for cl := uint32(2); cl < n && cl <= hi; cl++ {
		if lost[cl] && !seen[cl] {
			emit(cl) // pure cycles
		}
	}
	if chains > maxLostProblems {
		c.problem(RuleLostCluster, "", nil, "%d further lost chains not listed individually (total lost clusters: %d in %d chains)", chains-maxLostProblems, r.Lost, chains)
	}
}

func (c *checker) checkFSInfo() {
	r := c.r
	s := r.FSInfoSector
	if s == 0 || s >= r.ReservedSectors {
		c.problem(RuleFSInfo, "", nil, "FSInfo sector number %d is not inside the reserved area [1,%d)", s, r.ReservedSectors)
		return
	}
	b := c.read(int64(s)*int64(r.BytesPerSector), 512)
	if len(b) < 512 {
		c.problem(RuleFSInfo, "", nil, "FSInfo sector %d unreadable (%d bytes)", s, len(b))
		return
	}
	if v := le32(b[0:]); v != 0x41615252 {
		c.problem(RuleFSInfo, "", nil, "lead signature at offset 0 is %#08x, want 0x41615252", v)
	}
	if v := le32(b[484:]); v != 0x61417272 {
		c.problem(RuleFSInfo, "", nil, "struct signature at offset 484 is %#08x, want 0x61417272", v)
	}
	if v := le32(b[508:]); v != 0xAA550000 {
		c.problem(RuleFSInfo, "", nil, "trail signature at offset 508 is %#08x, want 0xaa550000", v)
	}
	r.FSInfoFree = le32(b[488:])
	r.FSInfoNext = le32(b[492:])
	if r.FSInfoFree != 0xFFFFFFFF && uint64(r.FSInfoFree) != uint64(r.Free) {
		c.problem(RuleFSInfo, "", nil, "free cluster count %d (%#x) is neither 0xFFFFFFFF nor the actual free count %d (cluster count %d, used %d, lost %d, bad %d)", r.FSInfoFree, r.FSInfoFree, r.Free, r.ClusterCount, r.Used, r.Lost, r.Bad)
	}
	if r.FSInfoNext != 0xFFFFFFFF && (r.FSInfoNext < 2 || r.FSInfoNext > c.maxC) {
		c.problem(RuleFSInfo, "", nil, "next-free hint %d (%#x) is neither 0xFFFFFFFF nor in [2,%d]", r.FSInfoNext, r.FSInfoNext, c.maxC)
	}
}

func (c *checker) checkBackupBoot() {
	r := c.r
	k := r.BackupBootSector
	if k == 0 {
		return // specification: only meaningful when non-zero
	}
	if k >= r.ReservedSectors {
		c.problem(RuleBackupBoot, "", nil, "backup boot sector number %d is outside the reserved area of %d sectors", k, r.ReservedSectors)
		return
	}
	bps := r.BytesPerSector
	a := c.readPad(0, bps)
	b := c.readPad(int64(k)*int64(bps), bps)
	for i := range a {
		if a[i] != b[i] {
			c.problem(RuleBackupBoot, "", nil, "backup boot sector %d differs from sector 0 at byte %d: sector0=%#02x backup=%#02x", k, i, a[i], b[i])
			return
		}
	}
}

// FATEntry returns the raw (masked) FAT entry of a cluster as seen by Check.
func (r *Report) FATEntry(cl uint32) uint32 {
	if uint64(cl) < uint64(len(r.fat)) {
		return r.fat[cl]
	}
	return 0
}

// ReadFile returns the content of a regular file entry following its chain, truncated to Size.
func (r *Report) ReadFile(rd Reader, e *Entry) []byte {
	if e == nil || r.ClusterSize <= 0 {
		return nil
	}
	remain := int64(e.Size)
	var out []byte
	for _, cl := range e.Chain {
		if remain <= 0 {
			break
		}
		if cl < 2 {
			break
		}
		n := int64(r.ClusterSize)
		if n > remain {
			n = remain
		}
		off := r.DataOffset + int64(cl-2)*int64(r.ClusterSize)
		b := rd(off, int(n))
		if int64(len(b)) > n {
			b = b[:n]
		}
		out = append(out, b...)
		if int64(len(b)) < n {
			break
		}
		remain -= n
	}
	return out
}

func normPath(p string) string {
	p = strings.ReplaceAll(p, "\\", "/")
	p = strings.Trim(p, "/")
	return strings.ToLower(p)
}

// Find returns the entry with the given path, comparing case-insensitively.
func (r *Report) Find(path string) *Entry {
	if r.index == nil || len(r.index) > len(r.Entries) {
		r.index = make(map[string]int, len(r.Entries))
		for i := range r.Entries {
			k := normPath(r.Entries[i].Path)
			if _, ok := r.index[k]; !ok {
				r.index[k] = i
			}
		}
	}
	if i, ok := r.index[normPath(path)]; ok && i < len(r.Entries) {
		return &r.Entries[i]
	}
	return nil
}
