package fatck

import (
	"fmt"
	"testing"
)

type breakCase struct {
	name   string
	kinds  []int // nil = all
	mutate func(v *vol, l layout)
	want   []string
	detail string // substring expected in the Detail of want[0]
	post   func(t *testing.T, r *Report)
}

var all = []int{12, 16, 32}

func (v *vol) badMark() uint32 {
	switch v.kind {
	case 12:
		return 0xFF7
	case 16:
		return 0xFFF7
	}
	return 0x0FFFFFF7
}

func breakCases() []breakCase {
	return []breakCase{
		{name: "cycle", mutate: func(v *vol, l layout) { v.setFAT(4, 3) }, want: []string{RuleChainCycle}, detail: "FAT[4] -> 3",
			post: func(t *testing.T, r *Report) {
				if e := r.Find("hello.txt"); e == nil || len(e.Chain) != 2 {
					t.Errorf("chain %+v", e)
				}
			}},
		{name: "self-cycle", mutate: func(v *vol, l layout) { v.setFAT(4, 4) }, want: []string{RuleChainCycle}},
		{name: "dir-cycle", mutate: func(v *vol, l layout) { v.setFAT(5, 5) }, want: []string{RuleChainCycle}},
		{name: "cross-link", mutate: func(v *vol, l layout) { copy(v.b[l.rootEmpty:], dirent("EMPTY   BIN", 0x20, 0, 4, 10)) },
			want: []string{RuleCrossLink}, detail: "HELLO.TXT",
			post: func(t *testing.T, r *Report) {
				for _, p := range r.Problems {
					if p.Rule == RuleCrossLink && (p.Path != "EMPTY.BIN" || len(p.Clusters) != 1 || p.Clusters[0] != 4) {
						t.Errorf("cross-link problem %+v", p)
					}
				}
			}},
		{name: "cross-link-into-cycle", mutate: func(v *vol, l layout) {
			v.setFAT(4, 3)
			copy(v.b[l.rootEmpty:], dirent("EMPTY   BIN", 0x20, 0, 4, 1024))
		}, want: []string{RuleChainCycle, RuleCrossLink}},
		{name: "dir-points-to-ancestor", mutate: func(v *vol, l layout) { copy(v.b[l.subSub:], dirent("SUB        ", 0x10, 0, 5, 0)) },
			want: []string{RuleCrossLink, RuleLostCluster}},
		{name: "lost", mutate: func(v *vol, l layout) { v.setFAT(20, 21); v.setFAT(21, v.eoc); v.setFAT(30, v.eoc) },
			want: []string{RuleLostCluster, RuleFSInfo}, detail: "lost chain of 2 cluster(s) starting at cluster 20",
			post: func(t *testing.T, r *Report) {
				if r.Lost != 3 {
					t.Errorf("lost %d", r.Lost)
				}
			}},
		{name: "lost-cycle", mutate: func(v *vol, l layout) { v.setFAT(20, 21); v.setFAT(21, 20) }, want: []string{RuleLostCluster, RuleFSInfo}},
		{name: "copies-differ", mutate: func(v *vol, l layout) { v.setFATCopy(1, 9, v.eoc) }, want: []string{RuleFATCopies}, detail: "within the used entries"},
		{name: "copies-differ-slack", mutate: func(v *vol, l layout) { v.b[v.fatOff+v.fatsz*512+500] = 1 }, want: []string{RuleFATCopies}, detail: "byte offset 500 (in the slack"},
		{name: "free-link", mutate: func(v *vol, l layout) { v.setFAT(4, 9) }, want: []string{RuleChainFree}, detail: "FAT[4] -> 9"},
		{name: "free-first", mutate: func(v *vol, l layout) { copy(v.b[l.rootEmpty:], dirent("EMPTY   BIN", 0x20, 0, 9, 1)) },
			want: []string{RuleChainFree, RuleChainShort}},
		{name: "out-of-range", mutate: func(v *vol, l layout) { v.setFAT(4, 62) }, want: []string{RuleChainRange}, detail: "FAT[4] = 62"},
		{name: "out-of-range-1", mutate: func(v *vol, l layout) { v.setFAT(4, 1) }, want: []string{RuleChainRange}},
		{name: "last-cluster-ok", mutate: func(v *vol, l layout) { v.setFAT(4, 61); v.setFAT(61, v.eoc) }, want: []string{RuleChainLong, RuleFSInfo}},
		{name: "bad-cluster", mutate: func(v *vol, l layout) { v.setFAT(4, 9); v.setFAT(9, v.badMark()) }, want: []string{RuleChainBad, RuleFSInfo},
			post: func(t *testing.T, r *Report) {
				if r.Bad != 1 {
					t.Errorf("bad %d", r.Bad)
				}
			}},
		{name: "bad-unreferenced-is-not-lost", mutate: func(v *vol, l layout) { v.setFAT(40, v.badMark()) }, want: []string{RuleFSInfo}},
		{name: "too-short", mutate: func(v *vol, l layout) { put32(v.b, l.rootHello+28, 1025) }, want: []string{RuleChainShort}, detail: "needs 3 cluster"},
		{name: "size-no-cluster", mutate: func(v *vol, l layout) { put32(v.b, l.rootEmpty+28, 1) }, want: []string{RuleChainShort}},
		{name: "too-long", mutate: func(v *vol, l layout) { put32(v.b, l.rootHello+28, 512) }, want: []string{RuleChainLong}, detail: "needs 1 cluster"},
		{name: "zero-size-with-cluster", mutate: func(v *vol, l layout) {
			v.setFAT(9, v.eoc)
			copy(v.b[l.rootEmpty:], dirent("EMPTY   BIN", 0x20, 0, 9, 0))
		}, want: []string{RuleChainLong, RuleFSInfo}, detail: "size is 0 but first cluster is 9"},
		{name: "boot-signature", mutate: func(v *vol, l layout) { v.b[510] = 0; v.b[6*512+510] = 0 }, want: []string{RuleBootSignature}},
		{name: "bps", mutate: func(v *vol, l layout) { put16(v.b, 11, 513) }, want: []string{RuleBootGeometry}, detail: "bytes per sector 513"},
		{name: "spc", mutate: func(v *vol, l layout) { v.b[13] = 3 }, want: []string{RuleBootGeometry}, detail: "sectors per cluster 3"},
		{name: "spc0", mutate: func(v *vol, l layout) { v.b[13] = 0 }, want: []string{RuleBootGeometry}},
		{name: "rsvd0", mutate: func(v *vol, l layout) { put16(v.b, 14, 0) }, want: []string{RuleBootGeometry}, detail: "reserved"},
		{name: "nfats0", mutate: func(v *vol, l layout) { v.b[16] = 0 }, want: []string{RuleBootGeometry}, detail: "number of FATs"},
		{name: "total0", mutate: func(v *vol, l layout) { put16(v.b, 19, 0); put32(v.b, 32, 0) }, want: []string{RuleBootGeometry}, detail: "total sectors"},
		{name: "range-more", mutate: func(v *vol, l layout) { v.b = v.b[:len(v.b)-512] }, want: []string{RuleGeometryVsRange}, detail: "MORE"},
		{name: "range-less", mutate: func(v *vol, l layout) { v.b = append(v.b, make([]byte, 512)...) }, want: []string{RuleGeometryVsRange}, detail: "LESS"},
		{name: "range-partial-sector-ok", mutate: func(v *vol, l layout) { v.b = append(v.b, make([]byte, 511)...) }, want: nil},
		{name: "layout-overflow", kinds: []int{12, 16}, mutate: func(v *vol, l layout) { put16(v.b, 22, 40) }, want: []string{RuleLayoutOverflow}, detail: "> total sectors"},
		{name: "layout-overflow32", kinds: []int{32}, mutate: func(v *vol, l layout) { put32(v.b, 36, 40); put32(v.b, 6*512+36, 40) }, want: []string{RuleLayoutOverflow}},
		{name: "fat0-media", mutate: func(v *vol, l layout) { v.setFAT(0, v.eoc&^0xFF|0xF0) }, want: []string{RuleFATReserved}, detail: "low byte 0xf0 != media descriptor 0xf8"},
		{name: "fat0-highbits", mutate: func(v *vol, l layout) { v.setFAT(0, 0xF8) }, want: []string{RuleFATReserved}, detail: "high bits"},
		{name: "fat1-not-eoc", mutate: func(v *vol, l layout) { v.setFAT(1, 3) }, want: []string{RuleFATReserved}, detail: "FAT[1]=0x3"},
		{name: "fat1-dirty-bits-ok", kinds: []int{16}, mutate: func(v *vol, l layout) { v.setFAT(1, 0x3FFF) }, want: nil},
		{name: "fat1-dirty-bits-ok32", kinds: []int{32}, mutate: func(v *vol, l layout) { v.setFAT(1, 0x03FFFFFF) }, want: nil},
		{name: "fat32-high-nibble-ignored", kinds: []int{32}, mutate: func(v *vol, l layout) { v.setFAT(3, 0xF0000004) }, want: nil},
		{name: "dot-deleted", mutate: func(v *vol, l layout) { v.b[l.subDot] = 0xE5 }, want: []string{RuleDirEntry}, detail: "lacks \".\""},
		{name: "dotdot-deleted", mutate: func(v *vol, l layout) { v.b[l.subDotDot] = 0xE5 }, want: []string{RuleDirEntry}, detail: "lacks \"..\""},
		{name: "dot-wrong", mutate: func(v *vol, l layout) { put16(v.b, l.subDot+26, 6) }, want: []string{RuleDirEntry}, detail: "\".\" points to cluster 6, want the directory's own first cluster 5"},
		{name: "dotdot-wrong", mutate: func(v *vol, l layout) { put16(v.b, l.subDotDot+26, 2) }, want: []string{RuleDirEntry}, detail: "\"..\" points to cluster 2, want parent first cluster 0"},
		{name: "dotdot-nested-wrong", mutate: func(v *vol, l layout) { put16(v.b, v.coff(8)+32+26, 0) }, want: []string{RuleDirEntry}, detail: "want parent first cluster 5"},
		{name: "dir-first-0", mutate: func(v *vol, l layout) { put16(v.b, l.rootDirShort+26, 0) }, want: []string{RuleDirEntry, RuleLostCluster}, detail: "first cluster is 0"},
		{name: "dir-first-oor", mutate: func(v *vol, l layout) { put16(v.b, l.rootDirShort+26, 500) }, want: []string{RuleDirEntry, RuleLostCluster}, detail: "first cluster 500 outside"},
		{name: "ctrl-char", mutate: func(v *vol, l layout) { v.b[l.rootEmpty+2] = 0x01 }, want: []string{RuleDirEntry}, detail: "control character 0x01"},
		{name: "kanji-05-ok", mutate: func(v *vol, l layout) { v.b[l.rootEmpty] = 0x05 }, want: nil,
			post: func(t *testing.T, r *Report) {
				if r.Find("åMPTY.BIN") == nil {
					t.Errorf("0x05 lead byte not mapped to 0xE5")
				}
			}},
		{name: "lowercase-short", mutate: func(v *vol, l layout) { v.b[l.rootEmpty+1] = 'm' }, want: []string{RuleDirEntry}, detail: "lower-case"},
		{name: "hi-word-fat1x", kinds: []int{12, 16}, mutate: func(v *vol, l layout) { put16(v.b, l.rootHello+20, 7) }, want: []string{RuleDirEntry}, detail: "high word"},
		{name: "lfn-checksum", mutate: func(v *vol, l layout) { v.b[l.rootLFN+13]++; v.b[l.rootLFN+32+13]++ }, want: []string{RuleLFNOrphan}, detail: "does not match checksum",
			post: func(t *testing.T, r *Report) {
				if e := r.Find("MYLONG~1"); e == nil || e.HasLFN || r.Find("MYLONG~1/lower.txt") == nil {
					t.Errorf("fallback to short name failed: %+v", e)
				}
			}},
		{name: "lfn-checksum-inner", mutate: func(v *vol, l layout) { v.b[l.rootLFN+32+13]++ }, want: []string{RuleLFNOrphan}, detail: "differs from"},
		{name: "lfn-order", mutate: func(v *vol, l layout) { v.b[l.rootLFN+32] = 2 }, want: []string{RuleLFNOrphan}, detail: "wrong sequence order"},
		{name: "lfn-no-start", mutate: func(v *vol, l layout) { v.b[l.rootLFN] = 2 }, want: []string{RuleLFNOrphan}, detail: "no preceding last-entry"},
		{name: "lfn-incomplete", mutate: func(v *vol, l layout) { v.b[l.rootLFN+32] = 0xE5 }, want: []string{RuleLFNOrphan}, detail: "deleted entry"},
		{name: "lfn-at-end", mutate: func(v *vol, l layout) { copy(v.b[l.rootEmpty:], lfnSlots("orphan", "NOTHERE    ")[0]) }, want: []string{RuleLFNOrphan}, detail: "not followed by a short entry"},
		{name: "dup-short", mutate: func(v *vol, l layout) { copy(v.b[l.rootEmpty:], "HELLO   TXT") }, want: []string{RuleDuplicate}, detail: "short name \"HELLO.TXT\" already used"},
		{name: "dup-long", mutate: func(v *vol, l layout) {
			o := v.putSlots(l.rootEmpty, lfnSlots("MY LONG directory", "MYLONG~2   ")...)
			v.putSlots(o, dirent("MYLONG~2   ", 0x20, 0, 0, 0))
		}, want: []string{RuleDuplicate}, detail: "long name \"MY LONG directory\" equals"},
		{name: "dup-long-vs-short", mutate: func(v *vol, l layout) {
			o := v.putSlots(l.rootEmpty, lfnSlots("hello.txt", "HELLO~1 TXT")...)
			v.putSlots(o, dirent("HELLO~1 TXT", 0x20, 0, 0, 0))
		}, want: []string{RuleDuplicate}, detail: "equals the short name of another entry"},
		{name: "dir-size", mutate: func(v *vol, l layout) { put32(v.b, l.rootDirShort+28, 32) }, want: []string{RuleDirSize}, detail: "size 32"},
		{name: "backup-boot", kinds: []int{32}, mutate: func(v *vol, l layout) { v.b[6*512+3] ^= 0xFF }, want: []string{RuleBackupBoot}, detail: "differs from sector 0 at byte 3"},
		{name: "backup-boot-outside", kinds: []int{32}, mutate: func(v *vol, l layout) { put16(v.b, 50, 40) }, want: []string{RuleBackupBoot}, detail: "outside the reserved area"},
		{name: "fsinfo-lead", kinds: []int{32}, mutate: func(v *vol, l layout) { v.b[512] = 0 }, want: []string{RuleFSInfo}, detail: "lead signature"},
		{name: "fsinfo-struct", kinds: []int{32}, mutate: func(v *vol, l layout) { v.b[512+484] = 0 }, want: []string{RuleFSInfo}, detail: "struct signature"},
		{name: "fsinfo-trail", kinds: []int{32}, mutate: func(v *vol, l layout) { v.b[512+511] = 0 }, want: []string{RuleFSInfo}, detail: "trail signature"},
		{name: "fsinfo-free", kinds: []int{32}, mutate: func(v *vol, l layout) { put32(v.b, 512+488, 51) }, want: []string{RuleFSInfo}, detail: "free cluster count 51"},
		{name: "fsinfo-free-unknown-ok", kinds: []int{32}, mutate: func(v *vol, l layout) { put32(v.b, 512+488, 0xFFFFFFFF); put32(v.b, 512+492, 0xFFFFFFFF) }, want: nil},
		{name: "fsinfo-next", kinds: []int{32}, mutate: func(v *vol, l layout) { put32(v.b, 512+492, 62) }, want: []string{RuleFSInfo}, detail: "next-free hint 62"},
		{name: "fsinfo-next-max-ok", kinds: []int{32}, mutate: func(v *vol, l layout) { put32(v.b, 512+492, 61) }, want: nil},
		{name: "fsinfo-next-1", kinds: []int{32}, mutate: func(v *vol, l layout) { put32(v.b, 512+492, 1) }, want: []string{RuleFSInfo}},
		{name: "root-cluster-oor", kinds: []int{32}, mutate: func(v *vol, l layout) { put32(v.b, 44, 99); put32(v.b, 6*512+44, 99) }, want: []string{RuleDirEntry, RuleLostCluster}, detail: "root directory first cluster 99"},
		{name: "root-chain-lost-when-unowned", kinds: []int{32}, mutate: func(v *vol, l layout) { v.setFAT(50, v.eoc) }, want: []string{RuleLostCluster, RuleFSInfo}},
	}
}

func TestHandmadeBroken(t *testing.T) {
	for _, bc := range breakCases() {
		kinds := bc.kinds
		if kinds == nil {
			kinds = all
		}
		for _, k := range kinds {
			bc, k := bc, k
			t.Run(fmt.Sprintf("%s/fat%d", bc.name, k), func(t *testing.T) {
				v, l := std(k)
				bc.mutate(v, l)
				r := check(v)
				want := bc.want
				if k != 32 {
					// RuleFSInfo appears in want lists only because changing the
					// allocation makes the stored fat32 free count stale.
					var w []string
					for _, x := range want {
						if x != RuleFSInfo || len(bc.kinds) > 0 {
							w = append(w, x)
						}
					}
					want = w
				}
				wantRules(t, r, want...)
				if bc.detail != "" && len(bc.want) > 0 {
					detailHas(t, r, bc.want[0], bc.detail)
				}
				if bc.post != nil {
					bc.post(t, r)
				}
			})
		}
	}
}

func TestFATTooSmall(t *testing.T) {
	v := mkvol(12, 60, "FAT12   ")
	// declare 1000 sectors: 996 clusters need 1497 FAT bytes, the FAT has 512
	put16(v.b, 19, 1000)
	v.b = append(v.b, make([]byte, (1000-v.total)*512)...)
	r := check(v)
	wantRules(t, r, RuleLayoutOverflow)
	detailHas(t, r, RuleLayoutOverflow, "FAT too small")
	// fat12 label with too many clusters for 12-bit entries
	v = mkvol(16, 5000, "FAT12   ")
	r = check(v)
	wantRules(t, r, RuleLayoutOverflow, RuleLostCluster) // 16-bit 0xFFFF,0xFFFF reserved entries read as 12-bit leave FAT[2]=0x0FF
	detailHas(t, r, RuleLayoutOverflow, "not representable")
}

func TestNeverPanics(t *testing.T) {
	r := Check(func(off int64, n int) []byte { panic("reader exploded") }, 1<<20)
	wantRules(t, r, RuleInternal)
	r = Check(func(off int64, n int) []byte { return nil }, 1<<20)
	wantRules(t, r, RuleBootSignature)
	r = Check(func(off int64, n int) []byte { return make([]byte, n+100) }, 0)
	wantRules(t, r, RuleBootSignature)
	// pseudo-random garbage and truncations of a good volume must terminate without a checker-internal
	for _, k := range all {
		v, _ := std(k)
		for cut := 0; cut < len(v.b); cut += 37 {
			w := v.clone()
			w.b = w.b[:cut]
			for _, p := range check(w).Problems {
				if p.Rule == RuleInternal {
					t.Fatalf("fat%d cut %d: %s", k, cut, p)
				}
			}
		}
		seed := uint32(12345)
		for i := 0; i < 3000; i++ {
			w := v.clone()
			for j := 0; j < 4; j++ {
				seed = seed*1664525 + 1013904223
				pos := int(seed>>8) % (v.dataOff + 10*512)
				seed = seed*1664525 + 1013904223
				w.b[pos] = byte(seed >> 16)
			}
			for _, p := range check(w).Problems {
				if p.Rule == RuleInternal {
					t.Fatalf("fat%d fuzz %d: %s", k, i, p)
				}
			}
		}
	}
}
