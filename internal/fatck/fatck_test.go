package fatck

import (
	"bytes"
	"encoding/binary"
	"sort"
	"strings"
	"testing"
	"time"
	"unicode/utf16"
)

// ---------------------------------------------------------------------------
// Hand-made volumes. Every byte is placed by this file from the offsets in the
// Microsoft specification; nothing here uses the library under test.
// ---------------------------------------------------------------------------

type vol struct {
	kind                                  int
	b                                     []byte
	bps, spc, rsvd, nfats, rootEnt, fatsz int
	total, clusters                       int
	fatOff, rootOff, dataOff              int
	eoc                                   uint32
}

func put16(b []byte, o int, v uint16) { binary.LittleEndian.PutUint16(b[o:], v) }
func put32(b []byte, o int, v uint32) { binary.LittleEndian.PutUint32(b[o:], v) }

// mkvol lays out an empty volume of the given FAT width with the given number of data clusters.
func mkvol(kind, clusters int, fstype string) *vol {
	v := &vol{kind: kind, bps: 512, spc: 1, nfats: 2, clusters: clusters}
	ent := clusters + 2
	var fatBytes int
	switch kind {
	case 12:
		fatBytes = (ent*3 + 1) / 2
		v.eoc = 0xFFF
	case 16:
		fatBytes = ent * 2
		v.eoc = 0xFFFF
	default:
		fatBytes = ent * 4
		v.eoc = 0x0FFFFFFF
	}
	v.fatsz = (fatBytes + 511) / 512
	rootSecs := 0
	if kind == 32 {
		v.rsvd = 32
	} else {
		v.rsvd = 1
		v.rootEnt = 16
		rootSecs = 1
	}
	v.total = v.rsvd + v.nfats*v.fatsz + rootSecs + clusters
	v.fatOff = v.rsvd * 512
	v.rootOff = (v.rsvd + v.nfats*v.fatsz) * 512
	v.dataOff = v.rootOff + rootSecs*512
	v.b = make([]byte, v.total*512)
	b := v.b
	copy(b[0:], []byte{0xEB, 0x3C, 0x90})
	copy(b[3:], "HANDMADE")
	put16(b, 11, 512)
	b[13] = 1
	put16(b, 14, uint16(v.rsvd))
	b[16] = 2
	put16(b, 17, uint16(v.rootEnt))
	if v.total < 0x10000 && kind != 32 {
		put16(b, 19, uint16(v.total))
	} else {
		put32(b, 32, uint32(v.total))
	}
	b[21] = 0xF8
	put16(b, 24, 32)
	put16(b, 26, 64)
	if kind == 32 {
		put32(b, 36, uint32(v.fatsz))
		put16(b, 40, 0)
		put16(b, 42, 0)
		put32(b, 44, 2)
		put16(b, 48, 1)
		put16(b, 50, 6)
		b[64] = 0x80
		b[66] = 0x29
		put32(b, 67, 0xCAFEF00D)
		copy(b[71:], "BOOTLABEL  ")
		copy(b[82:], fstype)
	} else {
		put16(b, 22, uint16(v.fatsz))
		b[36] = 0x80
		b[38] = 0x29
		put32(b, 39, 0xCAFEF00D)
		copy(b[43:], "BOOTLABEL  ")
		copy(b[54:], fstype)
	}
	b[510], b[511] = 0x55, 0xAA
	switch kind {
	case 12:
		v.setFAT(0, 0xFF8)
		v.setFAT(1, 0xFFF)
	case 16:
		v.setFAT(0, 0xFFF8)
		v.setFAT(1, 0xFFFF)
	default:
		v.setFAT(0, 0x0FFFFFF8)
		v.setFAT(1, 0x0FFFFFFF)
		v.setFAT(2, v.eoc) // root directory
	}
	return v
}

func (v *vol) setFATCopy(k, i int, val uint32) {
	base := v.fatOff + k*v.fatsz*512
	switch v.kind {
	case 12:
		o := base + i + i/2
		if i&1 == 0 {
			v.b[o] = byte(val)
			v.b[o+1] = v.b[o+1]&0xF0 | byte(val>>8)&0x0F
		} else {
			v.b[o] = v.b[o]&0x0F | byte(val<<4)
			v.b[o+1] = byte(val >> 4)
		}
	case 16:
		put16(v.b, base+i*2, uint16(val))
	default:
		put32(v.b, base+i*4, val)
	}
}

func (v *vol) setFAT(i int, val uint32) {
	for k := 0; k < v.nfats; k++ {
		v.setFATCopy(k, i, val)
	}
}

func (v *vol) coff(cl int) int { return v.dataOff + (cl-2)*512 }

func (v *vol) rootDirOff() int {
	if v.kind == 32 {
		return v.coff(2)
	}
	return v.rootOff
}

// finish32 writes FSInfo and the backup boot sector (fat32 only).
func (v *vol) finish32(free, next uint32) {
	if v.kind != 32 {
		return
	}
	fs := v.b[512:1024]
	for i := range fs {
		fs[i] = 0
	}
	put32(fs, 0, 0x41615252)
	put32(fs, 484, 0x61417272)
	put32(fs, 488, free)
	put32(fs, 492, next)
	put32(fs, 508, 0xAA550000)
	copy(v.b[6*512:7*512], v.b[0:512])
	copy(v.b[7*512:8*512], fs)
}

func (v *vol) reader() Reader {
	b := v.b
	return func(off int64, n int) []byte {
		if off < 0 || off >= int64(len(b)) {
			return nil
		}
		e := off + int64(n)
		if e > int64(len(b)) {
			e = int64(len(b))
		}
		return b[off:e]
	}
}

func (v *vol) clone() *vol {
	w := *v
	w.b = append([]byte(nil), v.b...)
	return &w
}

const (
	tDate = uint16(41<<9 | 3<<5 | 4) // 2021-03-04
	tTime = uint16(5<<11 | 6<<5 | 4) // 05:06:08
)

func dirent(name11 string, attr, nt byte, first uint32, size uint32) []byte {
	if len(name11) != 11 {
		panic("name11 " + name11)
	}
	e := make([]byte, 32)
	copy(e, name11)
	e[11] = attr
	e[12] = nt
	e[13] = 150 // 1.5 s
	put16(e, 14, tTime)
	put16(e, 16, tDate)
	put16(e, 18, tDate+1)
	put16(e, 20, uint16(first>>16))
	put16(e, 22, tTime+1)
	put16(e, 24, tDate+2)
	put16(e, 26, uint16(first))
	put32(e, 28, size)
	return e
}

func cksum(name11 string) byte {
	var s byte
	for i := 0; i < 11; i++ {
		s = (s >> 1) | (s << 7)
		s += name11[i]
	}
	return s
}

// lfnSlots returns the long-name slots in on-disk order (last piece first).
func lfnSlots(long string, short11 string) [][]byte {
	u := utf16.Encode([]rune(long))
	n := (len(u) + 12) / 13
	if len(u)%13 != 0 {
		u = append(u, 0)
	}
	for len(u) < n*13 {
		u = append(u, 0xFFFF)
	}
	pos := [13]int{1, 3, 5, 7, 9, 14, 16, 18, 20, 22, 24, 28, 30}
	var out [][]byte
	for seq := n; seq >= 1; seq-- {
		e := make([]byte, 32)
		e[0] = byte(seq)
		if seq == n {
			e[0] |= 0x40
		}
		e[11] = 0x0F
		e[13] = cksum(short11)
		for i, p := range pos {
			put16(e, p, u[(seq-1)*13+i])
		}
		out = append(out, e)
	}
	return out
}

func (v *vol) putSlots(off int, slots ...[]byte) int {
	for _, s := range slots {
		copy(v.b[off:], s)
		off += 32
	}
	return off
}

const (
	longDir  = "My Long Directory"
	longFile = "Grüße 世界 \U0001F600.data"
)

// Standard content, identical for every FAT width.
//
//	root: label, HELLO.TXT (3->4, 700 bytes), "My Long Directory" (cluster 5), deleted slot, EMPTY.BIN
//	dir5: ., .., lower.txt (NT lower-case flags, cluster 6, 5 bytes), long file (7->10, 513 bytes), SUB (cluster 8)
//	dir8: ., ..
//
// Cluster 9 and 11.. are free; cluster 2 is the fat32 root, free otherwise.
type layout struct {
	rootHello, rootLFN, rootDirShort, rootDeleted, rootEmpty  int // byte offsets of slots
	subDot, subDotDot, subLower, subLFN, subLongShort, subSub int
}

func populate(v *vol) layout {
	var l layout
	hello := bytes.Repeat([]byte("0123456789"), 70)
	copy(v.b[v.coff(3):], hello[:512])
	copy(v.b[v.coff(4):], hello[512:])
	v.setFAT(3, 4)
	v.setFAT(4, v.eoc)
	v.setFAT(5, v.eoc)
	v.setFAT(6, v.eoc)
	v.setFAT(7, 10)
	v.setFAT(10, v.eoc)
	v.setFAT(8, v.eoc)

	o := v.rootDirOff()
	o = v.putSlots(o, dirent("ROOTLABEL  ", 0x08, 0, 0, 0))
	l.rootHello = o
	o = v.putSlots(o, dirent("HELLO   TXT", 0x20, 0, 3, 700))
	l.rootLFN = o
	o = v.putSlots(o, lfnSlots(longDir, "MYLONG~1   ")...)
	l.rootDirShort = o
	o = v.putSlots(o, dirent("MYLONG~1   ", 0x10, 0, 5, 0))
	l.rootDeleted = o
	del := dirent("GONE    TXT", 0x20, 0, 9, 100)
	del[0] = 0xE5
	o = v.putSlots(o, del)
	l.rootEmpty = o
	v.putSlots(o, dirent("EMPTY   BIN", 0x20, 0, 0, 0))

	o = v.coff(5)
	l.subDot = o
	o = v.putSlots(o, dirent(".          ", 0x10, 0, 5, 0))
	l.subDotDot = o
	o = v.putSlots(o, dirent("..         ", 0x10, 0, 0, 0))
	l.subLower = o
	o = v.putSlots(o, dirent("LOWER   TXT", 0x20, 0x18, 6, 5))
	copy(v.b[v.coff(6):], "lower")
	l.subLFN = o
	o = v.putSlots(o, lfnSlots(longFile, "GR~1    DAT")...)
	l.subLongShort = o
	o = v.putSlots(o, dirent("GR~1    DAT", 0x20, 0, 7, 513))
	copy(v.b[v.coff(7):], bytes.Repeat([]byte{'A'}, 512))
	copy(v.b[v.coff(10):], "Z-and-garbage-after-eof")
	l.subSub = o
	v.putSlots(o, dirent("SUB        ", 0x10, 0, 8, 0))

	o = v.coff(8)
	o = v.putSlots(o, dirent(".          ", 0x10, 0, 8, 0))
	v.putSlots(o, dirent("..         ", 0x10, 0, 5, 0))

	used := 7
	if v.kind == 32 {
		used = 8
	}
	v.finish32(uint32(v.clusters-used), 11)
	return l
}

func std(kind int) (*vol, layout) {
	var v *vol
	switch kind {
	case 12:
		v = mkvol(12, 60, "FAT12   ")
	case 16:
		v = mkvol(16, 60, "FAT16   ")
	default:
		v = mkvol(32, 60, "FAT32   ")
	}
	l := populate(v)
	return v, l
}

func rules(r *Report) []string {
	m := map[string]bool{}
	for _, p := range r.Problems {
		m[p.Rule] = true
	}
	var out []string
	for k := range m {
		out = append(out, k)
	}
	sort.Strings(out)
	return out
}

func wantRules(t *testing.T, r *Report, want ...string) {
	t.Helper()
	want = append([]string(nil), want...)
	sort.Strings(want)
	got := rules(r)
	if strings.Join(got, ",") != strings.Join(want, ",") {
		t.Errorf("rules: got %v want %v", got, want)
		for _, p := range r.Problems {
			t.Logf("  %s", p)
		}
	}
}

func detailHas(t *testing.T, r *Report, rule, sub string) {
	t.Helper()
	for _, p := range r.Problems {
		if p.Rule == rule && strings.Contains(p.Detail, sub) {
			return
		}
	}
	t.Errorf("no %s problem with detail containing %q", rule, sub)
	for _, p := range r.Problems {
		t.Logf("  %s", p)
	}
}

func check(v *vol) *Report { return Check(v.reader(), int64(len(v.b))) }

func TestHandmadeClean(t *testing.T) {
	for _, kind := range []int{12, 16, 32} {
		v, l := std(kind)
		r := check(v)
		wantRules(t, r)
		wantType := map[int]string{12: "fat12", 16: "fat16", 32: "fat32"}[kind]
		if r.Type != wantType || r.CountClass != "fat12" {
			t.Errorf("kind %d: Type %q CountClass %q", kind, r.Type, r.CountClass)
		}
		if r.BytesPerSector != 512 || r.SectorsPerCluster != 1 || r.NumFATs != 2 || r.ClusterCount != 60 || r.ClusterSize != 512 ||
			r.ReservedSectors != v.rsvd || r.RootEntries != v.rootEnt || r.TotalSectors != uint64(v.total) || r.FATSectors != uint32(v.fatsz) {
			t.Errorf("kind %d: geometry %+v", kind, r)
		}
		if r.FATOffset != int64(v.fatOff) || r.RootDirOffset != int64(v.rootOff) || r.DataOffset != int64(v.dataOff) {
			t.Errorf("kind %d: offsets fat %d root %d data %d", kind, r.FATOffset, r.RootDirOffset, r.DataOffset)
		}
		if r.Label != "BOOTLABEL" || r.RootLabel != "ROOTLABEL" || r.VolumeID != 0xCAFEF00D {
			t.Errorf("kind %d: labels %q %q id %#x", kind, r.Label, r.RootLabel, r.VolumeID)
		}
		used := 7
		if kind == 32 {
			used = 8
			if r.RootCluster != 2 || r.FSInfoSector != 1 || r.BackupBootSector != 6 || r.FSInfoFree != 52 || r.FSInfoNext != 11 {
				t.Errorf("fat32 fields: %+v", r)
			}
		}
		if r.Used != used || r.Free != 60-used || r.Lost != 0 {
			t.Errorf("kind %d: used %d free %d lost %d", kind, r.Used, r.Free, r.Lost)
		}
		var paths []string
		for _, e := range r.Entries {
			paths = append(paths, e.Path)
		}
		sort.Strings(paths)
		want := []string{"EMPTY.BIN", "HELLO.TXT", longDir, longDir + "/" + longFile, longDir + "/SUB", longDir + "/lower.txt"}
		sort.Strings(want)
		if strings.Join(paths, "|") != strings.Join(want, "|") {
			t.Fatalf("kind %d: paths %q want %q", kind, paths, want)
		}
		h := r.Find("hello.txt")
		if h == nil || h.Size != 700 || h.FirstCluster != 3 || len(h.Chain) != 2 || h.Chain[0] != 3 || h.Chain[1] != 4 || h.IsDir || h.HasLFN ||
			h.ShortName != "HELLO.TXT" || h.Name != "HELLO.TXT" || h.Attr != 0x20 || h.DirOffset != int64(l.rootHello) {
			t.Fatalf("kind %d: hello %+v", kind, h)
		}
		if got := r.ReadFile(v.reader(), h); !bytes.Equal(got, bytes.Repeat([]byte("0123456789"), 70)) {
			t.Errorf("kind %d: hello content %q", kind, got)
		}
		wantC := time.Date(2021, 3, 4, 5, 6, 9, 500*int(time.Millisecond), time.UTC)
		wantM := time.Date(2021, 3, 6, 5, 6, 10, 0, time.UTC)
		wantA := time.Date(2021, 3, 5, 0, 0, 0, 0, time.UTC)
		if !h.CreateTime.Equal(wantC) || !h.ModTime.Equal(wantM) || !h.AccessDate.Equal(wantA) {
			t.Errorf("kind %d: times %v %v %v", kind, h.CreateTime, h.ModTime, h.AccessDate)
		}
		if h.RawDate != [3]uint16{tDate, tDate + 2, tDate + 1} || h.RawTime != [2]uint16{tTime, tTime + 1} {
			t.Errorf("kind %d: raw %v %v", kind, h.RawDate, h.RawTime)
		}
		d := r.Find("MY LONG DIRECTORY")
		if d == nil || !d.IsDir || !d.HasLFN || d.Name != longDir || d.ShortName != "MYLONG~1" || d.FirstCluster != 5 || len(d.Chain) != 1 || d.DirOffset != int64(l.rootDirShort) {
			t.Fatalf("kind %d: dir %+v", kind, d)
		}
		lo := r.Find(longDir + "/LOWER.TXT")
		if lo == nil || lo.Name != "lower.txt" || lo.ShortName != "LOWER.TXT" || lo.HasLFN || string(r.ReadFile(v.reader(), lo)) != "lower" {
			t.Fatalf("kind %d: lower %+v", kind, lo)
		}
		lf := r.Find("/" + longDir + "/" + strings.ToUpper(longFile))
		if lf == nil || lf.Name != longFile || lf.ShortName != "GR~1.DAT" || !lf.HasLFN || len(lf.Chain) != 2 || lf.Chain[1] != 10 {
			t.Fatalf("kind %d: long file %+v", kind, lf)
		}
		if got := r.ReadFile(v.reader(), lf); len(got) != 513 || got[511] != 'A' || got[512] != 'Z' {
			t.Errorf("kind %d: long file content len %d", kind, len(got))
		}
		e := r.Find("empty.bin")
		if e == nil || e.Size != 0 || len(e.Chain) != 0 || len(r.ReadFile(v.reader(), e)) != 0 {
			t.Errorf("kind %d: empty %+v", kind, e)
		}
		if r.Find("GONE.TXT") != nil || r.Find("nothing") != nil {
			t.Errorf("kind %d: found a deleted or absent entry", kind)
		}
		if r.FATEntry(3) != 4 || r.FATEntry(7) != 10 || r.FATEntry(9) != 0 {
			t.Errorf("kind %d: FAT entries %#x %#x %#x", kind, r.FATEntry(3), r.FATEntry(7), r.FATEntry(9))
		}
	}
}

func TestTypeDecision(t *testing.T) {
	// no usable type string: the cluster count decides
	for _, c := range []struct {
		clusters int
		kind     int
		want     string
	}{{4084, 12, "fat12"}, {4085, 16, "fat16"}, {4200, 16, "fat16"}} {
		v := mkvol(c.kind, c.clusters, "FAT     ")
		// a file in the very last cluster
		last := c.clusters + 1
		v.setFAT(last, v.eoc)
		v.putSlots(v.rootOff, dirent("LAST    BIN", 0x20, 0, uint32(last), 512))
		copy(v.b[v.coff(last):], bytes.Repeat([]byte{0x5A}, 512))
		r := check(v)
		wantRules(t, r)
		if r.Type != c.want || r.CountClass != c.want || int(r.ClusterCount) != c.clusters {
			t.Errorf("%d clusters: type %q class %q count %d", c.clusters, r.Type, r.CountClass, r.ClusterCount)
		}
		e := r.Find("last.bin")
		if e == nil || len(e.Chain) != 1 || !bytes.Equal(r.ReadFile(v.reader(), e), bytes.Repeat([]byte{0x5A}, 512)) {
			t.Errorf("%d clusters: last-cluster file %+v", c.clusters, e)
		}
		if int64(len(v.b)) != r.DataOffset+int64(c.clusters)*512 {
			t.Errorf("data region end mismatch")
		}
	}
	// the type string wins over the count for fat12/fat16
	v, _ := std(16)
	if r := check(v); r.Type != "fat16" || r.CountClass != "fat12" {
		t.Errorf("string rule: %q %q", r.Type, r.CountClass)
	}
	// fat32 is decided by structure even with a misleading string
	v, _ = std(32)
	copy(v.b[82:], "FAT16   ")
	copy(v.b[6*512+82:], "FAT16   ")
	if r := check(v); r.Type != "fat32" {
		t.Errorf("structure rule: %q", r.Type)
	}
}
