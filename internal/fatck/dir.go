package fatck

import (
	"fmt"
	"strings"
	"time"
	"unicode/utf16"
)

type dirJob struct {
	path   string // "" for root
	isRoot bool
	self   uint32 // first cluster (0 for fat12/16 root)
	parent uint32 // expected ".." target
	depth  int
	chain  []uint32
}

type lfnState struct {
	active   bool
	total    int
	next     int // next expected sequence number, 0 when complete
	sum      byte
	parts    [][]uint16
	startOff int64
}

type dirParser struct {
	c        *checker
	job      dirJob
	slot     int
	lfn      lfnState
	dot      bool
	dotdot   bool
	shorts   map[[11]byte]string
	longs    map[string]string // folded long name -> path
	allNames map[string]string // folded short rendering of entries -> path
	children []dirJob
	warned   bool
}

func dispPath(p string) string {
	if p == "" {
		return "/"
	}
	return p
}

func (c *checker) walk() {
	r := c.r
	var queue []dirJob
	if c.kind == 32 {
		rc := r.RootCluster
		if rc < 2 || rc > c.maxC {
			c.problem(RuleDirEntry, "/", []uint32{rc}, "root directory first cluster %d outside [2,%d]", rc, c.maxC)
			return
		}
		c.owners = append(c.owners, "/")
		chain := c.followChain(rc, 1, "/")
		r.RootChain = chain
		queue = append(queue, dirJob{isRoot: true, self: rc, parent: 0, chain: chain})
	} else {
		queue = append(queue, dirJob{isRoot: true})
	}
	for len(queue) > 0 && !c.stop {
		job := queue[0]
		queue = queue[1:]
		p := &dirParser{c: c, job: job, shorts: map[[11]byte]string{}, longs: map[string]string{}, allNames: map[string]string{}}
		if job.isRoot && c.kind != 32 {
			n := r.RootEntries * 32
			blk := c.readPad(r.RootDirOffset, n)
			if !p.feed(blk, r.RootDirOffset) {
				p.finish(false)
			}
		} else {
			done := false
			for _, cl := range job.chain {
				blk := c.readPad(c.clusterOff(cl), r.ClusterSize)
				if p.feed(blk, c.clusterOff(cl)) {
					done = true
					break
				}
				if c.stop {
					break
				}
			}
			if !done {
				p.finish(false)
			}
		}
		queue = append(queue, p.children...)
	}
}

func (p *dirParser) orphan(off int64, format string, a ...interface{}) {
	p.c.problem(RuleLFNOrphan, dispPath(p.job.path), nil, "%s (long-name set starting at volume offset %d, directory %q)", fmt.Sprintf(format, a...), off, dispPath(p.job.path))
}

// finish is called at the end of a directory (terminator or end of data).
func (p *dirParser) finish(terminated bool) {
	if p.lfn.active {
		p.orphan(p.lfn.startOff, "long-name entries at end of directory are not followed by a short entry")
		p.lfn = lfnState{}
	}
	if !p.job.isRoot {
		if !p.dot {
			p.c.problem(RuleDirEntry, dispPath(p.job.path), []uint32{p.job.self}, "subdirectory lacks \".\" as its first entry")
		}
		if !p.dotdot {
			p.c.problem(RuleDirEntry, dispPath(p.job.path), []uint32{p.job.self}, "subdirectory lacks \"..\" as its second entry")
		}
	}
}

func lfnChars(e []byte) []uint16 {
	out := make([]uint16, 0, 13)
	for _, o := range [13]int{1, 3, 5, 7, 9, 14, 16, 18, 20, 22, 24, 28, 30} {
		out = append(out, le16(e[o:]))
	}
	return out
}

func shortChecksum(n []byte) byte {
	var s byte
	for i := 0; i < 11; i++ {
		s = ((s & 1) << 7) + (s >> 1) + n[i]
	}
	return s
}

func oemString(b []byte) string {
	var sb strings.Builder
	for _, x := range b {
		sb.WriteRune(rune(x))
	}
	return sb.String()
}

func renderShort(n []byte, nt byte) (stored, display string) {
	base := make([]byte, 8)
	copy(base, n[0:8])
	if base[0] == 0x05 {
		base[0] = 0xE5
	}
	b := strings.TrimRight(oemString(base), " ")
	x := strings.TrimRight(oemString(n[8:11]), " ")
	stored = b
	if x != "" {
		stored = b + "." + x
	}
	db, dx := b, x
	if nt&0x08 != 0 {
		db = strings.ToLower(db)
	}
	if nt&0x10 != 0 {
		dx = strings.ToLower(dx)
	}
	display = db
	if dx != "" {
		display = db + "." + dx
	}
	return
}

func dosTime(date, tm uint16, tenths byte) time.Time {
	if date == 0 {
		return time.Time{}
	}
	y := 1980 + int(date>>9)
	mo := int(date>>5) & 0x0F
	d := int(date) & 0x1F
	h := int(tm >> 11)
	mi := int(tm>>5) & 0x3F
	s := (int(tm) & 0x1F) * 2
	return time.Date(y, time.Month(mo), d, h, mi, s, int(tenths)*10*int(time.Millisecond), time.UTC)
}

var illegalShort = map[byte]bool{0x22: true, 0x2A: true, 0x2B: true, 0x2C: true, 0x2E: true, 0x2F: true, 0x3A: true, 0x3B: true, 0x3C: true, 0x3D: true, 0x3E: true, 0x3F: true, 0x5B: true, 0x5C: true, 0x5D: true, 0x7C: true}

// feed parses one block of 32-byte slots. Returns true when the terminator was found.
func (p *dirParser) feed(blk []byte, base int64) bool {
	c := p.c
	for i := 0; i+32 <= len(blk); i += 32 {
		e := blk[i : i+32]
		off := base + int64(i)
		idx := p.slot
		p.slot++
		c.slots++
		if c.slots > maxSlots {
			if !c.stop {
				c.problem(RuleLimit, dispPath(p.job.path), nil, "more than %d directory slots examined; walk stopped, result incomplete", maxSlots)
			}
			c.stop = true
			return true
		}
		if e[0] == 0x00 {
			p.finish(true)
			return true
		}
		if p.slot > maxDirSlots && !p.warned {
			p.warned = true
			c.problem(RuleDirEntry, dispPath(p.job.path), nil, "directory holds more than %d slots (2 MiB limit of the specification)", maxDirSlots)
		}
		if e[0] == 0xE5 {
			if p.lfn.active {
				p.orphan(p.lfn.startOff, "long-name entries are followed by a deleted entry at volume offset %d", off)
				p.lfn = lfnState{}
			}
			continue
		}
		attr := e[11]
		if attr&0x3F == 0x0F {
			p.feedLFN(e, off)
			continue
		}
		p.feedShort(e, off, idx)
		if c.stop {
			return true
		}
	}
	return false
}

func (p *dirParser) feedLFN(e []byte, off int64) {
	seq := e[0]
	n := int(seq & 0x3F)
	if seq&0x40 != 0 {
		if p.lfn.active {
			p.orphan(p.lfn.startOff, "long-name set incomplete (still expecting sequence %d) when a new set starts at volume offset %d", p.lfn.next, off)
		}
		p.lfn = lfnState{}
		if n == 0 || n > 20 {
			p.orphan(off, "last-entry sequence byte %#02x declares %d entries, want 1..20", seq, n)
			return
		}
		p.lfn = lfnState{active: true, total: n, next: n - 1, sum: e[13], parts: make([][]uint16, n), startOff: off}
		p.lfn.parts[n-1] = lfnChars(e)
		return
	}
	if !p.lfn.active {
		p.orphan(off, "long-name entry with sequence %#02x has no preceding last-entry (0x40) marker", seq)
		return
	}
	if n == 0 || n != p.lfn.next {
		p.orphan(p.lfn.startOff, "wrong sequence order: entry at volume offset %d has sequence %d, want %d", off, n, p.lfn.next)
		p.lfn = lfnState{}
		return
	}
	if e[13] != p.lfn.sum {
		p.orphan(p.lfn.startOff, "checksum %#02x of entry at volume offset %d differs from %#02x in the first entry of the set", e[13], off, p.lfn.sum)
		p.lfn = lfnState{}
		return
	}
	p.lfn.parts[n-1] = lfnChars(e)
	p.lfn.next = n - 1
}

func (p *dirParser) feedShort(e []byte, off int64, idx int) {
	c := p.c
	r := c.r
	attr := e[11]
	dir := dispPath(p.job.path)
	_, rawDisp := renderShort(e[0:11], 0)

	longName := ""
	hasLFN := false
	if p.lfn.active {
		switch {
		case p.lfn.next != 0:
			p.orphan(p.lfn.startOff, "long-name set incomplete (sequence %d..1 missing) before short entry %q at volume offset %d", p.lfn.next, rawDisp, off)
		case p.lfn.sum != shortChecksum(e[0:11]):
			p.orphan(p.lfn.startOff, "checksum %#02x does not match checksum %#02x of the following short entry %q at volume offset %d", p.lfn.sum, shortChecksum(e[0:11]), rawDisp, off)
		default:
			var units []uint16
		outer:
			for _, part := range p.lfn.parts {
				for _, u := range part {
					if u == 0x0000 {
						break outer
					}
					units = append(units, u)
				}
			}
			longName = string(utf16.Decode(units))
			hasLFN = true
		}
		p.lfn = lfnState{}
	}

	if attr&0x08 != 0 {
		if p.job.isRoot && r.RootLabel == "" {
			b := make([]byte, 11)
			copy(b, e[0:11])
			if b[0] == 0x05 {
				b[0] = 0xE5
			}
			r.RootLabel = strings.TrimRight(oemString(b), " ")
		}
		return
	}

	first := uint32(le16(e[26:]))
	hi := uint32(le16(e[20:]))
	if c.kind == 32 {
		first |= hi << 16
	}

	name11 := string(e[0:11])
	if name11 == ".          " || name11 == "..         " {
		isDot := name11 == ".          "
		switch {
		case p.job.isRoot:
			c.problem(RuleDirEntry, dir, nil, "root directory contains a %q entry at slot %d", strings.TrimRight(name11, " "), idx)
		case isDot && idx == 0:
			p.dot = true
			if first != p.job.self {
				c.problem(RuleDirEntry, dir, []uint32{first, p.job.self}, "\".\" points to cluster %d, want the directory's own first cluster %d", first, p.job.self)
			}
			if attr&0x10 == 0 {
				c.problem(RuleDirEntry, dir, nil, "\".\" entry lacks the directory attribute (attr %#02x)", attr)
			}
		case !isDot && idx == 1:
			p.dotdot = true
			if first != p.job.parent {
				c.problem(RuleDirEntry, dir, []uint32{first, p.job.parent}, "\"..\" points to cluster %d, want parent first cluster %d (0 when the parent is the root)", first, p.job.parent)
			}
			if attr&0x10 == 0 {
				c.problem(RuleDirEntry, dir, nil, "\"..\" entry lacks the directory attribute (attr %#02x)", attr)
			}
		default:
			c.problem(RuleDirEntry, dir, nil, "%q entry found at slot %d instead of slot %d", strings.TrimRight(name11, " "), idx, map[bool]int{true: 0, false: 1}[isDot])
		}
		return
	}

	stored, disp := renderShort(e[0:11], e[12])
	name := disp
	if hasLFN {
		name = longName
	}
	path := name
	if p.job.path != "" {
		path = p.job.path + "/" + name
	}

	// name byte legality
	for i := 0; i < 11; i++ {
		b := e[i]
		switch {
		case b < 0x20 && !(i == 0 && b == 0x05):
			c.problem(RuleDirEntry, path, nil, "short name byte %d is control character %#02x (name bytes % x)", i, b, e[0:11])
		case illegalShort[b]:
			c.problem(RuleDirEntry, path, nil, "short name byte %d is %#02x (%q), forbidden in short names by the specification (name bytes % x)", i, b, string(rune(b)), e[0:11])
		case b >= 'a' && b <= 'z':
			c.problem(RuleDirEntry, path, nil, "short name byte %d is lower-case letter %q, not allowed in stored short names (name bytes % x)", i, string(rune(b)), e[0:11])
		default:
			continue
		}
		break
	}
	if e[0] == 0x20 {
		c.problem(RuleDirEntry, path, nil, "short name starts with a space (name bytes % x)", e[0:11])
	}
	if c.kind != 32 && hi != 0 {
		c.problem(RuleDirEntry, path, nil, "first-cluster high word is %#04x on a %s volume, must be 0", hi, r.Type)
	}

	// duplicates
	var key [11]byte
	copy(key[:], e[0:11])
	if other, ok := p.shorts[key]; ok {
		c.problem(RuleDuplicate, path, nil, "short name %q already used by %q in directory %q", stored, other, dir)
	} else {
		p.shorts[key] = path
	}
	foldShort := strings.ToLower(stored)
	if hasLFN {
		fl := strings.ToLower(longName)
		if other, ok := p.longs[fl]; ok {
			c.problem(RuleDuplicate, path, nil, "long name %q equals (case-insensitively) the long name of %q in directory %q", longName, other, dir)
		} else {
			p.longs[fl] = path
			if other, ok := p.allNames[fl]; ok && fl != foldShort {
				c.problem(RuleDuplicate, path, nil, "long name %q equals the short name of another entry %q in directory %q", longName, other, dir)
			}
		}
	} else if other, ok := p.longs[foldShort]; ok {
		c.problem(RuleDuplicate, path, nil, "short name %q equals the long name of another entry %q in directory %q", stored, other, dir)
	}
	if _, ok := p.allNames[foldShort]; !ok {
		p.allNames[foldShort] = path
	}

	ent := Entry{
		Path: path, Name: name, ShortName: stored, HasLFN: hasLFN,
		IsDir: attr&0x10 != 0, Attr: attr, Size: le32(e[28:]), FirstCluster: first,
		DirOffset: off, NTRes: e[12], CreateTenth: e[13],
	}
	ent.RawDate = [3]uint16{le16(e[16:]), le16(e[24:]), le16(e[18:])}
	ent.RawTime = [2]uint16{le16(e[14:]), le16(e[22:])}
	ent.CreateTime = dosTime(ent.RawDate[0], ent.RawTime[0], e[13])
	ent.ModTime = dosTime(ent.RawDate[1], ent.RawTime[1], 0)
	ent.AccessDate = dosTime(ent.RawDate[2], 0, 0)

	if len(r.Entries) >= maxEntries {
		if !c.stop {
			c.problem(RuleLimit, dir, nil, "more than %d live entries; walk stopped, result incomplete", maxEntries)
		}
		c.stop = true
		return
	}

	id := int32(len(c.owners))
	c.owners = append(c.owners, path)

	if ent.IsDir {
		if ent.Size != 0 {
			c.problem(RuleDirSize, path, nil, "directory entry has size %d, must be 0", ent.Size)
		}
		switch {
		case first == 0:
			c.problem(RuleDirEntry, path, nil, "directory first cluster is 0")
		case first < 2 || first > c.maxC:
			c.problem(RuleDirEntry, path, []uint32{first}, "directory first cluster %d outside [2,%d]", first, c.maxC)
		default:
			ent.Chain = c.followChain(first, id, path)
			if len(ent.Chain) > 0 && c.owner[ent.Chain[0]] == id {
				if p.job.depth+1 > maxDepth {
					c.problem(RuleLimit, path, nil, "directory nesting deeper than %d; not descended, result incomplete", maxDepth)
				} else {
					par := p.job.self
					if p.job.isRoot {
						par = 0
					}
					p.children = append(p.children, dirJob{path: path, self: first, parent: par, depth: p.job.depth + 1, chain: ent.Chain})
				}
			}
		}
	} else {
		cs := uint64(r.ClusterSize)
		if first != 0 {
			ent.Chain = c.followChain(first, id, path)
		}
		n := uint64(len(ent.Chain))
		size := uint64(ent.Size)
		if n*cs < size {
			c.problem(RuleChainShort, path, ent.Chain, "size %d needs %d cluster(s) of %d bytes, chain has %d (first cluster %d)", size, (size+cs-1)/cs, cs, n, first)
		}
		if size == 0 {
			if first != 0 {
				c.problem(RuleChainLong, path, ent.Chain, "size is 0 but first cluster is %d (chain of %d cluster(s)); a zero-length file must have first cluster 0", first, n)
			}
		} else if want := (size + cs - 1) / cs; n > want {
			c.problem(RuleChainLong, path, ent.Chain, "size %d needs %d cluster(s) of %d bytes, chain has %d", size, want, cs, n)
		}
	}
	r.Entries = append(r.Entries, ent)
}
