#!/bin/bash
# tools/seedpass.sh [tier]   run every seeded change against the check of its property with the sanctioned
# procedure (git -C /repo apply; run; git -C /repo checkout -- .) and write seeded/RESULTS.txt.
# The pinned baseline (252/252 on the patched tree) was verified when each change was taken in; set
# SEED_BASELINE=1 to repeat it here.
cd /verif
TIER="${1:-quick}"
OUT=seeded/RESULTS.txt
{
echo "# seeded change -> check ($TIER tier), in-place procedure, $(git -C /repo log --oneline | head -1 | cut -c1-60)"
for d in seeded/C*-*/; do
  id=$(basename $d); prop=${id%%-*}
  extra=""
  [ "$id" = C01-a ] && extra="C03"
  [ "$id" = C14-c ] && extra="C01"
  nb=1; [ "${SEED_BASELINE:-0}" = 1 ] && nb=0
  SEED_INPLACE=1 SEED_NOBASELINE=$nb tools/seedtest.sh $d $TIER $prop $extra 2>&1 | grep -E '^==|key=|baseline' | cut -c1-220
  python3 -c 'import json,sys; m=json.load(open(sys.argv[1])); print("   note: neutralised - "+m["neutralised"]) if "neutralised" in m else None' $d/meta.json
done
} > $OUT.tmp 2>&1
mv $OUT.tmp $OUT
grep -c 'exit=1' $OUT; grep 'exit=[02]' $OUT
