#!/usr/bin/env python3-vt
# validates MANIFEST.json and every evidence file against the schemas
import json, sys, glob, jsonschema
ok = True
def v(path, schema):
    global ok
    try:
        jsonschema.validate(json.load(open(path)), json.load(open(schema)))
        print("ok  ", path)
    except Exception as e:
        ok = False
        print("FAIL", path, str(e).splitlines()[0])
v('/verif/MANIFEST.json', '/root/.vp/MANIFEST.schema.json')
for f in sorted(glob.glob('/verif/evidence/C*.json')):
    v(f, '/root/.vp/EVIDENCE.schema.json')
sys.exit(0 if ok else 1)
