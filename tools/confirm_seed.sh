#!/bin/bash
# tools/confirm_seed.sh <seeded-dir>
# Confirms a seeded change independently of the agent that produced it: in a fresh scratch worktree
# of /repo (removed afterwards) the demonstration must PASS without the patch and FAIL with it, and
# the patched tree must build.  (tools/seedtest.sh checks the pinned baseline on the patched tree.)
set -u
sd=$(readlink -f "$1"); id=$(basename "$sd")
export GOFLAGS=-mod=mod GOPROXY=off
wt=/tmp/confirm-$id
git -C /repo worktree remove --force "$wt" >/dev/null 2>&1
git -C /repo worktree add --detach "$wt" HEAD >/dev/null 2>&1 || { echo "cannot create worktree"; exit 2; }
trap 'git -C /repo worktree remove --force "$wt" >/dev/null 2>&1; rm -rf "$wt"' EXIT
mkdir -p "$wt/_seeded"; cp -r "$sd"/* "$wt/_seeded/"
cmd=$(python3 -c 'import json,sys,re; m=json.load(open(sys.argv[1])); c=m["demo_cmd"]; print(re.sub(r"/tmp/mut[0-9]?-C\d+", sys.argv[2], c))' "$sd/meta.json" "$wt")
run() { (cd "$wt" && bash -c "$cmd") > "$wt/_out.$1" 2>&1; 
  if grep -qE '^(--- FAIL|FAIL)' "$wt/_out.$1"; then echo fail; elif grep -qE '^(ok|PASS)' "$wt/_out.$1"; then echo pass; else echo unknown; fi; }
without=$(run without)
(cd "$wt" && git apply _seeded/patch.diff) || { echo "patch does not apply to /repo HEAD"; exit 2; }
(cd "$wt" && go build ./... ) || { echo "patched tree does not build"; exit 2; }
with=$(run with)
echo "$id: demo without patch: $without; with patch: $with"
grep -E '^(--- FAIL|    |FAIL|ok)' "$wt/_out.with" | head -8
[ "$without" = pass ] && [ "$with" = fail ]
