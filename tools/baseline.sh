#!/bin/bash
# Runs the repository's pinned test suite with the verif guard OFF and compares with BASELINE.json.
export GOFLAGS=-mod=mod GOPROXY=off
unset GOSUMDB GOTOOLCHAIN 2>/dev/null
REPO="${VERIF_REPO:-/repo}"
OUT=$(mktemp)
(cd "$REPO" && go test -json -vet=off -count=1 -timeout 25m ./... > "$OUT" 2>/dev/null)
python3 - "$OUT" <<'PY'
import json,sys
base=json.load(open('/root/.vp/BASELINE.json'))
want=set(base['stable_pass'])
passed=set()
for l in open(sys.argv[1]):
    try: e=json.loads(l)
    except: continue
    if e.get('Action')=='pass' and e.get('Test'):
        passed.add(e['Package']+'::'+e['Test'])
missing=sorted(want-passed)
print(f"baseline: {len(want&passed)}/{len(want)} pinned tests pass with the guard off")
for m in missing[:20]: print("  MISSING:",m)
sys.exit(1 if missing else 0)
PY
rc=$?
rm -f "$OUT"
exit $rc
