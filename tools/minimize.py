#!/usr/bin/env python3
# ddmin over params.ops of a replay file: keeps the finding key reproducing.  usage: minimize.py <ID> <replay.json> [out.json]
import json, subprocess, sys, os, tempfile, re
pid, path = sys.argv[1], sys.argv[2]
out = sys.argv[3] if len(sys.argv) > 3 else path.replace('.json', '.min.json')
d = json.load(open(path))
key = d['finding']['key']
ops = d['case']['params']['ops']
def test(sub):
    dd = json.loads(json.dumps(d))
    dd['case']['params']['ops'] = sub
    dd['case']['id'] = 'min'
    tf = tempfile.NamedTemporaryFile('w', suffix='.json', delete=False); json.dump(dd, tf); tf.close()
    try:
        r = subprocess.run(['/verif/bin/vcheck', 'replay', pid, tf.name], capture_output=True, text=True, timeout=300, env=dict(os.environ, VERIF_DIR='/tmp/minimize-scratch'))
    except subprocess.TimeoutExpired:
        os.unlink(tf.name); return False
    os.unlink(tf.name)
    return ('key=' + key) in r.stdout
os.makedirs('/tmp/minimize-scratch/evidence', exist_ok=True)
open('/tmp/minimize-scratch/known_findings.json', 'w').write('[]')
assert test(ops), "does not reproduce"
n = 2
while len(ops) >= 2:
    chunk = max(1, len(ops) // n)
    reduced = False
    for i in range(0, len(ops), chunk):
        sub = ops[:i] + ops[i + chunk:]
        if sub and test(sub):
            ops = sub; n = max(n - 1, 2); reduced = True; break
    if not reduced:
        if chunk == 1: break
        n = min(n * 2, len(ops))
d['case']['params']['ops'] = ops
json.dump(d, open(out, 'w'), indent=1, ensure_ascii=False)
print(key)
for o in ops: print('  ', {k: v for k, v in o.items() if k not in ('ds', 't') and v not in (0, '', None)})
