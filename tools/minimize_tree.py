#!/usr/bin/env python3
# ddmin over params.tree of a replay file (C06/C07): keeps the finding key reproducing.
import json, subprocess, sys, os, tempfile
pid, path = sys.argv[1], sys.argv[2]
d = json.load(open(path)); key = d['finding']['key']
tree = d['case']['params']['tree']
def closed(sub):
    paths = {n['path'] for n in sub}
    return all(('/' not in n['path']) or (n['path'].rsplit('/',1)[0] in paths) for n in sub)
def test(sub):
    if not closed(sub): return False
    dd = json.loads(json.dumps(d)); dd['case']['params']['tree'] = sub; dd['case']['id']='min'
    tf = tempfile.NamedTemporaryFile('w', suffix='.json', delete=False); json.dump(dd, tf); tf.close()
    r = subprocess.run(['/verif/bin/vcheck', 'replay', pid, tf.name], capture_output=True, text=True, timeout=300, env=dict(os.environ, VERIF_DIR='/tmp/minimize-scratch'))
    os.unlink(tf.name)
    return ('key=' + key) in r.stdout
os.makedirs('/tmp/minimize-scratch/evidence', exist_ok=True); open('/tmp/minimize-scratch/known_findings.json','w').write('[]')
assert test(tree), "does not reproduce"
changed=True
while changed:
    changed=False
    for i in range(len(tree)-1,-1,-1):
        sub=tree[:i]+tree[i+1:]
        if sub and test(sub):
            tree=sub; changed=True
d['case']['params']['tree']=tree
json.dump(d, open(sys.argv[3] if len(sys.argv)>3 else path.replace('.json','.min.json'),'w'), indent=1, ensure_ascii=False)
print(key); print(d['case']['params']['opts'])
for n in tree: print('  ', n)
