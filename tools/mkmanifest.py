#!/usr/bin/env python3
# Regenerates MANIFEST.json from the table below (one entry per claimed property).
import json, subprocess
C = {}
def chk(pid, level, tech, text, note, ref=None):
    C[pid] = {"property_id": pid, "quick_cmd": f"./vrun {pid} quick", "thorough_cmd": f"./vrun {pid} thorough",
              "evidence_file": f"evidence/{pid}.json", "replay_cmd_template": f"./vrun {pid} --replay {{path}}",
              "engine": "vcheck", "level_claimed": {"category": level, "text": text, "design_ref": ref or f"DESIGN.md §4 {pid}"},
              "level_note": note, "technique": tech}

chk("C02", "exploration", "runtime monitoring: API round-trip oracle + independent on-disk parser over generated tables",
    "Seeded random tables are written by the real Table.Write/Disk.Partition onto an instrumented sparse store, read back through gpt.Read, mbr.Read, partition.Read and Disk.GetPartitionTable/GetPartition and compared field by field with the specification that generated them; the raw bytes are parsed by an independent GPT/MBR reader (CRCs of both copies, mirror rules, protective MBR). Holds on the tables explored, not on all tables.",
    "Trusts the instrumented store to behave like a block device and the independent parser ptck. GPT names restricted to <=36 UTF-16 units as the property states.")
chk("C09", "fault_enumeration", "runtime monitoring: recorded write/sync journal, offline crash-state enumeration checked with the real readers",
    "The WriteAt/Sync journal of the real Table.Write is recorded at the storage boundary; a trace oracle checks sync placement and backup-before-primary ordering; every journal prefix x sector-subset family of the in-flight write (exhaustive up to 12 sectors) at 512-byte and logical-sector granularity is rebuilt and read with gpt.Read and partition.Read, which must return exactly the old or the new table. Enumerates the stated fault family for the generated table pairs.",
    "Assumes 512-byte atomic sector writes and that Sync is a durability barrier; writes not separated by a Sync may persist in any subset. On a blank disk the protective-MBR-only reading by partition.Read counts as 'old'.")
chk("C13", "exploration", "runtime monitoring: range-guarded PRF-filled sparse store + content oracle on streamed partition data",
    "Real WritePartitionContents/ReadPartitionContents/CopyPartitionRaw run on a 1 TiB sparse store whose bytes are a PRF of their offset; every WriteAt is range-checked against the partition, delivered bytes are compared with the device bytes of the partition, and success/failure is compared with the reader length class. Geometries include starts beyond 4 GiB, sizes beyond 2^32 bytes, physical != logical sectors.",
    "CopyPartitionRaw is driven only with target >= source (otherwise the call is outside the statement). Full 4 GiB streams are driven for one partition per table kind.")
chk("C15", "fault_enumeration", "runtime monitoring: enumerated field corruptions read in worker children with allocation/read-volume monitors and an independent CRC validator",
    "Every GPT header/entry field x boundary values x {primary, backup} x {stale CRC, recomputed CRCs}, all pairs of the size-determining fields, truncated devices, every MBR byte, and seeded random images are read by gpt.Read, mbr.Read and partition.Read inside worker children; panics, fatal deaths (attributed via the case journal), CPU budget, TotalAlloc and read volume are monitored; any returned table is validated against an independent parser's view of the copy it came from.",
    "Allocation measured by runtime.MemStats.TotalAlloc deltas with bound 4*device+1MiB; worker address space capped at 24 GiB; quick tier samples a tenth of the field pairs (thorough enumerates all).")

props = [json.loads(l)['id'] for l in open('/verif/properties.jsonl')]
pending_reason = "check not built yet (work in progress in the order of DESIGN.md §9); runtime monitoring applies to this property"
hooks_commits = []
m = {"version": 1, "setup_cmd": "./vrun --setup",
     "hooks": {"guard": "verif", "enable": "go build -tags verif ./cmd/vcheck (module verif, replace github.com/diskfs/go-diskfs => /repo)",
               "baseline_off_cmd": "/verif/tools/baseline.sh", "source_commits": hooks_commits, "add_only": True},
     "engines": [{"name": "vcheck", "path": "cmd/vcheck", "serves_properties": sorted(C),
                  "kind_free_text": "Go harness: seeded workloads run against /repo in worker child processes with a case journal; monitors = instrumented backing store (monstore), reference models, independent parsers, e2fsprogs, race detector"}],
     "checks": [C[k] for k in sorted(C)],
     "notes": "Every check rebuilds bin/vcheck from /repo's working tree (go build with a replace directive). Findings protocol: known_findings.json (open entries print KNOWN-FINDING, fixed entries suppress nothing).",
     "not_applicable": [{"property_id": p, "reason": pending_reason} for p in props if p not in C]}
json.dump(m, open('/verif/MANIFEST.json', 'w'), indent=1)
print("claimed:", sorted(C))
