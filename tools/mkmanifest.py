#!/usr/bin/env python3
# Regenerates MANIFEST.json from the table below (one entry per claimed property).
import json, subprocess
C = {}
def chk(pid, level, tech, text, note, ref=None):
    C[pid] = {"property_id": pid, "quick_cmd": f"./vrun {pid} quick", "thorough_cmd": f"./vrun {pid} thorough",
              "evidence_file": f"evidence/{pid}.json", "replay_cmd_template": f"./vrun {pid} --replay {{path}}",
              "engine": "vcheck", "level_claimed": {"category": level, "text": text, "design_ref": ref or f"DESIGN.md §4 {pid}"},
              "level_note": note, "technique": tech}

chk("C02", "exploration", "runtime monitoring: API round-trip oracle + independent on-disk parser over generated tables",
    "Seeded random tables are written by the real Table.Write/Disk.Partition onto an instrumented sparse store, read back through gpt.Read, mbr.Read, partition.Read and Disk.GetPartitionTable/GetPartition and compared field by field with the specification that generated them; the raw bytes are parsed by an independent GPT/MBR reader (CRCs of both copies, mirror rules, protective MBR). Holds on the tables explored, not on all tables.",
    "Trusts the instrumented store to behave like a block device and the independent parser ptck. GPT names restricted to <=36 UTF-16 units as the property states.")
chk("C09", "fault_enumeration", "runtime monitoring: recorded write/sync journal, offline crash-state enumeration checked with the real readers",
    "The WriteAt/Sync journal of the real Table.Write is recorded at the storage boundary; a trace oracle checks sync placement and backup-before-primary ordering; every journal prefix x sector-subset family of the in-flight write (exhaustive up to 12 sectors) at 512-byte and logical-sector granularity is rebuilt and read with gpt.Read and partition.Read, which must return exactly the old or the new table. Enumerates the stated fault family for the generated table pairs.",
    "Assumes 512-byte atomic sector writes and that Sync is a durability barrier; writes not separated by a Sync may persist in any subset. On a blank disk the protective-MBR-only reading by partition.Read counts as 'old'.")
chk("C13", "exploration", "runtime monitoring: range-guarded PRF-filled sparse store + content oracle on streamed partition data",
    "Real WritePartitionContents/ReadPartitionContents/CopyPartitionRaw run on a 1 TiB sparse store whose bytes are a PRF of their offset; every WriteAt is range-checked against the partition, delivered bytes are compared with the device bytes of the partition, and success/failure is compared with the reader length class. Geometries include starts beyond 4 GiB, sizes beyond 2^32 bytes, physical != logical sectors.",
    "CopyPartitionRaw is driven only with target >= source (otherwise the call is outside the statement). Full 4 GiB streams are driven for one partition per table kind.")
chk("C15", "fault_enumeration", "runtime monitoring: enumerated field corruptions read in worker children with allocation/read-volume monitors and an independent CRC validator",
    "Every GPT header/entry field x boundary values x {primary, backup} x {stale CRC, recomputed CRCs}, all pairs of the size-determining fields, truncated devices, every MBR byte, and seeded random images are read by gpt.Read, mbr.Read and partition.Read inside worker children; panics, fatal deaths (attributed via the case journal), CPU budget, TotalAlloc and read volume are monitored; any returned table is validated against an independent parser's view of the copy it came from.",
    "Allocation measured by runtime.MemStats.TotalAlloc deltas with bound 4*device+1MiB; worker address space capped at 24 GiB; quick tier samples a tenth of the field pairs (thorough enumerates all).")

chk("C01", "exploration", "runtime monitoring: outcome-driven reference-tree oracle over generated operation histories (live, same handle, re-opened image)",
    "Operation histories (seeded random, fill/release/refill to ENOSPC, root-directory exhaustion, all histories of length <=3/4 over a 12-call alphabet) run through the real FAT12/16/32 API on an instrumented sparse store; after every call all listings and file contents are compared with an in-memory tree that applied the accepted calls, live, through the writing handle and through a fresh fatNN.Read of the bytes; a refused call must leave every other path unchanged; bytes accepted per refill cycle must not shrink.",
    "Names come from the property's legal-name domain; a file with an open handle is only modified through that handle (two independent writers on one file are not driven); listing order, timestamps and short-name spellings are not compared.")
chk("C03", "exploration", "runtime monitoring: online range guard on every WriteAt of an instrumented PRF-filled store + guard-byte re-verification",
    "Every WriteAt reaching the backing store is range-checked while FAT/ext4 volumes are created, modified and filled to no-space, iso9660/squashfs images are finalized (trees smaller and larger than the range) and GPT/MBR tables are written, at start offsets up to beyond 4 GiB; guard bytes are a non-zero PRF of the offset and are re-verified afterwards.",
    "A write outside the range counts only if it changes a byte (identical rewrites are counted as benign). Partition-content streaming is covered by C13.")
chk("C04", "exploration", "runtime monitoring: outcome-driven reference-tree oracle over generated operation histories on ext4 (live and re-opened), bounded read loops",
    "Seeded histories (mkdir, create, writes that extend/overlap/leave gaps, multi-step appends, symlinks 1..4095 bytes, remove, chmod/chown/chtimes, invalid calls, open handles, fill/remove/refill) run through the real ext4 API for 1/2/4 KiB blocks, with/without journal and metadata checksums, single/multi group and non-zero start; all listings, contents, link targets and changed attributes are compared with a reference tree live and after ext4.Read of the bytes.",
    "Rename and the truncating open are outside the statement for ext4; configurations Create refuses are counted, not judged.")
chk("C05", "exploration", "runtime monitoring with an independent implementation as oracle: e2fsck -f -n after Create and after every call, debugfs extraction compared with the written bytes",
    "ext4.Create over a grid of accepted parameter sets and C04 histories on real sparse image files; the reference checker e2fsck must exit 0 right after Create and after every call (accepted or refused), and debugfs must extract exactly the bytes written.",
    "Trusts e2fsprogs 1.47.0. Configuration-level defects of Create are keyed by the e2fsck complaint class and the feature/parameter predicate and listed as known findings; histories are driven on the configurations that are clean after Create.")
chk("C08", "exploration", "runtime monitoring: independent on-disk structure checker (fatck) run on the raw bytes after Create and after every call",
    "The C01 history generators (incl. remove, rename-over, truncate, directory growth, refused calls, fill/refill) run on FAT12/16/32 volumes across the cluster-size table boundaries up to 33 GiB sparse and with 4096-byte sectors; after Create and after every call the raw volume bytes are parsed by an independent checker: boot sector vs range, FAT32 backup boot sector and FSInfo, identical FAT copies, chains in range/terminated/acyclic/long enough, no cross-links, no lost clusters.",
    "Trusts fatck (written from the Microsoft specification, calibrated on hand-made volumes). Rules outside the statement (chains longer than needed, '..' cluster value, LFN order) are recorded, never reported.")
chk("C10", "exploration", "runtime monitoring: shadow-cursor oracle (bytes.Reader semantics) over seeded Read/Seek/Close sequences on handles of every filesystem",
    "Images of known files with sizes around the unit boundaries are built by the library for fat12/16/32, ext4, iso9660 (plain/Rock Ridge/Joliet) and squashfs (fragments/no fragments/gzip); seeded sequences of Read (sizes 0..1 MiB) and Seek (all whences, negative and past-EOF targets) then Close/Read/Seek are checked call by call against a shadow cursor over the known bytes.",
    "Short reads are accepted if they make progress; both EOF conventions of io.Reader are accepted.")

chk("C11", "exploration", "runtime monitoring: write sentinel / write log on the instrumented store and image hash around seeded interleavings of mutating and reading calls",
    "Prebuilt images of every filesystem and table type are opened read-only through file.New(readOnly), a backend whose Writable() fails, diskfs.Open(ReadOnly) and OpenFromPath(readOnly), and through a writable backend for the reading-calls clause and for finalized ISO/squashfs images; every mutating entry point must return an error and cause no write event, reading entry points must cause no write event, and the image hash must be unchanged.",
    "For the two real-path routes the evidence is the file hash before/after (no per-call write log). On a writable disk, disk-level mutators (Partition, CreateFilesystem) are legitimate and are only required to fail on read-only routes.")
chk("C12", "exploration", "runtime monitoring: create-then-reopen recognition oracle over a configuration grid incl. stale bytes of every other filesystem type",
    "disk.CreateFilesystem for every type on whole disk / GPT partition / MBR partition across sizes and labels, then a freshly opened disk on the same bytes must report the table type, the filesystem type, the label and the content; every ordered pair (previous type -> new type) shares a range without wiping; blank ranges must give the unknown-filesystem error.",
    "Refusals by CreateFilesystem are observations. Type pairs that cannot share a disk (sector size constraints) are not driven.")
chk("C14", "exploration", "runtime monitoring: differential execution in two separate processes 2.2 s apart (and at different start offsets) + wall-clock leak amplifier over decoded timestamps",
    "The same seeded FAT history is run with the reproducible option and a fixed SOURCE_DATE_EPOCH in two worker processes started 2.2 s apart, in half of the pairs at different start offsets; the volume byte ranges must hash equal and no timestamp decoded from the image by the independent reader may lie near the wall clock. The same GPT/MBR table written twice gives identical bytes; Read followed by Write changes nothing.",
    "The system clock cannot be changed in the sandbox: 'regardless of wall-clock time' is decided for the separation produced plus the leak amplifier.")

chk("C06", "exploration", "runtime monitoring: content-identity tree oracle through the library's reader and through an independent ISO9660 reader (isock)",
    "Generated workspace trees under {plain, Rock Ridge, Joliet, both} x block sizes 2048/4096/8192 x DeepDirectories x start 0/1 MiB are finalized by the real code; every file has unique content, so the image is matched to the source by content through iso9660.Read (structure, bytes, exact names under RR/Joliet, membership in the documented 8.3 rule otherwise) and through an independent reader walking the primary volume descriptor (same files, extents inside the image, no overlaps).",
    "Trusts isock (written from ECMA-119/SUSP/RRIP, calibrated on hand-made images); isock rules outside the statement are recorded only. Finalize refusals are observations. Four structural defects of the Joliet/Rock Ridge code are listed as open known findings with cause predicates.")
chk("C07", "exploration", "runtime monitoring: content-identity tree oracle + differential over compressor/fragment/block-size/cache configurations + independent superblock reader vs the store's write log",
    "Generated workspace trees are finalized under a matrix of compressors, fragment and block-size options and NoCompress*/NoPad flags, at start 0 or 1 MiB, by a process whose cwd is not the workspace; each image is re-opened and walked with several cache sizes and must equal the source and be identical across configurations; an independent superblock reader checks bytes_used against the highest byte written, table pointers, inode count and block size.",
    "A Finalize refusal for a tree of directories, files and symlinks is a violation. The NoFragments flag not being honoured by the writer is recorded, not reported (the statement speaks of size fields and content).")
chk("C16", "exploration", "runtime monitoring: independent tree diff by the harness vs CopyFileSystem/CompareFS results over filesystem pairings and enumerated single-point mutations",
    "CopyFileSystem over 5 source kinds x 4 destination kinds with generated trees; the re-opened destination is diffed by the harness against the source by content and exact name; CompareFS must accept faithful copies in both orders, reject a real byte flip, and on in-memory trees return nil exactly when the trees are equal over every single-point mutation in both orders.",
    "Trees restricted to what every destination can represent (no symlinks, FAT-legal names); the >64 MiB streaming path is driven in the thorough tier only.")
chk("C17", "exploration", "runtime monitoring: Go race detector + content oracle per read + bounded-progress watchdog + LRU structural invariant hook, under injected yields at hook points",
    "2..32 goroutines with own handles read one squashfs image sequentially and at random offsets under -race for cache sizes {default,0,1,3 blocks}, GOMAXPROCS 1..16, concurrent SetCacheSize, seeded yields/sleeps at the store's ReadAt and at hook points between the cache's critical sections, and a slow-fetch mode; every byte is compared with the known content, completed reads must keep advancing, the cache's list/map invariant is checked after every batch, and race reports are collected.",
    "'Always finish for every interleaving' is restated as bounded progress on the schedules produced; distinct interleavings are measured by hashing the first 64 hook events of each batch.")

props = [json.loads(l)['id'] for l in open('/verif/properties.jsonl')]
pending_reason = "check not built yet (work in progress in the order of DESIGN.md §9); runtime monitoring applies to this property"
hooks_commits = ['c7d9328']
m = {"version": 1, "setup_cmd": "./vrun --setup",
     "hooks": {"guard": "verif", "enable": "go build -tags verif ./cmd/vcheck (module verif, replace github.com/diskfs/go-diskfs => /repo)",
               "baseline_off_cmd": "/verif/tools/baseline.sh", "source_commits": hooks_commits, "add_only": True},
     "engines": [{"name": "vcheck", "path": "cmd/vcheck", "serves_properties": sorted(C),
                  "kind_free_text": "Go harness: seeded workloads run against /repo in worker child processes with a case journal; monitors = instrumented backing store (monstore), reference models, independent parsers, e2fsprogs, race detector"}],
     "checks": [C[k] for k in sorted(C)],
     "notes": "Every check rebuilds bin/vcheck from /repo's working tree (go build with a replace directive). Findings protocol: known_findings.json (open entries print KNOWN-FINDING, fixed entries suppress nothing).",
     "not_applicable": [{"property_id": p, "reason": pending_reason} for p in props if p not in C]}
json.dump(m, open('/verif/MANIFEST.json', 'w'), indent=1)
print("claimed:", sorted(C))
