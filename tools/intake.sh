#!/bin/bash
# tools/intake.sh <Cxx> <letter> [check ids...]   takes a seeded change delivered by an agent in
# /tmp/mut6-<Cxx>/_seeded into seeded/<Cxx>-<letter>, confirms it in a fresh worktree
# (tools/confirm_seed.sh) and runs the pinned baseline and the quick checks against it in a private
# worktree (tools/seedtest.sh).  Log: /tmp/r6/intake-<Cxx>.log
set -u
P=$1; L=$2; shift 2; IDS="${*:-$P}"
src=/tmp/mut6-$P/_seeded; dst=/verif/seeded/$P-$L
[ -f $src/patch.diff ] && [ -f $src/meta.json ] || { echo "$P: nothing delivered"; exit 2; }
mkdir -p $dst && cp -r $src/* $dst/
{
  /verif/tools/confirm_seed.sh $dst; echo "confirm exit=$?"
  /verif/tools/seedtest.sh $dst quick $IDS
} > /tmp/r6/intake-$P.log 2>&1
tail -25 /tmp/r6/intake-$P.log
