#!/bin/bash
# tools/seedtest.sh <seeded-dir> <tier> <check id>...   run checks against a seeded change.
#
# Default (development) mode: the patch is applied to a private scratch worktree of /repo under /tmp and
# vcheck is built against that worktree through a scratch -modfile, so /repo is never touched and
# several seeded changes can be tested while checks are being developed.
# SEED_INPLACE=1: the sanctioned procedure - git -C /repo apply, run, git -C /repo checkout -- .
# Evidence of these runs goes to a scratch directory, never to /verif/evidence.
set -u
DIR=$(readlink -f "$1"); TIER="$2"; shift 2
NAME=$(basename "$DIR")
export GOFLAGS=-mod=mod GOPROXY=off
unset GOSUMDB GOTOOLCHAIN 2>/dev/null
export PATH="$PATH:/usr/sbin:/sbin"
S=/tmp/seed-scratch-$NAME
rm -rf $S; mkdir -p $S/bin $S/evidence
cp /verif/known_findings.json $S/
cd /verif
if [ "${SEED_INPLACE:-0}" = 1 ]; then
  if [ -n "$(git -C /repo status --porcelain)" ]; then echo "/repo is not clean"; exit 3; fi
  git -C /repo apply "$DIR/patch.diff" || { echo "patch does not apply"; exit 3; }
  trap 'git -C /repo checkout -- . ; rm -rf $S/bin' EXIT
  REPO=/repo
  MODFLAG=""
else
  REPO=/tmp/seed-wt-$NAME
  git -C /repo worktree remove --force $REPO >/dev/null 2>&1; rm -rf $REPO
  git -C /repo worktree add --detach $REPO HEAD >/dev/null 2>&1 || { echo "cannot create worktree"; exit 3; }
  trap 'git -C /repo worktree remove --force $REPO >/dev/null 2>&1; rm -rf $REPO $S/bin $S/go.mod $S/go.sum' EXIT
  git -C $REPO apply "$DIR/patch.diff" || { echo "patch does not apply"; exit 3; }
  sed "s|=> /repo|=> $REPO|" go.mod > $S/go.mod; cp go.sum $S/go.sum
  MODFLAG="-modfile=$S/go.mod"
fi
[ "${SEED_NOBASELINE:-0}" = 1 ] || VERIF_REPO=$REPO /verif/tools/baseline.sh | tail -1
go build $MODFLAG -tags verif -o $S/bin/vcheck ./cmd/vcheck || { echo BUILD FAILED; exit 3; }
for ID in "$@"; do
  if [ "$ID" = C17 ]; then go build $MODFLAG -race -tags verif -o $S/bin/vcheck-race ./cmd/vcheck; fi
  VERIF_DIR=$S VERIF_TIER=$TIER $S/bin/vcheck check $ID $TIER > $S/$ID.out 2>&1
  rc=$?
  echo "== $NAME: $ID $TIER exit=$rc  $(grep -c '^VIOLATION' $S/$ID.out) violation(s)  $(grep -o 'wall=[0-9.]*s' $S/$ID.out | head -1)"
  grep -A3 '^VIOLATION' $S/$ID.out | grep -v '^--' | cut -c1-260 | head -12
done
