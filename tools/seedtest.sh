#!/bin/bash
# tools/seedtest.sh <seeded-dir> <tier> <check id>...   apply a seeded change to /repo, run checks, undo.
# Evidence of these runs goes to a scratch directory, never to /verif/evidence.
set -u
DIR="$1"; TIER="$2"; shift 2
export GOFLAGS=-mod=mod GOPROXY=off
unset GOSUMDB GOTOOLCHAIN 2>/dev/null
export PATH="$PATH:/usr/sbin:/sbin"
S=/tmp/seed-scratch
rm -rf $S; mkdir -p $S/bin $S/evidence
cp /verif/known_findings.json $S/
if [ -n "$(git -C /repo status --porcelain)" ]; then echo "/repo is not clean"; exit 3; fi
git -C /repo apply "$DIR/patch.diff" || { echo "patch does not apply"; exit 3; }
trap 'git -C /repo checkout -- . ; git -C /repo clean -fdq' EXIT
/verif/tools/baseline.sh | tail -3
cd /verif
go build -tags verif -o $S/bin/vcheck ./cmd/vcheck || { echo BUILD FAILED; exit 3; }
for ID in "$@"; do
  if [ "$ID" = C17 ]; then go build -race -tags verif -o $S/bin/vcheck-race ./cmd/vcheck; fi
  VERIF_DIR=$S VERIF_TIER=$TIER $S/bin/vcheck check $ID $TIER > $S/$ID.out 2>&1
  rc=$?
  echo "== $ID $TIER exit=$rc  $(grep -c '^VIOLATION' $S/$ID.out) violation(s)"
  grep -A3 '^VIOLATION' $S/$ID.out | grep -v '^--' | cut -c1-260 | head -12
done
